"""C06 — call checking: arguments against parameter types, result type.

proof   : Properties/C06.v over Call/Model.v = the C05 binder (Binder/Bind.v: all parameter kinds, star
          arguments) + per-parameter acceptance + bound generation through T / list[T] / dict[K, V] /
          Callable[[T], U] + the C15 solver per type variable; instantiated on the atom fragment whose
          acceptance table is dumped from the implementation and whose runtime membership table is
          computed by CPython (Gen/CallObjs.v)
tie     : correspondence of Call.Model.check_call with the real checker run on generated modules
          (real defs: functions, methods, classmethods, staticmethods, dataclass constructors; literal,
          typed, list, dict, callback, *star and **star arguments): diagnostic codes per call, names of
          the reported parameters, inferred type
oracle  : CPython: inspect.signature(...).bind for the binding, isinstance for membership of every
          literal argument in the declared type, and really executing the call for the result
"""
from __future__ import annotations

import ast
import contextlib
import inspect
import io
import json
import os
import random
from pathlib import Path

import c06_shadow as shadow
import c06_splat as splat
import c06_universe as u6
import c15_universe as uni
import lib
from translate import checkcall as tr_checkcall
from translate import solve as tr_solve

PROP = "C06"
CORPUS = Path(__file__).resolve().parent / "corpus" / "C06.json"
KINDS = {"po": "PO", "pk": "POK", "vp": "VP", "ko": "KO", "vk": "VK"}
FLAVORS = ["function", "function", "function", "method", "classmethod", "staticmethod", "dataclass"]
A = uni.ATOM_NAMES.index
NOBJ = len(u6.OBJ_NAMES)


def gen_files():
    return {"Solve.v": tr_solve.translate(str(lib.REPO)), "SolveAtoms.v": uni.gen_atoms_v(), "CallObjs.v": u6.gen_objs_v(),
            "CheckCall.v": tr_checkcall.translate(str(lib.REPO))}


# ---------------------------------------------------------------------------
# generator
#
# annotation  := None | "any" | [atoms] | {"v": k} | {"list": k} | {"dict": [k, j]} | {"fun": [k, r]}   r := None | [atoms] | {"v": j}
# argument    := {"o": object index} | {"t": [atoms]} | {"list": [atoms]} | {"dict": [[atoms], [atoms]]} | {"fun": name}
# call        := {"pos": [argument], "kw": [[name, argument]], "star": None | [atoms], "starkw": None | [atoms]}

TYPE_POOL = [(A("int"),), (A("str"),), (A("float"),), (A("bool"),), (A("object"),), (A("clsA"),), (A("clsB"),), (A("clsC"),),
             (A("int"), A("str")), (A("litNone"), A("int")), (A("lit1"),), (A("lita"), A("lit1")), (A("litTrue"),),
             (A("clsA"), A("litNone")), (A("str"), A("clsC")), "any", (A("list_int"),)]
UNBOUNDED = ["T0", "U0", "W0"]


def is_tv_ann(a):
    return isinstance(a, dict)


def decl_sval(name):
    d = u6.DECLS[name][1]
    return "any" if d[0] == "unbounded" else (d[1] if d[0] == "bounded" else tuple(x[0] for x in d[1]))


def literal_for(rng, sv):
    """a literal object index, usually (75%) a member of sv"""
    if rng.random() < 0.75:
        good = [i for i in range(NOBJ) if u6.member_sval(u6.obj_value(i), sv)]
        if good:
            return rng.choice(good)
    return rng.randrange(NOBJ)


def norm_ann(a):
    """old corpus entries write {"list": k} / {"dict": [k, j]} with bare indices"""
    if isinstance(a, int):
        return {"v": a}
    if isinstance(a, dict):
        if "fun" in a:
            return a
        key = next(iter(a))
        v = a[key]
        if key == "v":
            return a
        if key in ("dict", "tup2"):
            return {key: [norm_ann(v[0]), norm_ann(v[1])]}
        return {key: norm_ann(v)}
    return a


def elem_for(rng, ann, sig):
    """an element (inside a list / tuple / dict argument) for an inner annotation: a static type or nested"""
    ann = norm_ann(ann)
    if isinstance(ann, dict):
        key = next(iter(ann))
        if key == "v":
            return list(rng.choice(list(u6.ELEMS)))
        if key == "list":
            return {"list": elem_for(rng, ann["list"], sig)}
        return list(rng.choice(list(u6.ELEMS)))
    svl = "any" if ann in (None, "any") else tuple(ann)
    good = [t for t in u6.ELEMS if sub_sval(t, svl)]
    if good and rng.random() < 0.8:
        return list(rng.choice(good))
    return list(rng.choice(list(u6.ELEMS)))


def arg_for(rng, ann, sig):
    """an argument that is shaped for the annotation"""
    ann = norm_ann(ann)
    if isinstance(ann, dict):
        if "v" in ann:
            sv = decl_sval(sig["tvs"][ann["v"]])
            if rng.random() < 0.2:
                cands = [t for t in u6.TYPED if sv == "any" or rng.random() < 0.7]
                if cands:
                    return {"t": list(rng.choice(cands))}
            return {"o": literal_for(rng, sv)}
        if "fun" in ann:
            if rng.random() < 0.06:
                return {"o": rng.randrange(NOBJ)}
            return {"fun": rng.choice(list(u6.FUNS))}
        key = next(iter(ann))
        if rng.random() < 0.06:
            return {"o": rng.randrange(NOBJ)}
        if key == "opt":
            if rng.random() < 0.3:
                return {"o": u6.OBJ_NAMES.index("litNone")}
            x = arg_for(rng, ann["opt"], sig)
            if "t" in x and len(x["t"]) > 1:
                # a union-typed argument is split member by member against a union annotation
                # (MultiValuedValue.can_assign); the model's values are opaque: not generated
                x = {"t": [x["t"][0]]}
            return x
        if key == "list":
            return {"list": elem_for(rng, ann["list"], sig)}
        if key == "tupv":
            return {"tupv": elem_for(rng, ann["tupv"], sig)}
        if key == "tup2":
            return {"tup2": [elem_for(rng, ann["tup2"][0], sig), elem_for(rng, ann["tup2"][1], sig)]}
        return {"dict": [elem_for(rng, ann["dict"][0], sig), elem_for(rng, ann["dict"][1], sig)]}
    sv = "any" if ann in (None, "any") else tuple(ann)
    if rng.random() < 0.12:
        good = [t for t in u6.TYPED if sv == "any" or all(any(uni.atom_table()[x][y] for x in sv) for y in t)]
        if good and rng.random() < 0.8:
            return {"t": list(rng.choice(good))}
        return {"t": list(rng.choice(list(u6.TYPED)))}
    return {"o": literal_for(rng, sv)}


def gen_sig(rng, idx):
    flavor = rng.choice(FLAVORS)
    generic = flavor != "dataclass" and rng.random() < 0.55
    tvs = []
    if generic:
        first = rng.choice(["T0", "T0", "TB", "TA", "TC", "TD"])
        tvs = [first]
        if rng.random() < 0.5:
            tvs.append(rng.choice([n for n in UNBOUNDED + ["TC", "TB"] if n != first]))
    used = set()

    def tv():
        k = rng.randrange(len(tvs))
        used.add(k)
        return k

    def inner(depth=0):
        """an annotation usable inside list[.] / tuple[.] / Optional[.]: a type variable, a closed type, or nested"""
        r = rng.random()
        if r < 0.6:
            return {"v": tv()}
        if r < 0.8 or depth >= 1:
            return list(rng.choice([(A("int"),), (A("str"),), (A("float"),), (A("object"),)]))
        return {"list": inner(depth + 1)}

    def ann(simple=False):
        if generic and rng.random() < 0.6:
            r = rng.random()
            if simple or r < 0.45:
                return {"v": tv()}
            if r < 0.57:
                return {"list": inner()}
            if r < 0.64:
                return {"opt": {"v": tv()}}
            if r < 0.70:
                return {"tupv": inner(1)}
            if r < 0.76:
                return {"tup2": [inner(1), inner(1)]}
            if r < 0.83:
                return {"dict": [{"v": tv()}, {"v": tv()}]}
            rr = rng.random()
            ret = None if rr < 0.2 else ({"v": tv()} if rr < 0.75 else list(rng.choice([(A("str"),), (A("int"),), (A("object"),)])))
            return {"fun": [tv(), ret]}
        if not simple and rng.random() < 0.08:
            return rng.choice([{"list": [A("int")]}, {"opt": [A("int")]}, {"tupv": [A("float")]}, {"tup2": [[A("int")], [A("str")]]}])
        t = rng.choice(TYPE_POOL)
        return t if t == "any" else list(t)

    def default_for(a):
        if isinstance(a, dict):
            if "v" not in a:
                return None
            return {"o": literal_for(rng, decl_sval(tvs[a["v"]])) if rng.random() < 0.7 else rng.randrange(NOBJ)}
        if rng.random() < 0.3:
            return {"o": rng.randrange(NOBJ)}
        return {"o": literal_for(rng, "any" if a in (None, "any") else tuple(a))}

    params = []
    npos = rng.choice([1, 1, 2, 2, 3])
    n_po = rng.choice([0, 0, 0, 1, 2]) if flavor != "dataclass" else 0
    seen_default = False
    for i in range(npos):
        a = ann()
        d = None
        if (seen_default or rng.random() < 0.25) and not (isinstance(a, dict) and "v" not in a):
            d = default_for(a)
        if d is not None:
            seen_default = True
        elif seen_default:
            a = ann(simple=True)
            d = default_for(a)
        params.append({"name": f"p{i}", "kind": "po" if i < n_po else "pk", "default": d, "ann": a})
    if flavor != "dataclass":
        if rng.random() < 0.3:
            params.append({"name": "va", "kind": "vp", "default": None, "ann": ann(simple=True)})
        for i in range(rng.choice([0, 0, 1, 2]) if (params[-1]["kind"] == "vp" or rng.random() < 0.4) else 0):
            a = ann()
            d = default_for(a) if rng.random() < 0.4 and not (isinstance(a, dict) and "v" not in a) else None
            params.append({"name": f"k{i}", "kind": "ko", "default": d, "ann": a})
        if rng.random() < 0.25:
            params.append({"name": "vk", "kind": "vk", "default": None, "ann": ann(simple=True)})
    if flavor == "dataclass":
        ret = None
    else:
        direct = [p for p in params if p["ann"] == {"v": 0} and p["kind"] in ("po", "pk", "ko") and p["default"] is None]
        if generic and direct and rng.random() < 0.7:
            ret = {"v": 0}  # the body returns that parameter
        else:
            ret = list(rng.choice([t for t in TYPE_POOL if t != "any" and t != (A("list_int"),)]))
    return {"id": idx, "flavor": flavor, "tvs": tvs, "params": params, "ret": ret}


STAR_TYPES = [(A("int"),), (A("str"),), (A("float"),), (A("bool"),), (A("object"),), (A("clsA"),), (A("int"), A("str"))]


def gen_star_sig(rng, idx):
    """flat signatures for the star-argument class: every parameter kind, with and without defaults"""
    params = []
    n_po = rng.choice([0, 1, 2, 2])
    n_pk = rng.choice([0, 1, 2]) if n_po else rng.choice([1, 2, 3])
    seen_default = False
    for i in range(n_po + n_pk):
        t = list(rng.choice(STAR_TYPES))
        d = None
        if seen_default or rng.random() < 0.4:
            seen_default = True
            d = {"o": literal_for(rng, tuple(t))}
        params.append({"name": f"p{i}", "kind": "po" if i < n_po else "pk", "default": d, "ann": t})
    if rng.random() < 0.25:
        params.append({"name": "va", "kind": "vp", "default": None, "ann": list(rng.choice(STAR_TYPES))})
    for i in range(rng.choice([0, 0, 1, 2])):
        t = list(rng.choice(STAR_TYPES))
        params.append({"name": f"k{i}", "kind": "ko", "default": {"o": literal_for(rng, tuple(t))} if rng.random() < 0.5 else None, "ann": t})
    if rng.random() < 0.2:
        params.append({"name": "vk", "kind": "vk", "default": None, "ann": list(rng.choice(STAR_TYPES))})
    return {"id": idx, "flavor": rng.choice(["function", "function", "method", "staticmethod"]), "tvs": [], "params": params, "ret": [A("int")]}


def gen_star_call(rng, sig):
    """k leading positionals, then *xs of unknown length and / or **kw with unknown keys, plus explicit keywords"""
    ps = sig["params"]
    posl = [p for p in ps if p["kind"] in ("po", "pk")]
    k = rng.randrange(0, len(posl) + 1)
    pos = [arg_for(rng, p["ann"], sig) for p in posl[:k]]
    r = rng.random()
    elems = [t for t in u6.ELEMS if len(t) == 1]
    star = list(rng.choice(elems)) if r < 0.8 else None
    starkw = list(rng.choice(elems)) if r >= 0.8 or rng.random() < 0.3 else None
    kw = []
    for p in [p for p in ps if p["kind"] == "ko"] + ([p for p in posl[k:] if p["kind"] == "pk"] if star is None else []):
        if rng.random() < (0.75 if p["default"] is None and starkw is None else 0.25):
            kw.append([p["name"], arg_for(rng, p["ann"], sig)])
    return {"pos": pos, "kw": kw, "star": star, "starkw": starkw}


def gen_call(rng, sig):
    ps = sig["params"]
    posl = [p for p in ps if p["kind"] in ("po", "pk")]
    pos, kw = [], []
    r = rng.random()
    n_pos = len(posl) if r < 0.55 else rng.randrange(0, len(posl) + 1)
    has_vp = any(p["kind"] == "vp" for p in ps)
    for p in posl[:n_pos]:
        pos.append(arg_for(rng, p["ann"], sig))
    star = starkw = None
    if has_vp and n_pos == len(posl):
        vp = next(p for p in ps if p["kind"] == "vp")
        for _ in range(rng.choice([0, 1, 2, 3])):
            pos.append(arg_for(rng, vp["ann"], sig))
    elif rng.random() < 0.06:
        pos.append({"o": rng.randrange(NOBJ)})  # too many positionals
    if rng.random() < 0.08:
        star = list(rng.choice(list(u6.ELEMS)))
    for p in posl[n_pos:] + [p for p in ps if p["kind"] == "ko"]:
        if p["default"] is None or rng.random() < 0.5:
            if rng.random() < (0.93 if star is None else 0.5):
                kw.append([p["name"], arg_for(rng, p["ann"], sig)])
    if rng.random() < 0.05 and posl[:n_pos]:
        kw.append([posl[0]["name"], {"o": rng.randrange(NOBJ)}])  # multiple values / keyword for positional-only
    vk = next((p for p in ps if p["kind"] == "vk"), None)
    if vk is not None:
        for j in range(rng.choice([0, 1, 2])):
            kw.append([f"x{j}", arg_for(rng, vk["ann"], sig)])
    elif rng.random() < 0.05:
        kw.append(["zz", {"o": 0}])  # unexpected keyword
    if rng.random() < 0.06:
        starkw = list(rng.choice(list(u6.ELEMS)))
    rng.shuffle(kw)
    return {"pos": pos, "kw": kw, "star": star, "starkw": starkw}


# ---------------------------------------------------------------------------
# rendering as Python source


def ann_src(a, sig):
    a = norm_ann(a)
    if a is None:
        return None
    if a == "any":
        return "Any"
    if isinstance(a, dict):
        tn = lambda k: u6.DECLS[sig["tvs"][k]][0]
        if "v" in a:
            return tn(a["v"])
        if "list" in a:
            return f"list[{ann_src(a['list'], sig)}]"
        if "tupv" in a:
            return f"tuple[{ann_src(a['tupv'], sig)}, ...]"
        if "tup2" in a:
            return f"tuple[{ann_src(a['tup2'][0], sig)}, {ann_src(a['tup2'][1], sig)}]"
        if "opt" in a:
            return f"{ann_src(a['opt'], sig)} | None"
        if "dict" in a:
            return f"dict[{ann_src(a['dict'][0], sig)}, {ann_src(a['dict'][1], sig)}]"
        k, r = a["fun"]
        rs = "Any" if r is None else ann_src(r, sig)
        return f"Callable[[{tn(k)}], {rs}]"
    return " | ".join(u6.ATOM_SRC[uni.ATOM_NAMES[i]] for i in a)


def obj_src(i):
    return u6.OBJ_SRC[u6.OBJ_NAMES[i]]


def return_expr(sig):
    ret = sig["ret"]
    if isinstance(ret, dict):
        return next(p["name"] for p in sig["params"] if p["ann"] == {"v": 0} and p["kind"] in ("po", "pk", "ko") and p["default"] is None)
    sv = tuple(ret)
    for i in range(NOBJ):
        if u6.member_sval(u6.obj_value(i), sv):
            return obj_src(i)
    raise AssertionError(ret)


def render_sig(sig):
    i = sig["id"]
    parts = []
    star_done = False
    prev_kind = None
    for p in sig["params"]:
        if prev_kind == "po" and p["kind"] != "po":
            parts.append("/")
        a = ann_src(p["ann"], sig)
        s = p["name"] + (f": {a}" if a is not None else "")
        if p["kind"] == "vp":
            s = "*" + s
            star_done = True
        elif p["kind"] == "vk":
            s = "**" + s
        elif p["kind"] == "ko" and not star_done:
            parts.append("*")
            star_done = True
        if p["default"] is not None:
            s += " = " + obj_src(p["default"]["o"])
        parts.append(s)
        prev_kind = p["kind"]
    if prev_kind == "po":
        parts.append("/")
    fl = sig["flavor"]
    if fl == "dataclass":
        body = "\n".join(
            f"    {p['name']}: {ann_src(p['ann'], sig)}" + (f" = {obj_src(p['default']['o'])}" if p["default"] is not None else "")
            for p in sig["params"]
        )
        return f"@dataclass\nclass D{i}:\n{body}\n", f"D{i}"
    ra = ann_src(sig["ret"], sig)
    rexpr = return_expr(sig)
    if fl == "function":
        return f"def f{i}({', '.join(parts)}) -> {ra}:\n    return {rexpr}\n", f"f{i}"
    first = {"method": ["self"], "classmethod": ["cls"], "staticmethod": []}[fl]
    deco = {"method": "", "classmethod": "    @classmethod\n", "staticmethod": "    @staticmethod\n"}[fl]
    src = f"class K{i}:\n{deco}    def m({', '.join(first + parts)}) -> {ra}:\n        return {rexpr}\n"
    return src, (f"K{i}().m" if fl == "method" else f"K{i}.m")


def render_case(name, callee, call):
    """The case function: typed / list / dict / star arguments are its own annotated parameters (with
    runtime defaults, so that the case can be executed); literals and callbacks appear in the call."""
    formals = []

    def elem_src(e):
        """(type source, runtime value source) of an element: a static type or a nested argument"""
        if isinstance(e, dict):
            return struct_src(e)
        t = tuple(e)
        return u6.ELEMS[t] if t in u6.ELEMS else u6.TYPED[t]

    def struct_src(a):
        if "list" in a:
            t, d = elem_src(a["list"])
            return f"list[{t}]", f"[{d}]"
        if "tupv" in a:
            t, d = elem_src(a["tupv"])
            return f"tuple[{t}, ...]", f"({d},)"
        if "tup2" in a:
            (t1, d1), (t2, d2) = elem_src(a["tup2"][0]), elem_src(a["tup2"][1])
            return f"tuple[{t1}, {t2}]", f"({d1}, {d2})"
        (tk, dk), (tv_, dv) = elem_src(a["dict"][0]), elem_src(a["dict"][1])
        return f"dict[{tk}, {tv_}]", f"{{{dk}: {dv}}}"

    def arg(a):
        if "o" in a:
            return obj_src(a["o"])
        if "fun" in a:
            return a["fun"]
        v = f"a{len(formals)}"
        if "t" in a:
            t, d = u6.TYPED[tuple(a["t"])]
        else:
            t, d = struct_src(a)
        formals.append(f"{v}: {t} = {d}")
        return v

    args = [arg(a) for a in call["pos"]]
    if call.get("star") is not None:
        t, d = u6.ELEMS[tuple(call["star"])]
        formals.append(f"sa: list[{t}] = []")
        args.append("*sa")
    args += [f"{n}={arg(a)}" for n, a in call["kw"]]
    if call.get("starkw") is not None:
        t, d = u6.ELEMS[tuple(call["starkw"])]
        formals.append(f"sk: dict[str, {t}] = {{}}")
        args.append("**sk")
    text = f"{callee}({', '.join(args)})"
    return f"def {name}({', '.join(formals)}):\n    return {text}\n", text


def render_module(group):
    out = [u6.PRELUDE]
    cases = {}
    for sig, calls in group:
        src, callee = render_sig(sig)
        out.append(src)
        for j, c in enumerate(calls):
            name = f"case_{sig['id']}_{j}"
            csrc, text = render_case(name, callee, c)
            out.append(csrc)
            cases[name] = (sig, c, text)
    return "\n".join(out), cases


# ---------------------------------------------------------------------------
# implementation: the real checker on the module + CPython


def run_module(src):
    from pyanalyze.analysis_lib import make_module
    from pyanalyze.name_check_visitor import ClassAttributeChecker, NameCheckVisitor

    tree = ast.parse(src)
    mod = make_module(src)
    kwargs = NameCheckVisitor.prepare_constructor_kwargs({})
    options = kwargs["checker"].options
    sink = io.StringIO()
    with contextlib.redirect_stdout(sink), contextlib.redirect_stderr(sink):
        with ClassAttributeChecker(enabled=True, options=options) as ac:
            v = NameCheckVisitor("", src, tree, module=mod, settings=None, attribute_checker=ac, annotate=True, **kwargs)
            v.check(ignore_missing_module=True)
    by_line = {}
    for f in v.all_failures:
        by_line.setdefault(f.get("lineno"), []).append(f)
    out, other, case_lines = {}, [], set()
    cname = lambda f: f["code"].name if hasattr(f.get("code"), "name") else str(f.get("code"))
    for n in tree.body:
        if isinstance(n, ast.FunctionDef) and n.name.startswith("case_"):
            callnode = n.body[-1].value  # the call is the returned expression of the last statement
            fs = by_line.get(callnode.lineno, [])
            case_lines.add(callnode.lineno)
            codes, names = [], []
            for f in fs:
                codes.append(cname(f))
                d = f.get("description", "")
                if cname(f) == "incompatible_argument" and d.startswith("Incompatible argument type for "):
                    names.append(d[len("Incompatible argument type for "):].split(":")[0])
            out[n.name] = {"codes": codes, "names": names, "inferred": getattr(callnode, "inferred_value", None),
                           "descr": [f.get("description", "")[:160] for f in fs]}
    for ln, fs in by_line.items():
        if ln not in case_lines:
            other += [(ln, cname(f), f.get("description", "")[:120]) for f in fs]
    return out, mod, other


def runtime_callable(mod, sig):
    i, fl = sig["id"], sig["flavor"]
    if fl == "function":
        return getattr(mod, f"f{i}")
    if fl == "dataclass":
        return getattr(mod, f"D{i}")
    k = getattr(mod, f"K{i}")
    return k().m if fl == "method" else k.m


def simple_sig(sig):
    """annotations the literal-only oracle understands: closed types, bare type variables, list[T]/dict[K, V]/callbacks"""
    def ok(a):
        a = norm_ann(a)
        if not isinstance(a, dict):
            return True
        if "v" in a or "fun" in a:
            return True
        key = next(iter(a))
        if key == "list":
            return isinstance(a["list"], dict) and "v" in a["list"]
        if key == "dict":
            return all(isinstance(x, dict) and "v" in x for x in a["dict"])
        return False
    return all(ok(p["ann"]) for p in sig["params"])


def literal_call(call):
    return call.get("star") is None and call.get("starkw") is None and all("o" in a for a in call["pos"]) and all("o" in a for _, a in call["kw"])


def oracle_case(mod, sig, call):
    """CPython as the oracle, for calls whose arguments are all literals: does the call bind; which
    arguments are outside the declared type of the parameter they bind to; for every type variable,
    is there a declared choice that fits all the arguments passed for it.  Parameters annotated
    list[T] / dict / Callable are not judged here (a literal passed for them is never a member)."""
    fn = runtime_callable(mod, sig)
    pos = [u6.obj_value(a["o"]) for a in call["pos"]]
    kw = {n: u6.obj_value(a["o"]) for n, a in call["kw"]}
    try:
        ba = inspect.signature(fn).bind(*pos, **kw)
    except TypeError as ex:
        return {"binds": False, "why": str(ex)[:80]}
    bad = []
    t_objs = {}
    by_name = {p["name"]: p for p in sig["params"]}
    for name, v in ba.arguments.items():
        p = by_name[name]
        vals = list(v) if p["kind"] == "vp" else list(v.values()) if p["kind"] == "vk" else [v]
        a = norm_ann(p["ann"])
        if a is None or not vals:
            continue
        if isinstance(a, dict):
            if "v" not in a:
                bad.append(name)  # a literal of the universe is never a list / dict / callable
                continue
            k = a["v"]
            t_objs.setdefault(k, []).extend(vals)
            sv = decl_sval(sig["tvs"][k])
            if p["kind"] in ("vp", "vk"):
                # the collected arguments are one lower bound: a constrained T needs ONE constraint for all of them
                d = u6.DECLS[sig["tvs"][k]][1]
                if d[0] == "constrained":
                    if not any(all(u6.member_sval(x, c) for x in vals) for c in d[1]):
                        bad.append(name)
                    continue
            if any(not u6.member_sval(x, sv) for x in vals):
                bad.append(name)
        elif any(not u6.member_sval(x, "any" if a == "any" else tuple(a)) for x in vals):
            bad.append(name)
    # defaults annotated with a type variable contribute when they fit the declaration
    for p in sig["params"]:
        a = p["ann"]
        if p["name"] not in ba.arguments and p["default"] is not None and isinstance(a, dict) and "v" in a:
            x = u6.obj_value(p["default"]["o"])
            if u6.member_sval(x, decl_sval(sig["tvs"][a["v"]])):
                t_objs.setdefault(a["v"], []).append(x)
    solvable = True
    for k, xs in t_objs.items():
        d = u6.DECLS[sig["tvs"][k]][1]
        if d[0] == "constrained" and not any(all(u6.member_sval(x, c) for x in xs) for c in d[1]):
            solvable = False
    return {"binds": True, "bad": sorted(set(bad)), "solvable": solvable, "t_objs": t_objs}



# ---------------------------------------------------------------------------
# runtime oracle for every concrete call (typed / list / dict / callback arguments included)
#
# An argument is represented by concrete objects: a literal by itself; a value of static type
# t1 | .. | tn by one canonical instance of every member (int -> 1, float -> 1.5, A -> A(), ...): on
# this fragment "the static type is accepted" <=> "every representative is a runtime member"
# (classes with the int -> float promotion, literals); a list / dict by the representatives of its
# element / key / value types; a callback by its parameter and result types.  Binding is CPython's
# (inspect.signature(...).bind on the argument descriptors).

_CLASS_REP = None


def class_rep(name):
    global _CLASS_REP
    if _CLASS_REP is None:
        _CLASS_REP = {"int": 1, "bool": True, "float": 1.5, "str": "a", "object": object(), "clsA": uni.a_inst, "clsB": uni.b_inst, "clsC": uni.c_inst}
    return _CLASS_REP[name]


def reps_sval(svl):
    out = []
    lit = dict(uni.LITERAL_OBJECTS)
    for a in svl:
        n = uni.ATOM_NAMES[a]
        if n in lit:
            out.append(lit[n])
        else:
            out.append(class_rep(n))
    return out


def class_part(svl):
    """the class atoms of a declared type: a value of static type `int` is accepted by `int` or `float`,
    never by Literal[1] although its representative 1 is a member of it"""
    if svl == "any":
        return "any"
    names = dict(uni.CLASS_ATOMS)
    return tuple(a for a in svl if uni.ATOM_NAMES[a] in names)


def elem_reps(e):
    return arg_reps(e) if isinstance(e, dict) else ("typed", reps_sval(e))


def arg_reps(a):
    if "o" in a:
        return ("objs", [u6.obj_value(a["o"])])
    if "t" in a:
        return ("typed", reps_sval(a["t"]))
    if "list" in a:
        return ("list", elem_reps(a["list"]))
    if "tupv" in a:
        return ("tupv", elem_reps(a["tupv"]))
    if "tup2" in a:
        return ("tup2", elem_reps(a["tup2"][0]), elem_reps(a["tup2"][1]))
    if "dict" in a:
        return ("dict", elem_reps(a["dict"][0]), elem_reps(a["dict"][1]))
    p, r = u6.FUNS[a["fun"]]
    return ("fun", tuple(p), tuple(r))


def objs_in(objs, svl):
    return all(u6.member_sval(o, svl) for o in objs)


def sub_sval(a, b):
    return b == "any" or objs_in(reps_sval(a), class_part(b))


LIST_ATOMS = {"list_int": (A("int"),), "list_bool": (A("bool"),), "list_object": (A("object"),), "seq_int": (A("int"),)}


def fits_plain(rep, ann):
    """a representative structure against a closed type of the fragment"""
    if ann in (None, "any"):
        return True
    svl = tuple(ann)
    if rep[0] == "objs":
        return objs_in(rep[1], svl)
    if rep[0] == "typed":
        return objs_in(rep[1], class_part(svl))
    if A("object") in svl:
        return True
    if rep[0] == "list" and rep[1][0] in ("objs", "typed"):
        return any(uni.ATOM_NAMES[a] in LIST_ATOMS and fits_plain(rep[1], LIST_ATOMS[uni.ATOM_NAMES[a]]) for a in svl)
    return False


def oracle_full(mod, sig, call):
    fn = runtime_callable(mod, sig)
    try:
        ba = inspect.signature(fn).bind(*call["pos"], **{n: a for n, a in call["kw"]})
    except TypeError as ex:
        return {"binds": False, "why": str(ex)[:80]}
    tvs = sig["tvs"]
    decl = lambda k: u6.DECLS[tvs[k]][1]

    def decl_ok(k, objs):
        d = decl(k)
        if d[0] == "unbounded":
            return True
        if d[0] == "bounded":
            return objs_in(objs, d[1])
        return any(objs_in(objs, c) for c in d[1])

    lowers = {k: [] for k in range(len(tvs))}
    uppers = {k: [] for k in range(len(tvs))}
    bad = []
    by_name = {p["name"]: p for p in sig["params"]}

    def lower(k, objs, name):
        if not decl_ok(k, objs):
            bad.append(name)
        else:
            lowers[k] += objs

    none_obj = [None]

    def match(a, r, name):
        """mirror of e.can_assign(x) on representatives, to any nesting depth"""
        a = norm_ann(a)
        if not isinstance(a, dict):
            if not fits_plain(r, a):
                bad.append(name)
            return
        key = next(iter(a))
        if key == "v":
            if r[0] not in ("objs", "typed"):
                bad.append(name)
            else:
                lower(a["v"], r[1], name)
        elif key == "opt":
            if r[0] in ("objs", "typed") and all(o is None for o in r[1]):
                return  # None itself: accepted by the None alternative, no bound
            match(a["opt"], r, name)
        elif key in ("list", "tupv"):
            if r[0] != key:
                bad.append(name)
            else:
                match(a[key], r[1], name)
        elif key in ("dict", "tup2"):
            if r[0] != key:
                bad.append(name)
            else:
                match(a[key][0], r[1], name)
                match(a[key][1], r[2], name)

    for name, v in ba.arguments.items():
        p = by_name[name]
        xs = list(v) if p["kind"] == "vp" else list(v.values()) if p["kind"] == "vk" else [v]
        a = norm_ann(p["ann"])
        rs = [arg_reps(x) for x in xs]
        if not rs:
            continue
        if isinstance(a, dict) and "fun" in a:
            k, rr = a["fun"]
            for r in rs:
                if r[0] != "fun":
                    bad.append(name)
                    continue
                d = decl(k)
                if d[0] == "constrained" and not any(sub_sval(r[1], c) for c in d[1]):
                    bad.append(name)  # no constraint accepts the callback's parameter type
                    continue
                uppers[k].append(r[1])
                if rr is None:
                    pass
                elif isinstance(rr, dict):
                    lower(rr["v"], reps_sval(r[2]), name)
                elif not sub_sval(r[2], "any" if rr == "any" else tuple(rr)):
                    bad.append(name)
        elif isinstance(a, dict) and "v" in a:
            if any(r[0] not in ("objs", "typed") for r in rs):
                bad.append(name)
            else:
                lower(a["v"], [o for r in rs for o in r[1]], name)  # collected arguments are one lower bound
        else:
            for r in rs:
                match(a, r, name)
    for p in sig["params"]:
        a = p["ann"]
        if p["name"] not in ba.arguments and p["default"] is not None and isinstance(a, dict) and "v" in a:
            x = u6.obj_value(p["default"]["o"])
            if decl_ok(a["v"], [x]):
                lowers[a["v"]].append(x)
    unsolvable, indeterminate = [], []
    for k in range(len(tvs)):
        S, U = lowers[k], uppers[k]
        d = decl(k)
        if S:
            if d[0] == "constrained":
                ok = any(objs_in(S, c) and all(sub_sval(c, p) for p in U) for c in d[1])
            else:
                ok = decl_ok(k, S) and all(objs_in(S, p) for p in U)
            if not ok:
                unsolvable.append(k)
        elif U:
            indeterminate.append(k)  # only upper bounds: any subtype of all of them would do
    return {"binds": True, "bad": sorted(set(bad)), "unsolvable": unsolvable, "indeterminate": indeterminate,
            "must_diagnose": bool(bad or unsolvable), "must_accept": not bad and not unsolvable and not indeterminate}


def oracle_star(mod, sig, call):
    """Calls with a `*iterable` of unknown length and / or a `**mapping` with unknown keys, against a signature
    without type variables: every expansion is tried under CPython's binder — 0..n+2 elements (each a
    representative of the element type), every subset (<= 3) of the keyword-capable parameter names not passed
    explicitly (plus a stranger key when the signature has **kwargs) with a representative of the value type.
    must_diagnose: no expansion binds, or some binding expansion passes a non-member;  types_fine: some
    expansion binds and every binding expansion passes members only (then an incompatible_argument is wrong;
    binding-level complaints about star arguments are C05's subject and are not judged here)."""
    import itertools

    fn = runtime_callable(mod, sig)
    params = sig["params"]
    by_name = {p["name"]: p for p in params}
    e_reps = reps_sval(call["star"]) if call.get("star") is not None else [None]
    v_reps = reps_sval(call["starkw"]) if call.get("starkw") is not None else [None]
    explicit = {n for n, _ in call["kw"]}
    keys = [p["name"] for p in params if p["kind"] in ("pk", "ko") and p["name"] not in explicit]
    if any(p["kind"] == "vk" for p in params):
        keys.append("zz9")
    npos_params = sum(1 for p in params if p["kind"] in ("po", "pk"))
    lengths = range(0, npos_params + 3) if call.get("star") is not None else [0]
    subsets = [()]
    if call.get("starkw") is not None:
        subsets = [ss for r in range(0, min(3, len(keys)) + 1) for ss in itertools.combinations(keys, r)]
    any_bind, witness = False, None
    for n in lengths:
        for ss in subsets:
            for e in (e_reps if n else [None]):
                for v in (v_reps if ss else [None]):
                    pos = list(call["pos"]) + [("typed", [e])] * n
                    kw = {k: a for k, a in call["kw"]}
                    kw.update({k: ("typed", [v]) for k in ss})
                    try:
                        ba = inspect.signature(fn).bind(*pos, **kw)
                    except TypeError:
                        continue
                    any_bind = True
                    for name, val in ba.arguments.items():
                        p = by_name[name]
                        xs = list(val) if p["kind"] == "vp" else list(val.values()) if p["kind"] == "vk" else [val]
                        for x in xs:
                            rep = x if isinstance(x, tuple) else arg_reps(x)
                            if not fits_plain(rep, norm_ann(p["ann"])):
                                witness = {"elements": n, "element": repr(e), "keys": list(ss), "value": repr(v),
                                           "why": f"{rep[1]!r} passed for {name} is not a member of its declared type"}
                                break
                        if witness:
                            break
                    if witness:
                        return {"must_diagnose": True, "types_fine": False, "witness": witness}
    if not any_bind:
        return {"must_diagnose": True, "types_fine": False, "witness": {"why": "no expansion of the star arguments binds"}}
    return {"must_diagnose": False, "types_fine": True, "witness": None}


def value_contains(val, r, fallback_counter):
    from pyanalyze.value import AnnotatedValue, AnyValue, KnownValue, MultiValuedValue, TypedValue

    if isinstance(val, AnnotatedValue):
        val = val.value
    if isinstance(val, AnyValue):
        return True
    if isinstance(val, MultiValuedValue):
        return any(value_contains(m, r, fallback_counter) for m in val.vals)
    if type(val) is TypedValue and isinstance(val.typ, type):
        return isinstance(r, val.typ) or (val.typ is float and isinstance(r, int)) or (val.typ is complex and isinstance(r, (int, float)))
    if type(val) is KnownValue:
        return type(r) is type(val.val) and (r is val.val or r == val.val)
    fallback_counter[0] += 1
    return bool(val.is_assignable(KnownValue(r), uni.ctx()))


# ---------------------------------------------------------------------------
# model terms


def sv(x):
    return uni.coq_sval("any" if x == "any" else tuple(x))


def coq_rann(r):
    if r is None:
        return "RNone"
    if isinstance(r, dict):
        return f"(RVar {r['v']})"
    return f"(RTy {sv(r)})"


def coq_texp(a):
    a = norm_ann(a)
    if isinstance(a, dict):
        key = next(iter(a))
        if key == "v":
            return f"(TVarE {a['v']})"
        if key == "list":
            return f"(TList {coq_texp(a['list'])})"
        if key == "tupv":
            return f"(TTupleVar {coq_texp(a['tupv'])})"
        if key == "opt":
            return f"(TOpt {coq_texp(a['opt'])})"
        if key == "tup2":
            return f"(TTuple2 {coq_texp(a['tup2'][0])} {coq_texp(a['tup2'][1])})"
        return f"(TDict {coq_texp(a['dict'][0])} {coq_texp(a['dict'][1])})"
    return f"(TTy {sv(a)})"


def coq_ann(a):
    a = norm_ann(a)
    if a is None:
        return "AnnNone"
    if isinstance(a, dict) and "fun" in a:
        return f"(AnnFun {a['fun'][0]} {coq_rann(a['fun'][1])})"
    return f"(AnnE {coq_texp(a)})"


def coq_elem(e):
    return coq_aval(e) if isinstance(e, dict) else f"(AV {sv(e)})"


def coq_aval(a):
    if "o" in a:
        return f"(AV (obj_val O_{u6.OBJ_NAMES[a['o']]}))"
    if "t" in a:
        return f"(AV {sv(a['t'])})"
    if "list" in a:
        return f"(AList {coq_elem(a['list'])})"
    if "tupv" in a:
        return f"(ATupleVar {coq_elem(a['tupv'])})"
    if "tup2" in a:
        return f"(ATuple2 {coq_elem(a['tup2'][0])} {coq_elem(a['tup2'][1])})"
    if "dict" in a:
        return f"(ADict {coq_elem(a['dict'][0])} {coq_elem(a['dict'][1])})"
    p, r = u6.FUNS[a["fun"]]
    return f"(AFun {sv(p)} {sv(r)})"


def name_code(n, sig):
    names = [p["name"] for p in sig["params"]]
    if n in names:
        return names.index(n)
    return 100 + (int(n[1:]) if n[1:].isdigit() else 99)


def coq_decl(name):
    d = u6.DECLS[name][1]
    if d[0] == "unbounded":
        return "Unbounded"
    if d[0] == "bounded":
        return f"(Bounded {uni.coq_sval(d[1])})"
    return "(Constrained " + lib.clist([uni.coq_sval(c) for c in d[1]]) + ")"


def has_receiver(sig):
    """methods, classmethods and dataclass constructors are modelled as the underlying function called
    with the receiver prepended (Signature.bind_self / the synthesized __init__): the model signature gets
    an unannotated first parameter and the model call an extra first positional argument"""
    return sig["flavor"] in ("method", "classmethod", "dataclass")


def coq_sig(sig):
    ps = []
    if has_receiver(sig):
        ps.append("mk_cparam (mkParam 99%N POK false) AnnNone None")
    for p in sig["params"]:
        d = "None" if p["default"] is None else f"(Some {coq_aval(p['default'])})"
        ps.append(f"mk_cparam (mkParam {lib.cn(name_code(p['name'], sig))} {KINDS[p['kind']]} {lib.cbool(p['default'] is not None)}) {coq_ann(p['ann'])} {d}")
    return f"(mk_csig {lib.clist(ps)} {lib.clist([coq_decl(t) for t in sig['tvs']])} {coq_rann(sig['ret'])})"


def coq_call(sig, call):
    pos = lib.clist((["(AV (obj_val O_instC))"] if has_receiver(sig) else []) + [coq_aval(a) for a in call["pos"]])
    kw = lib.clist([f"({lib.cn(name_code(n, sig))}, {coq_aval(a)})" for n, a in call["kw"]])
    star = "None" if call.get("star") is None else f"(Some (AV {sv(call['star'])}))"
    starkw = "None" if call.get("starkw") is None else f"(Some (AV {sv(call['starkw'])}))"
    return f"(mk_ccall {pos} {star} {kw} {starkw})"


HEADER = (
    "From Coq Require Import List Bool Arith NArith. Import ListNotations.\n"
    "Require Import PV.TypeVar.Base PV.TypeVar.Model PV.TypeVar.Simple PV.Binder.Kind PV.Binder.Sig PV.Call.Model "
    "PV.Gen.Solve PV.Gen.SolveAtoms PV.Gen.CallObjs."
)


def decode_model(t, sig):
    diags, ret = t
    names = [p["name"] for p in sig["params"]]
    kinds, args = set(), set()
    for d in diags:
        d = getattr(d, "name", d)
        if d == "IncompatibleCall":
            kinds.add("call")
        elif d == "CannotResolve":
            kinds.add("resolve")
        else:
            kinds.add("arg")
            args.add(names[d[1]] if d[1] < len(names) else f"?{d[1]}")
    return {"kinds": kinds, "args": args, "ret": uni.parse_sval(ret)}


def same_type(a, b):
    """union member order is not an observable of the property"""
    if a == "any" or b == "any" or a is None or b is None:
        return a == b
    return sorted(a) == sorted(b)


# ---------------------------------------------------------------------------


def run(tier: str, replay: str | None = None):
    rep = lib.Report(PROP, tier, "proof")
    rng = random.Random(lib.seed() * 7919 + 6)
    broken_translation = None
    gen = None
    try:
        gen = gen_files()
    except (tr_solve.TranslateError, tr_checkcall.TranslateError) as ex:
        broken_translation = str(ex)
    proof = lib.prove(PROP, gen, extra_targets=["theories/Gen/CallObjs.vo", "theories/Call/Model.vo"], thorough=(tier == "thorough")) if gen is not None else None

    groups = []
    if replay:
        r = json.loads(Path(replay).read_text())
        c = r["input"]
        corpus = []
        if "splat" not in c:
            groups.append([(c["sig"], [c["call"]])])
    else:
        corpus = json.loads(CORPUS.read_text()) if CORPUS.exists() else []
        c = {}
        if any("sig" in x for x in corpus):
            groups.append([(x["sig"], [x["call"]]) for x in corpus if "sig" in x])
        n_mod = 60 if tier == "quick" else 600
        sid = 1000
        for _ in range(n_mod):
            g = []
            for _ in range(8):
                sid += 1
                s = gen_sig(rng, sid)
                g.append((s, [gen_call(rng, s) for _ in range(7)]))
            groups.append(g)
        # the star-argument class: flat signatures of every parameter kind x calls with *xs / **kw of unknown length
        for _ in range(10 if tier == "quick" else 90):
            g = []
            for _ in range(8):
                sid += 1
                ss_ = gen_star_sig(rng, sid)
                g.append((ss_, [gen_star_call(rng, ss_) for _ in range(7)]))
            groups.append(g)

    terms, meta = [], []
    impl = {}
    oracle_fail, harness_notes = [], []
    hist = {"flavor": {}, "generic": 0, "two_typevars": 0, "calls": 0, "literal_calls_that_bind": 0, "diagnosed": 0, "accepted": 0, "codes": {},
            "model_kinds": {}, "executed": 0, "result_checked": 0, "result_fallback_can_assign": 0, "inferred_out_of_fragment": 0, "stray_errors": 0, "structured_calls_judged": 0, "structured_verdicts": {"must_diagnose": 0, "must_accept": 0, "either": 0},
            "arg_forms": {"o": 0, "t": 0, "list": 0, "dict": 0, "fun": 0, "star": 0, "starkw": 0},
            "param_kinds": {k: 0 for k in KINDS}, "ann_forms": {"none": 0, "type": 0, "v": 0, "list": 0, "dict": 0, "fun": 0}}
    fallback = [0]
    seen = set()
    for gi, g in enumerate(groups):
        for k, (s, _) in enumerate(g):
            s["id"] = gi * 100 + k
        try:
            src, cases = render_module(g)
            res, mod, other = run_module(src)
        except Exception as ex:  # generated module does not import: harness problem, not a finding
            rep.harness_error(f"module {gi} failed: {ex!r}")
            continue
        hist["stray_errors"] += len(other)
        if other and len(harness_notes) < 5:
            harness_notes.append(other[0])
        for s, _ in g:
            for p in s["params"]:
                hist["param_kinds"][p["kind"]] += 1
                a = p["ann"]
                kf = "none" if a is None else (next(iter(a)) if isinstance(a, dict) else "type")
                hist["ann_forms"][kf] = hist["ann_forms"].get(kf, 0) + 1
        for name, (sig, call, text) in cases.items():
            key = json.dumps([sig["flavor"], sig["tvs"], sig["params"], sig["ret"], call], sort_keys=True)
            r = res[name]
            hist["calls"] += 1
            hist["flavor"][sig["flavor"]] = hist["flavor"].get(sig["flavor"], 0) + 1
            generic = bool(sig["tvs"])
            hist["generic"] += int(generic)
            hist["two_typevars"] += int(len(sig["tvs"]) > 1)
            for a in call["pos"] + [x for _, x in call["kw"]]:
                hist["arg_forms"][next(iter(a))] = hist["arg_forms"].get(next(iter(a)), 0) + 1
            hist["arg_forms"]["star"] += int(call.get("star") is not None)
            hist["arg_forms"]["starkw"] += int(call.get("starkw") is not None)
            for c in set(r["codes"]):
                hist["codes"][c] = hist["codes"].get(c, 0) + 1
            diagnosed = bool(r["codes"])
            hist["diagnosed" if diagnosed else "accepted"] += 1
            case_in = {"sig": sig, "call": call, "source": text, "def": render_sig(sig)[0].strip()[:300]}
            seen.add(key)
            o = None
            if literal_call(call) and simple_sig(sig):
                o = oracle_case(mod, sig, call)
                if o["binds"]:
                    hist["literal_calls_that_bind"] += 1
                    has_arg_err = "incompatible_argument" in r["codes"]
                    if not generic:
                        if has_arg_err != bool(o["bad"]) or (diagnosed and not o["bad"]):
                            oracle_fail.append((case_in, {"what": "diagnosed(call) <=> exists arg: not member(arg, declared(param)) fails",
                                                          "impl_codes": r["codes"], "impl_descr": r["descr"], "cpython_nonmembers": o["bad"]}))
                    else:
                        must = bool(o["bad"]) or not o["solvable"]
                        if diagnosed != must:
                            oracle_fail.append((case_in, {"what": "generic call: diagnosed <=> some argument outside its declared type or no declared choice of a type variable fits all its arguments, fails",
                                                          "impl_codes": r["codes"], "impl_descr": r["descr"], "cpython_nonmembers": o["bad"], "solvable": o["solvable"]}))
            if call.get("star") is None and call.get("starkw") is None:
                of = oracle_full(mod, sig, call)
                if of["binds"]:
                    hist["structured_calls_judged"] += 1
                    hist["structured_verdicts"]["must_diagnose" if of["must_diagnose"] else "must_accept" if of["must_accept"] else "either"] += 1
                    if (of["must_diagnose"] and not diagnosed) or (of["must_accept"] and diagnosed):
                        oracle_fail.append((case_in, {"what": "representative-object oracle: " + ("an argument has a representative outside its declared type / no value of a type variable fits all its bounds, but the call is accepted" if of["must_diagnose"] else "every representative fits and every type variable has a fitting value, but the call is diagnosed"),
                                                      "impl_codes": r["codes"], "impl_descr": r["descr"], "oracle": {k: of[k] for k in ("bad", "unsolvable", "indeterminate")}}))
            if (call.get("star") is not None or call.get("starkw") is not None) and not sig["tvs"] and sig["flavor"] != "dataclass" \
                    and all(not isinstance(norm_ann(p["ann"]), dict) for p in sig["params"]):
                os_ = oracle_star(mod, sig, call)
                hist["star_calls_judged"] = hist.get("star_calls_judged", 0) + 1
                hist.setdefault("star_verdicts", {"must_diagnose": 0, "types_fine": 0})["must_diagnose" if os_["must_diagnose"] else "types_fine"] += 1
                if os_["must_diagnose"] and not diagnosed:
                    oracle_fail.append((case_in, {"what": "star arguments of unknown length: no expansion binds, or an expansion that CPython binds passes a non-member, but the call is accepted",
                                                  "witness": os_["witness"], "impl_codes": r["codes"]}))
                elif os_["types_fine"] and "incompatible_argument" in r["codes"]:
                    oracle_fail.append((case_in, {"what": "star arguments of unknown length: every expansion that CPython binds passes members only, but an incompatible_argument is reported",
                                                  "impl_codes": r["codes"], "impl_descr": r["descr"]}))
            if not diagnosed and call.get("star") is None and call.get("starkw") is None:
                # execute the call; the inferred type must contain the result
                try:
                    result = getattr(mod, name)()
                    hist["executed"] += 1
                    inf = r["inferred"]
                    if inf is not None:
                        hist["result_checked"] += 1
                        if not value_contains(inf, result, fallback):
                            oracle_fail.append((case_in, {"what": "runtime result not in the inferred type", "result": repr(result), "inferred": str(inf)}))
                        if o is not None and o.get("binds") and isinstance(sig["ret"], dict):
                            for x in o["t_objs"].get(sig["ret"]["v"], []):
                                if not value_contains(inf, x, fallback):
                                    oracle_fail.append((case_in, {"what": "accepted generic call: an argument is not in the inferred solution", "argument": repr(x), "solution": str(inf)}))
                except Exception as ex:
                    oracle_fail.append((case_in, {"what": "accepted call raises when executed", "exception": repr(ex)[:200]}))
            enc = None
            if r["inferred"] is not None and sig["flavor"] != "dataclass":
                enc = uni.from_value(r["inferred"])
                if enc is None:
                    hist["inferred_out_of_fragment"] += 1
            impl[(gi, name)] = (sig, call, r, enc, case_in)
            terms.append(f"check_call atom_ops rrs_limit (SU [A_litNone]) {coq_sig(sig)} {coq_call(sig, call)}")
            meta.append((gi, name))
    # ---- stream 2: splat arguments that are unions of tuple / dict literals / TypedDicts ----
    splat_pending = []
    hist["splat"] = {"cases": 0, "kinds": {}, "must_diagnose": 0, "must_accept": 0, "modelled": 0, "different_lengths": 0}
    splat_groups = []
    if replay:
        if "splat" in c:
            splat_groups.append([(c["splat"]["sig"], [c["splat"]["case"]])])
    else:
        for cc in corpus:
            if "splat" in cc:
                splat_groups.append([(cc["splat"]["sig"], [cc["splat"]["case"]])])
        sid = 0
        for _ in range(14 if tier == "quick" else 160):
            g = []
            for _ in range(6):
                sid += 1
                ss = splat.gen_sig(rng, sid)
                g.append((ss, [splat.gen_case(rng, ss) for _ in range(7)]))
            splat_groups.append(g)
    for gi, g in enumerate(splat_groups):
        out_src = [u6.PRELUDE]
        cases2 = {}
        for k, (ss, cs) in enumerate(g):
            ss["id"] = gi * 100 + k
            src1, callee = splat.render_sig(ss)
            out_src.append(src1)
            for j, cs1 in enumerate(cs):
                name = f"case_s{ss['id']}_{j}"
                pre, body = splat.render_case(name, callee, cs1)
                out_src += [pre, body]
                cases2[name] = (ss, cs1, callee)
        try:
            res2, mod2, other2 = run_module("\n".join(out_src))
        except Exception as ex:
            rep.harness_error(f"splat module {gi} failed: {ex!r}")
            continue
        hist["stray_errors"] += len(other2)
        for name, (ss, cs1, callee) in cases2.items():
            r = res2[name]
            hist["calls"] += 1
            hist["splat"]["cases"] += 1
            hist["splat"]["kinds"][cs1["kind"]] = hist["splat"]["kinds"].get(cs1["kind"], 0) + 1
            diagnosed2 = bool(r["codes"])
            hist["diagnosed" if diagnosed2 else "accepted"] += 1
            must, witness = splat.oracle(getattr(mod2, callee), ss, cs1)
            hist["splat"]["must_diagnose" if must else "must_accept"] += 1
            difflen = cs1["kind"] == "starlit" and len({len(a) for a in cs1["alts"]}) > 1
            hist["splat"]["different_lengths"] += int(difflen)
            sig2 = {"id": ss["id"], "flavor": "function", "tvs": [], "ret": [A("int")],
                    "params": [dict(p, default=None if p["default"] is None else {"o": p["default"]}) for p in ss["params"]]}
            # the model sees the union as unite_values leaves it: literal alternatives == to an earlier one are gone
            mc = splat.model_call(ss, splat.collapse_equal(cs1) or cs1)
            case_in = {"splat": {"sig": ss, "case": cs1}, "source": splat.render_case(name, callee, cs1)[1].strip(), "def": splat.render_sig(ss)[0].strip()}
            seen.add(json.dumps(case_in["splat"], sort_keys=True))
            key2 = (10_000 + gi, name)
            collapsed = splat.collapse_equal(cs1)
            eqlit_verdict = splat.oracle(getattr(mod2, callee), ss, collapsed)[0] if collapsed is not None else None
            splat_pending.append((key2, case_in, must, diagnosed2, witness, difflen, r, eqlit_verdict))
            if mc is not None:
                hist["splat"]["modelled"] += 1
                enc = uni.from_value(r["inferred"]) if r["inferred"] is not None else None
                impl[key2] = (sig2, mc, r, enc, case_in)
                terms.append(f"check_call atom_ops rrs_limit (SU [A_litNone]) {coq_sig(sig2)} {coq_call(sig2, mc)}")
                meta.append(key2)
    # ---- stream 3: string / postponed annotations naming module-level classes and aliases (shadowing builtins) ----
    hist["shadow"] = {"modules": 0, "calls": 0, "must_diagnose": 0, "must_accept": 0, "executed": 0, "shadowing_params": 0}
    shadow_mods = []
    if replay:
        if "shadow" in c:
            shadow_mods.append(c["shadow"])
    else:
        for cc in corpus:
            if "shadow" in cc:
                shadow_mods.append(cc["shadow"])
        for k in range(8 if tier == "quick" else 80):
            shadow_mods.append(shadow.gen_module(rng, 500 + k))
    for m in shadow_mods:
        try:
            src3, cases3, _ = shadow.render(m)
            res3, mod3, other3 = run_module(src3)
        except Exception as ex:
            rep.harness_error(f"shadow module {m['id']} failed: {ex!r}")
            continue
        hist["shadow"]["modules"] += 1
        hist["stray_errors"] += len(other3)
        fby = {f["id"]: f for f in m["funcs"]}
        for name, (call3, text3) in cases3.items():
            f3 = fby[call3["f"]]
            r = res3[name]
            hist["calls"] += 1
            hist["shadow"]["calls"] += 1
            diagnosed3 = bool(r["codes"])
            hist["diagnosed" if diagnosed3 else "accepted"] += 1
            try:
                must3, bad3 = shadow.oracle(mod3, f3, call3)
            except Exception as ex:
                rep.harness_error(f"shadow oracle failed on {text3}: {ex!r}")
                continue
            hist["shadow"]["must_diagnose" if must3 else "must_accept"] += 1
            hist["shadow"]["shadowing_params"] += sum(1 for p in f3["params"] if p["type"] in m["shadow_classes"] or p["type"] in m["shadow_aliases"])
            case_in = {"shadow": dict(m, calls=[call3], funcs=[f3]), "source": text3,
                       "def": f"{f3['flavor']} ({', '.join(p['name'] + ': ' + p['type'] for p in f3['params'])}) -> {f3['ret']}; style={m['style']}; "
                              f"module defines classes {m['shadow_classes']} and aliases {m['shadow_aliases']}"}
            seen.add(json.dumps([m["style"], m["shadow_classes"], m["shadow_aliases"], f3, call3], sort_keys=True))
            if must3 != diagnosed3:
                oracle_fail.append((case_in, {"what": ("an argument is not an instance of the type typing.get_type_hints gives for its parameter, but the call is accepted" if must3
                                                       else "every argument is an instance of the type typing.get_type_hints gives for its parameter, but the call is diagnosed"),
                                              "non_members": bad3, "impl_codes": r["codes"], "impl_descr": r["descr"]}))
            elif not diagnosed3:
                try:
                    result = getattr(mod3, name)()
                    hist["shadow"]["executed"] += 1
                    if r["inferred"] is not None and f3["flavor"] != "init" and not value_contains(r["inferred"], result, fallback):
                        oracle_fail.append((case_in, {"what": "runtime result not in the inferred type", "result": repr(result)[:60], "inferred": str(r["inferred"])}))
                except Exception as ex:
                    oracle_fail.append((case_in, {"what": "accepted call raises when executed", "exception": repr(ex)[:200]}))
    hist["result_fallback_can_assign"] = fallback[0]

    model_ok = proof is not None and not any("build failed" in b for b in proof.broken)
    if not model_ok and gen is not None:
        model_ok, _ = lib.coq_make(["theories/Call/Model.vo", "theories/Gen/CallObjs.vo", "theories/Gen/Solve.vo"], timeout=600)
    corr = []
    model_kinds_by_key = {}
    if model_ok and terms:
        try:
            results = lib.coq_eval(HEADER, terms, name="c06", shard=200)
            for key, t in zip(meta, results):
                sig, call, r, enc, case_in = impl[key]
                m = decode_model(t, sig)
                model_kinds_by_key[key] = m["kinds"]
                for k in m["kinds"]:
                    hist["model_kinds"][k] = hist["model_kinds"].get(k, 0) + 1
                i_arg = "incompatible_argument" in r["codes"]
                i_call = any(c != "incompatible_argument" for c in r["codes"])
                m_arg = "arg" in m["kinds"]
                m_call = bool(m["kinds"] & {"call", "resolve"})
                why = None
                if (i_arg, i_call) != (m_arg, m_call):
                    why = "diagnostic kinds differ"
                elif not set(r["names"]) <= m["args"] or (m["args"] and not r["names"]):
                    why = "reported parameters differ"
                elif not r["codes"] and sig["flavor"] != "dataclass" and not same_type(enc, m["ret"]):
                    why = "inferred type differs"
                if why:
                    corr.append((case_in, {"why": why, "impl": {"codes": r["codes"], "names": r["names"], "inferred": str(r["inferred"]), "descr": r["descr"]},
                                           "model": {"kinds": sorted(m["kinds"]), "args": sorted(m["args"]), "ret": uni.show(m["ret"])}}))
        except RuntimeError as ex:
            _cleanup_cases("c06")
            rep.violation({"kind": "broken-correspondence", "correspondence": "Call.Model.check_call vs NameCheckVisitor on generated modules", "detail": str(ex)[-1500:]}, no_failing_input=True)

    for key2, case_in, must, diagnosed2, witness, difflen, r, eqlit_verdict in splat_pending:
        if must == diagnosed2:
            continue
        # known finding: tuples of different lengths are merged into one star argument of unknown length;
        # attributed only under that guard and when the implementation does what the model of the merged
        # call (Call/Model.v with a_star = the union of all elements) predicts
        if difflen and key2 in model_kinds_by_key and bool(model_kinds_by_key[key2]) == diagnosed2:
            rep.known(splat.F_DIFFLEN, splat.FINDING_TEXT[splat.F_DIFFLEN])
        elif must and eqlit_verdict is not None and eqlit_verdict == diagnosed2:
            # known finding: a literal alternative == to an earlier one is dropped by unite_values; attributed only
            # when the verdict is the one the oracle gives for the call WITHOUT the dropped alternatives
            rep.known(splat.F_EQLIT, splat.FINDING_TEXT[splat.F_EQLIT])
        elif must:
            oracle_fail.append((case_in, {"what": "a splat alternative fails to bind or passes a non-member, but the call is accepted", "witness": witness, "impl_codes": r["codes"]}))
        else:
            oracle_fail.append((case_in, {"what": "every splat alternative binds and passes members only, but the call is diagnosed", "impl_codes": r["codes"], "impl_descr": r["descr"]}))
    if os.environ.get("C06_DEBUG"):
        for case_in, obs in corr[:60]:
            print("MISMATCH", case_in["source"], "|", case_in["def"].splitlines()[-2].strip() if "\n" in case_in["def"] else case_in["def"], "|", obs["why"], obs["impl"], obs["model"])
    found = False
    for case_in, obs in oracle_fail[:10]:
        found = True
        rep.violation({"kind": "failing-input", "input": case_in, "observed": obs,
                       "expected": "diagnosed <=> some literal argument is not a member of its parameter's declared type (CPython isinstance); runtime result in the inferred type",
                       "how_to_run": "./check C06 --replay <this file>"})
    if corr and not found:
        case_in, obs = corr[0]
        rep.violation({"kind": "broken-correspondence", "correspondence": "Call.Model.check_call vs NameCheckVisitor on generated modules",
                       "input": case_in, "observed": obs["impl"], "model": obs["model"], "why": obs["why"], "n_mismatches": len(corr)}, no_failing_input=True)
    if broken_translation and not found:
        rep.violation({"kind": "broken-obligation", "theorem": "Gen/Solve.v / Gen/CheckCall.v (translators harness/translate/solve.py, checkcall.py)", "detail": broken_translation}, no_failing_input=True)
    if proof is not None and not proof.ok and not found:
        rep.violation({"kind": "broken-obligation", "theorem": "; ".join(proof.broken), "log": proof.log[-1500:]}, no_failing_input=True)

    samples = []
    for key in list(impl)[:4]:
        sig, call, r, enc, case_in = impl[key]
        samples.append({"def": case_in["def"][:200], "call": case_in["source"], "codes": r["codes"], "inferred": str(r["inferred"])})
    hist["notes"] = [str(x) for x in harness_notes]
    rep.coverage.update(
        evaluations=hist["calls"],
        distinct_nontrivial=len(seen),
        rule="a case = (signature, call); distinct by (flavor, type-variable declarations, parameters, return, call); every case is compared model vs implementation; "
        "the CPython membership oracle judges the cases whose arguments are all literals and that bind under inspect.signature(...).bind (literal_calls_that_bind); every accepted concrete call is executed",
        samples=samples,
        traces_validated_against_impl=len(terms) - len(corr),
        input_distribution=hist,
        correspondence_mismatches=len(corr),
        oracle_failures=len(oracle_fail),
        exhaustive=False,
    )
    rep.assumptions = [
        "acc_laws on the atom fragment (proved); membership table computed by CPython isinstance + int->float promotion",
        "generated function bodies return a parameter annotated with the first type variable or a constant of the declared return type",
        "a structured argument (list / dict / callback) is only passed for a parameter with the matching structured annotation",
    ]
    return rep.finish(
        proof,
        "coq_makefile + make theories/Properties/C06.vo; coqc theories/Properties/C06.v (Print Assumptions)" + ("; coqchk -o" if tier == "thorough" else ""),
        ["Coq 8.16.1 kernel", "translator harness/translate/solve.py", "atom/object table dumps harness/c15_universe.py, c06_universe.py",
         "CPython (inspect.signature.bind, isinstance, executing the call) as oracle", "correspondence harness/c06.py",
         "the C05 binder model and its theorems (Binder/*.v, Proofs/Binder*.v)"],
    )


def _cleanup_cases(name):
    """lib.coq_eval leaves its case files behind when an evaluation fails; remove this run's."""
    d = lib.COQ / "cases"
    if d.is_dir():
        for f in list(d.glob(f"{name}_{os.getpid()}_*")) + list(d.glob(f".{name}_{os.getpid()}_*")):
            try:
                f.unlink()
            except OSError:
                pass
