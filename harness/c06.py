"""C06 — call checking: arguments against parameter types, result type.

proof   : Properties/C06.v over Call/Model.v (binding of concrete calls + per-parameter acceptance +
          the C15 solver for the signature's type variable), instantiated on the atom fragment whose
          acceptance table is dumped from the implementation and whose runtime membership table is
          computed by CPython (Gen/CallObjs.v)
tie     : correspondence of Call.Model.check_call with the real checker run on generated modules
          (real defs: functions, methods, classmethods, staticmethods, dataclass constructors; literal
          argument tuples): diagnostic codes per call, names of the reported parameters, inferred type
oracle  : CPython: inspect.signature(...).bind for the binding, isinstance for membership of every
          argument in the declared type, and really executing the call for the result
"""
from __future__ import annotations

import ast
import contextlib
import inspect
import io
import json
import random
import textwrap
from pathlib import Path

import c06_universe as u6
import c15_universe as uni
import lib
from translate import solve as tr_solve

PROP = "C06"
CORPUS = Path(__file__).resolve().parent / "corpus" / "C06.json"
KINDS = {"pk": "PosOrKw", "ko": "KwOnly", "vp": "VarPos", "vk": "VarKw"}
FLAVORS = ["function", "function", "function", "method", "classmethod", "staticmethod", "dataclass"]
A = uni.ATOM_NAMES.index


def gen_files():
    return {"Solve.v": tr_solve.translate(str(lib.REPO)), "SolveAtoms.v": uni.gen_atoms_v(), "CallObjs.v": u6.gen_objs_v()}


# ---------------------------------------------------------------------------
# generator

TYPE_POOL = [(A("int"),), (A("str"),), (A("float"),), (A("bool"),), (A("object"),), (A("clsA"),), (A("clsB"),), (A("clsC"),),
             (A("int"), A("str")), (A("litNone"), A("int")), (A("lit1"),), (A("lita"), A("lit1")), (A("litTrue"),),
             (A("clsA"), A("litNone")), (A("str"), A("clsC")), "any", (A("list_int"),)]
OBJ = u6.OBJ_NAMES.index


def objs_for(rng, ann, decl):
    """an argument object, usually (75%) a member of the annotation"""
    n = len(u6.OBJ_NAMES)
    if rng.random() < 0.75:
        if ann == "T":
            d = u6.DECLS[decl][1]
            sv = "any" if d[0] == "unbounded" else (d[1] if d[0] == "bounded" else tuple(x[0] for x in d[1]))
        else:
            sv = ann if ann is not None else "any"
        good = [i for i in range(n) if u6.member_sval(u6.obj_value(i), sv)]
        if good:
            return rng.choice(good)
    return rng.randrange(n)


def gen_sig(rng, idx):
    flavor = rng.choice(FLAVORS)
    tv = rng.choice(["T0", "T0", "TB", "TA", "TC", "TD"])
    generic = flavor != "dataclass" and rng.random() < 0.45
    params = []
    npk = rng.choice([1, 1, 2, 2, 3])
    seen_default = False
    n_t = 0

    def ann(allow_t=True):
        nonlocal n_t
        if generic and allow_t and rng.random() < 0.6:
            n_t += 1
            return "T"
        t = rng.choice(TYPE_POOL)
        return t if t == "any" else list(t)

    for i in range(npk):
        a = ann(allow_t=not seen_default)
        d = None
        if a != "T" and (seen_default or rng.random() < 0.25):
            seen_default = True
            d = rng.randrange(len(u6.OBJ_NAMES)) if rng.random() < 0.3 else objs_for(rng, tuple(a) if a != "any" else "any", tv)
        params.append({"name": f"p{i}", "kind": "pk", "default": d, "ann": a})
    if flavor != "dataclass":
        if rng.random() < 0.3:
            params.append({"name": "va", "kind": "vp", "default": None, "ann": ann(allow_t=False)})  # *args: T is outside the model
        for i in range(rng.choice([0, 0, 1, 2]) if (params[-1]["kind"] == "vp" or rng.random() < 0.4) else 0):
            a = ann()
            d = None
            if a != "T" and rng.random() < 0.4:
                d = objs_for(rng, tuple(a) if a != "any" else "any", tv)
            params.append({"name": f"k{i}", "kind": "ko", "default": d, "ann": a})
        if rng.random() < 0.25:
            params.append({"name": "vk", "kind": "vk", "default": None, "ann": ann(allow_t=False)})
    if flavor == "dataclass":
        ret = None
    elif generic and any(p["ann"] == "T" and p["kind"] in ("pk", "ko") for p in params) and rng.random() < 0.8:
        ret = "T"  # the body returns that parameter
    else:
        # a return type with a known member object, so that the body can return it
        ret = list(rng.choice([t for t in TYPE_POOL if t != "any" and t != (A("list_int"),)]))
    if generic and n_t == 0 and ret != "T":
        generic = False
    return {"id": idx, "flavor": flavor, "tv": tv, "params": params, "ret": ret}


def gen_call(rng, sig):
    ps = sig["params"]
    pks = [p for p in ps if p["kind"] == "pk"]
    pos, kw = [], []
    r = rng.random()
    n_pos = len(pks) if r < 0.55 else rng.randrange(0, len(pks) + 1)
    has_vp = any(p["kind"] == "vp" for p in ps)
    for p in pks[:n_pos]:
        pos.append(objs_for(rng, _a(p), sig["tv"]))
    if has_vp and n_pos == len(pks):
        vp = next(p for p in ps if p["kind"] == "vp")
        for _ in range(rng.choice([0, 1, 2, 3])):
            pos.append(objs_for(rng, _a(vp), sig["tv"]))
    elif rng.random() < 0.06:
        pos.append(rng.randrange(len(u6.OBJ_NAMES)))  # too many positionals
    for p in pks[n_pos:] + [p for p in ps if p["kind"] == "ko"]:
        if p["default"] is None or rng.random() < 0.5:
            if rng.random() < 0.93:
                kw.append([p["name"], objs_for(rng, _a(p), sig["tv"])])
    if rng.random() < 0.05 and pks[:n_pos]:
        kw.append([pks[0]["name"], rng.randrange(len(u6.OBJ_NAMES))])  # multiple values
    vk = next((p for p in ps if p["kind"] == "vk"), None)
    if vk is not None:
        for j in range(rng.choice([0, 1, 2])):
            kw.append([f"x{j}", objs_for(rng, _a(vk), sig["tv"])])
    elif rng.random() < 0.05:
        kw.append(["zz", 0])  # unexpected keyword
    rng.shuffle(kw)
    return {"pos": pos, "kw": kw}


def _a(p):
    a = p["ann"]
    return a if a in ("T", "any", None) else tuple(a)


# ---------------------------------------------------------------------------
# rendering as Python source


def return_expr(sig):
    ret = sig["ret"]
    if ret == "T":
        return next(p["name"] for p in sig["params"] if p["ann"] == "T" and p["kind"] in ("pk", "ko"))
    sv = tuple(ret)
    for i, n in enumerate(u6.OBJ_NAMES):
        if u6.member_sval(u6.obj_value(i), sv):
            return u6.OBJ_SRC[n]
    raise AssertionError(ret)


def render_sig(sig):
    i = sig["id"]
    tvn = u6.DECLS[sig["tv"]][0]
    parts = []
    star_done = False
    for p in sig["params"]:
        a = u6.annot_src(_a(p), tvn)
        s = p["name"] + (f": {a}" if a is not None else "")
        if p["kind"] == "vp":
            s = "*" + s
            star_done = True
        elif p["kind"] == "vk":
            s = "**" + s
        elif p["kind"] == "ko" and not star_done:
            parts.append("*")
            star_done = True
        if p["default"] is not None:
            s += " = " + u6.OBJ_SRC[u6.OBJ_NAMES[p["default"]]]
        parts.append(s)
    fl = sig["flavor"]
    if fl == "dataclass":
        body = "\n".join(
            f"    {p['name']}: {u6.annot_src(_a(p), tvn)}" + (f" = {u6.OBJ_SRC[u6.OBJ_NAMES[p['default']]]}" if p["default"] is not None else "")
            for p in sig["params"]
        )
        return f"@dataclass\nclass D{i}:\n{body}\n", f"D{i}"
    ra = u6.annot_src("T" if sig["ret"] == "T" else tuple(sig["ret"]), tvn)
    rexpr = return_expr(sig)
    if fl == "function":
        return f"def f{i}({', '.join(parts)}) -> {ra}:\n    return {rexpr}\n", f"f{i}"
    first = {"method": ["self"], "classmethod": ["cls"], "staticmethod": []}[fl]
    deco = {"method": "", "classmethod": "    @classmethod\n", "staticmethod": "    @staticmethod\n"}[fl]
    src = f"class K{i}:\n{deco}    def m({', '.join(first + parts)}) -> {ra}:\n        return {rexpr}\n"
    return src, (f"K{i}().m" if fl == "method" else f"K{i}.m")


def render_call(callee, call):
    args = [u6.OBJ_SRC[u6.OBJ_NAMES[o]] for o in call["pos"]] + [f"{n}={u6.OBJ_SRC[u6.OBJ_NAMES[o]]}" for n, o in call["kw"]]
    return f"{callee}({', '.join(args)})"


def render_module(group):
    """group: list of (sig, [calls]).  Returns (source, {case function name: (sig, call)})."""
    out = [u6.PRELUDE]
    cases = {}
    for sig, calls in group:
        src, callee = render_sig(sig)
        out.append(src)
        for j, c in enumerate(calls):
            name = f"case_{sig['id']}_{j}"
            out.append(f"def {name}():\n    return {render_call(callee, c)}\n")
            cases[name] = (sig, c, callee)
    return "\n".join(out), cases


# ---------------------------------------------------------------------------
# implementation: the real checker on the module + CPython


def run_module(src):
    """-> {case name: {"codes": [...], "names": [...], "inferred": Value, "line": int}}, module"""
    from pyanalyze.analysis_lib import make_module
    from pyanalyze.name_check_visitor import ClassAttributeChecker, NameCheckVisitor

    tree = ast.parse(src)
    mod = make_module(src)
    kwargs = NameCheckVisitor.prepare_constructor_kwargs({})
    options = kwargs["checker"].options
    sink = io.StringIO()
    with contextlib.redirect_stdout(sink), contextlib.redirect_stderr(sink):
        with ClassAttributeChecker(enabled=True, options=options) as ac:
            v = NameCheckVisitor("", src, tree, module=mod, settings=None, attribute_checker=ac, annotate=True, **kwargs)
            v.check(ignore_missing_module=True)
    by_line = {}
    for f in v.all_failures:
        by_line.setdefault(f.get("lineno"), []).append(f)
    out = {}
    other = []
    case_lines = set()
    for n in tree.body:
        if isinstance(n, ast.FunctionDef) and n.name.startswith("case_"):
            callnode = n.body[0].value
            fs = by_line.get(callnode.lineno, [])
            case_lines.add(callnode.lineno)
            codes, names = [], []
            for f in fs:
                code = f["code"].name if hasattr(f.get("code"), "name") else str(f.get("code"))
                codes.append(code)
                d = f.get("description", "")
                if code == "incompatible_argument" and d.startswith("Incompatible argument type for "):
                    names.append(d[len("Incompatible argument type for "):].split(":")[0])
            out[n.name] = {"codes": codes, "names": names, "inferred": getattr(callnode, "inferred_value", None), "line": callnode.lineno,
                           "descr": [f.get("description", "")[:160] for f in fs]}
    for ln, fs in by_line.items():
        if ln not in case_lines:
            other += [(ln, f["code"].name if hasattr(f.get("code"), "name") else str(f.get("code")), f.get("description", "")[:120]) for f in fs]
    return out, mod, other


def runtime_callable(mod, sig):
    i = sig["id"]
    fl = sig["flavor"]
    if fl == "function":
        return getattr(mod, f"f{i}")
    if fl == "dataclass":
        return getattr(mod, f"D{i}")
    k = getattr(mod, f"K{i}")
    return k().m if fl == "method" else k.m


def oracle_case(mod, sig, call):
    """CPython as the oracle: does the call bind; which arguments are outside the declared type of
    the parameter they bind to; for the type variable, is there a declared choice that fits all."""
    fn = runtime_callable(mod, sig)
    pos = [u6.obj_value(o) for o in call["pos"]]
    kw = {n: u6.obj_value(o) for n, o in call["kw"]}
    try:
        ba = inspect.signature(fn).bind(*pos, **kw)
    except TypeError as ex:
        return {"binds": False, "why": str(ex)[:80]}
    bad, t_objs = [], []
    by_name = {p["name"]: p for p in sig["params"]}
    for name, v in ba.arguments.items():
        p = by_name[name]
        vals = list(v) if p["kind"] == "vp" else list(v.values()) if p["kind"] == "vk" else [v]
        a = _a(p)
        if a is None:
            continue
        for x in vals:
            if a == "T":
                t_objs.append(x)
                d = u6.DECLS[sig["tv"]][1]
                decl_sv = "any" if d[0] == "unbounded" else (d[1] if d[0] == "bounded" else tuple(c[0] for c in d[1]))
                if not u6.member_sval(x, decl_sv):
                    bad.append(name)
            elif not u6.member_sval(x, a):
                bad.append(name)
    d = u6.DECLS[sig["tv"]][1]
    solvable = True
    if d[0] == "constrained" and t_objs:
        solvable = any(all(u6.member_sval(x, c) for x in t_objs) for c in d[1])
    return {"binds": True, "bad": sorted(set(bad)), "solvable": solvable, "t_objs": t_objs}


def value_contains(val, r, fallback_counter):
    """member(result object, inferred Value) decided by CPython where the Value is a class / literal /
    union / Any; other Values fall back to pyanalyze's own can_assign (counted)."""
    from pyanalyze.value import AnnotatedValue, AnyValue, KnownValue, MultiValuedValue, TypedValue

    if isinstance(val, AnnotatedValue):
        val = val.value
    if isinstance(val, AnyValue):
        return True
    if isinstance(val, MultiValuedValue):
        return any(value_contains(m, r, fallback_counter) for m in val.vals)
    if type(val) is TypedValue and isinstance(val.typ, type):
        return isinstance(r, val.typ) or (val.typ is float and isinstance(r, int)) or (val.typ is complex and isinstance(r, (int, float)))
    if type(val) is KnownValue:
        return type(r) is type(val.val) and (r is val.val or r == val.val)
    fallback_counter[0] += 1
    return bool(val.is_assignable(KnownValue(r), uni.ctx()))


# ---------------------------------------------------------------------------
# model terms


def coq_ann(a):
    if a is None:
        return "AnnNone"
    if a == "T":
        return "AnnVar"
    return f"(AnnTy {uni.coq_sval('any' if a == 'any' else tuple(a))})"


def name_code(n, sig):
    names = [p["name"] for p in sig["params"]]
    if n in names:
        return names.index(n)
    return 100 + (int(n[1:]) if n[1:].isdigit() else 99)


def coq_sig(sig):
    ps = []
    for p in sig["params"]:
        ps.append(f"mk_param {lib.cn(name_code(p['name'], sig))} {KINDS[p['kind']]} {lib.cbool(p['default'] is not None)} {coq_ann(p['ann'])}")
    d = u6.DECLS[sig["tv"]][1]
    if d[0] == "unbounded":
        dd = "Unbounded"
    elif d[0] == "bounded":
        dd = f"(Bounded {uni.coq_sval(d[1])})"
    else:
        dd = "(Constrained " + lib.clist([uni.coq_sval(c) for c in d[1]]) + ")"
    ret = "AnnNone" if sig["ret"] is None else coq_ann(sig["ret"])
    return f"(mk_sig {lib.clist(ps)} {dd} {ret})"


def coq_call(sig, call):
    pos = lib.clist(["O_" + u6.OBJ_NAMES[o] for o in call["pos"]])
    kw = lib.clist([f"({lib.cn(name_code(n, sig))}, O_{u6.OBJ_NAMES[o]})" for n, o in call["kw"]])
    return f"(mk_call {pos} {kw})"


HEADER = (
    "From Coq Require Import List Bool Arith NArith. Import ListNotations.\n"
    "Require Import PV.TypeVar.Base PV.TypeVar.Model PV.TypeVar.Simple PV.Call.Model PV.Gen.Solve PV.Gen.SolveAtoms PV.Gen.CallObjs."
)


def decode_model(t, sig):
    diags, ret = t
    names = [p["name"] for p in sig["params"]]
    kinds, args = set(), set()
    for d in diags:
        d = getattr(d, "name", d)
        if d == "IncompatibleCall":
            kinds.add("call")
        elif d == "CannotResolve":
            kinds.add("resolve")
        else:
            kinds.add("arg")
            args.add(names[d[1]])
    return {"kinds": kinds, "args": args, "ret": uni.parse_sval(ret)}


# ---------------------------------------------------------------------------


def run(tier: str, replay: str | None = None):
    rep = lib.Report(PROP, tier, "proof")
    rng = random.Random(lib.seed() * 7919 + 6)
    broken_translation = None
    gen = None
    try:
        gen = gen_files()
    except tr_solve.TranslateError as ex:
        broken_translation = str(ex)
    proof = lib.prove(PROP, gen, extra_targets=["theories/Gen/CallObjs.vo", "theories/Call/Model.vo"], thorough=(tier == "thorough")) if gen is not None else None

    groups = []  # list of list of (sig, calls)
    if replay:
        r = json.loads(Path(replay).read_text())
        c = r["input"]
        groups.append([(c["sig"], [c["call"]])])
    else:
        corpus = json.loads(CORPUS.read_text()) if CORPUS.exists() else []
        if corpus:
            groups.append([(c["sig"], [c["call"]]) for c in corpus])
        n_mod = 60 if tier == "quick" else 700
        sid = 1000
        for _ in range(n_mod):
            g = []
            for _ in range(8):
                sid += 1
                s = gen_sig(rng, sid)
                g.append((s, [gen_call(rng, s) for _ in range(7)]))
            groups.append(g)

    terms, meta = [], []
    impl = {}
    oracle_fail, harness_notes = [], []
    hist = {"flavor": {}, "generic": 0, "calls": 0, "binds": 0, "diagnosed": 0, "accepted": 0, "codes": {}, "model_kinds": {},
            "executed": 0, "result_checked": 0, "result_fallback_can_assign": 0, "inferred_out_of_fragment": 0, "stray_errors": 0}
    fallback = [0]
    seen = set()
    for gi, g in enumerate(groups):
        # corpus signatures may repeat an id: renumber inside the module
        for k, (s, _) in enumerate(g):
            s["id"] = gi * 100 + k
        src, cases = render_module(g)
        try:
            res, mod, other = run_module(src)
        except Exception as ex:  # generated module does not import: harness problem, not a finding
            rep.harness_error(f"module {gi} failed: {ex!r}")
            continue
        hist["stray_errors"] += len(other)
        if other and len(harness_notes) < 5:
            harness_notes.append(other[0])
        for name, (sig, call, callee) in cases.items():
            key = json.dumps([sig["flavor"], sig["tv"], sig["params"], sig["ret"], call], sort_keys=True)
            r = res[name]
            hist["calls"] += 1
            hist["flavor"][sig["flavor"]] = hist["flavor"].get(sig["flavor"], 0) + 1
            generic = any(p["ann"] == "T" for p in sig["params"])
            hist["generic"] += int(generic)
            for c in set(r["codes"]):
                hist["codes"][c] = hist["codes"].get(c, 0) + 1
            diagnosed = bool(r["codes"])
            hist["diagnosed" if diagnosed else "accepted"] += 1
            o = oracle_case(mod, sig, call)
            case_in = {"sig": sig, "call": call, "source": render_call(callee, call)}
            if o["binds"]:
                hist["binds"] += 1
                seen.add(key)
                has_arg_err = "incompatible_argument" in r["codes"]
                if not generic:
                    if has_arg_err != bool(o["bad"]) or (diagnosed and not o["bad"]):
                        oracle_fail.append((case_in, {"what": "diagnosed(call) <=> exists arg: not member(arg, declared(param)) fails",
                                                      "impl_codes": r["codes"], "impl_descr": r["descr"], "cpython_nonmembers": o["bad"]}))
                else:
                    must = bool(o["bad"]) or not o["solvable"]
                    if diagnosed != must:
                        oracle_fail.append((case_in, {"what": "generic call: diagnosed <=> some argument outside its declared type or no declared choice of T fits all arguments, fails",
                                                      "impl_codes": r["codes"], "impl_descr": r["descr"], "cpython_nonmembers": o["bad"], "solvable": o["solvable"]}))
                if not diagnosed:
                    # execute the call; the inferred type must contain the result
                    try:
                        result = getattr(mod, name)()
                        hist["executed"] += 1
                        inf = r["inferred"]
                        if inf is not None:
                            hist["result_checked"] += 1
                            if not value_contains(inf, result, fallback):
                                oracle_fail.append((case_in, {"what": "runtime result not in the inferred type", "result": repr(result), "inferred": str(inf)}))
                            if generic and sig["ret"] == "T":
                                for x in o["t_objs"]:
                                    if not value_contains(inf, x, fallback):
                                        oracle_fail.append((case_in, {"what": "accepted generic call: an argument is not in the inferred solution", "argument": repr(x), "solution": str(inf)}))
                    except Exception as ex:
                        oracle_fail.append((case_in, {"what": "accepted call raises when executed", "exception": repr(ex)[:200]}))
            enc = None
            if r["inferred"] is not None and sig["flavor"] != "dataclass":
                enc = uni.from_value(r["inferred"])
                if enc is None:
                    hist["inferred_out_of_fragment"] += 1
            impl[(gi, name)] = (sig, call, r, enc, o, case_in)
            terms.append(f"check_call atom_ops rrs_limit obj_val {coq_sig(sig)} {coq_call(sig, call)}")
            meta.append((gi, name))
    hist["result_fallback_can_assign"] = fallback[0]

    model_ok = proof is not None and not any("build failed" in b for b in proof.broken)
    if not model_ok and gen is not None:
        model_ok, _ = lib.coq_make(["theories/Call/Model.vo", "theories/Gen/CallObjs.vo", "theories/Gen/Solve.vo"], timeout=600)
    corr = []
    if model_ok and terms:
        try:
            results = lib.coq_eval(HEADER, terms, name="c06", shard=200)
            for key, t in zip(meta, results):
                sig, call, r, enc, o, case_in = impl[key]
                m = decode_model(t, sig)
                for k in m["kinds"]:
                    hist["model_kinds"][k] = hist["model_kinds"].get(k, 0) + 1
                i_arg = "incompatible_argument" in r["codes"]
                i_call = any(c != "incompatible_argument" for c in r["codes"])
                m_arg = "arg" in m["kinds"]
                m_call = bool(m["kinds"] & {"call", "resolve"})
                why = None
                if (i_arg, i_call) != (m_arg, m_call):
                    why = "diagnostic kinds differ"
                elif not set(r["names"]) <= m["args"] or (m["args"] and not r["names"]):
                    why = "reported parameters differ"
                elif not r["codes"] and sig["flavor"] != "dataclass" and enc != m["ret"]:
                    # the model's inferred type is always inside the fragment; an implementation value
                    # outside it (enc is None) is a difference too
                    why = "inferred type differs"
                if why:
                    corr.append((case_in, {"why": why, "impl": {"codes": r["codes"], "names": r["names"], "inferred": str(r["inferred"])},
                                           "model": {"kinds": sorted(m["kinds"]), "args": sorted(m["args"]), "ret": uni.show(m["ret"])}}))
        except RuntimeError as ex:
            _cleanup_cases("c06")
            rep.violation({"kind": "broken-correspondence", "correspondence": "Call.Model.check_call vs NameCheckVisitor on generated modules", "detail": str(ex)[-1500:]}, no_failing_input=True)

    import os
    if os.environ.get("C06_DEBUG"):
        for case_in, obs in corr[:40]:
            print("MISMATCH", case_in["source"], "|", render_sig(case_in["sig"])[0].splitlines()[-2].strip(), "|", obs["why"], obs["impl"], obs["model"])
    found = False
    for case_in, obs in oracle_fail[:10]:
        found = True
        rep.violation({"kind": "failing-input", "input": case_in, "observed": obs,
                       "expected": "diagnosed <=> some literal argument is not a member of its parameter's declared type (CPython isinstance); runtime result in the inferred type",
                       "how_to_run": "./check C06 --replay <this file>"})
    if corr and not found:
        case_in, obs = corr[0]
        rep.violation({"kind": "broken-correspondence", "correspondence": "Call.Model.check_call vs NameCheckVisitor on generated modules",
                       "input": case_in, "observed": obs["impl"], "model": obs["model"], "why": obs["why"], "n_mismatches": len(corr)}, no_failing_input=True)
    if broken_translation and not found:
        rep.violation({"kind": "broken-obligation", "theorem": "Gen/Solve.v (translator harness/translate/solve.py)", "detail": broken_translation}, no_failing_input=True)
    if proof is not None and not proof.ok and not found:
        rep.violation({"kind": "broken-obligation", "theorem": "; ".join(proof.broken), "log": proof.log[-1500:]}, no_failing_input=True)

    samples = []
    for key in list(impl)[:3]:
        sig, call, r, enc, o, case_in = impl[key]
        samples.append({"def": render_sig(sig)[0].strip()[:200], "call": case_in["source"], "codes": r["codes"], "inferred": str(r["inferred"])})
    hist["notes"] = [str(x) for x in harness_notes]
    rep.coverage.update(
        evaluations=hist["calls"],
        distinct_nontrivial=len(seen),
        rule="a case = (signature, literal call); non-trivial = the call binds under CPython (inspect.signature(...).bind) — only those are judged by the property; distinct by (flavor, declaration, parameters, return, call)",
        samples=samples,
        traces_validated_against_impl=len(terms) - len(corr),
        input_distribution=hist,
        correspondence_mismatches=len(corr),
        oracle_failures=len(oracle_fail),
        exhaustive=False,
    )
    rep.assumptions = [
        "acc_laws on the atom fragment (proved); membership table computed by CPython isinstance + int->float promotion",
        "generated function bodies return a parameter annotated T or a constant of the declared return type",
    ]
    return rep.finish(
        proof,
        "coq_makefile + make theories/Properties/C06.vo; coqc theories/Properties/C06.v (Print Assumptions)" + ("; coqchk -o" if tier == "thorough" else ""),
        ["Coq 8.16.1 kernel", "translator harness/translate/solve.py", "atom/object table dumps harness/c15_universe.py, c06_universe.py",
         "CPython (inspect.signature.bind, isinstance, executing the call) as oracle", "correspondence harness/c06.py"],
    )


def _cleanup_cases(name):
    """lib.coq_eval leaves its case files behind when an evaluation fails; remove this run's."""
    import os

    d = lib.COQ / "cases"
    if d.is_dir():
        for f in list(d.glob(f"{name}_{os.getpid()}_*")) + list(d.glob(f".{name}_{os.getpid()}_*")):
            try:
                f.unlink()
            except OSError:
                pass
