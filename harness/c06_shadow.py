"""C06 stream 3: functions whose annotations are STRINGS (postponed by `from __future__ import annotations`
or explicitly quoted) and name module-level classes / aliases — including names that shadow builtins
(`class Warning`, `float = int`), nested classes (`Outer.Inner`) and forward references (the class is
defined after the function).

The declared type the oracle uses comes from `typing.get_type_hints` on the RUNTIME function (Python's
own name lookup: the function's module globals, then builtins), never from pyanalyze:

    diagnosed(call)  <=>  some argument is not an instance of the declared type of its parameter
    executing the call returns a member of the type inferred for it
"""
from __future__ import annotations

import builtins
import inspect
import typing

# module-level definitions the generated module may contain: name -> source of the definition
SHADOW_CLASSES = ["Warning", "UserWarning", "Exception", "LookupError"]       # class X: ... shadowing a builtin class
SHADOW_ALIASES = {"float": "int", "complex": "str", "bytes": "Own", "frozenset": "float_"}  # X = <other type>
PLAIN_CLASSES = ["Own", "Late"]            # Late is defined AFTER the functions (forward reference)
PLAIN_ALIASES = {"Num": "int", "Txt": "str"}

# argument expressions and the names they need at module level
ARGS = [
    "1", "1.5", '"a"', "True", "None", 'b"x"',
    "Own()", "Late()", "Outer.Inner()", "Sub()",
    "Warning()", "UserWarning()", "Exception()", "LookupError()",          # the module's classes when shadowed
    'RuntimeWarning("w")', 'KeyError("k")', 'DeprecationWarning("d")',     # instances of BUILTIN Warning / LookupError subclasses
]


FRIENDLY = {
    "int": ["1", "True"], "str": ['"a"'], "float": ["1.5", "1"], "complex": ["1.5", '"a"'], "bytes": ['b"x"', "Own()"], "object": ["1", "Own()"],
    "Own": ["Own()", "Sub()"], "Sub": ["Sub()"], "Late": ["Late()"], "Outer.Inner": ["Outer.Inner()"], "Num": ["1"], "Txt": ['"a"'],
    "Warning": ["Warning()", 'RuntimeWarning("w")'], "UserWarning": ["UserWarning()"], "Exception": ["Exception()", 'KeyError("k")'],
    "LookupError": ["LookupError()", 'KeyError("k")'], "frozenset": ["1.5", "1"],
}


def gen_module(rng, idx):
    """-> dict describing one module"""
    style = rng.choice(["future", "quoted", "future", "quoted", "mixed"])
    shadow_cls = [c for c in SHADOW_CLASSES if rng.random() < 0.6]
    shadow_al = {k: v for k, v in SHADOW_ALIASES.items() if rng.random() < 0.5}
    names = (["Own", "Late", "Outer.Inner", "Sub", "Num", "Txt", "int", "str", "float", "complex", "bytes", "object", "Warning", "UserWarning",
              "Exception", "LookupError", "frozenset"])
    funcs = []
    for j in range(rng.choice([5, 6, 7])):
        flavor = rng.choice(["function", "function", "method", "classmethod", "staticmethod", "init"])
        n = rng.choice([1, 1, 2])
        params = []
        for i in range(n):
            t = rng.choice(names)
            d = None
            params.append({"name": f"p{i}", "type": t})
        ret = params[0]["type"] if rng.random() < 0.7 else None
        funcs.append({"id": j, "flavor": flavor, "params": params, "ret": ret})
    calls = []
    for f in funcs:
        for _ in range(4):
            calls.append({"f": f["id"], "args": [rng.choice(FRIENDLY[p["type"]]) if rng.random() < 0.7 else rng.choice(ARGS) for p in f["params"]]})
    return {"id": idx, "style": style, "shadow_classes": shadow_cls, "shadow_aliases": shadow_al, "funcs": funcs, "calls": calls}


def _ann(t, m, quoted):
    return f'"{t}"' if quoted else t


def render(m):
    style = m["style"]
    out = []
    if style in ("future", "mixed"):
        out.append("from __future__ import annotations")
    out.append("class Own:\n    pass\nclass Sub(Own):\n    pass\nclass Outer:\n    class Inner:\n        pass\nfloat_ = float\nNum = int\nTxt = str\n")
    for c in m["shadow_classes"]:
        out.append(f"class {c}:\n    def __init__(self, *a):\n        self.a = a\n")
    for k, v in m["shadow_aliases"].items():
        out.append(f"{k} = {v}")
    quoted = style in ("quoted", "mixed")
    callee = {}
    for f in m["funcs"]:
        ps = ", ".join(f"{p['name']}: {_ann(p['type'], m, quoted)}" for p in f["params"])
        ra = f" -> {_ann(f['ret'], m, quoted)}" if f["ret"] else ""
        body = "return p0" if f["ret"] else "return None"
        j = f["id"]
        if f["flavor"] == "function":
            out.append(f"def f{j}({ps}){ra}:\n    {body}\n")
            callee[j] = f"f{j}"
        elif f["flavor"] == "init":
            out.append(f"class K{j}:\n    def __init__(self, {ps}) -> None:\n        self.v = p0\n")
            callee[j] = f"K{j}"
        else:
            first = {"method": "self, ", "classmethod": "cls, ", "staticmethod": ""}[f["flavor"]]
            deco = {"method": "", "classmethod": "    @classmethod\n", "staticmethod": "    @staticmethod\n"}[f["flavor"]]
            out.append(f"class K{j}:\n{deco}    def m({first}{ps}){ra}:\n        {body}\n")
            callee[j] = f"K{j}().m" if f["flavor"] == "method" else f"K{j}.m"
    out.append("class Late:\n    pass\n")   # forward reference target
    cases = {}
    for ci, c in enumerate(m["calls"]):
        name = f"case_h{m['id']}_{ci}"
        text = f"{callee[c['f']]}({', '.join(c['args'])})"
        out.append(f"def {name}():\n    return {text}\n")
        cases[name] = (c, text)
    return "\n".join(out), cases, callee


def runtime_function(mod, f):
    j = f["id"]
    if f["flavor"] == "function":
        return getattr(mod, f"f{j}"), False
    k = getattr(mod, f"K{j}")
    if f["flavor"] == "init":
        return k.__init__, True
    fn = inspect.getattr_static(k, "m")
    fn = getattr(fn, "__func__", fn)
    return fn, f["flavor"] in ("method", "classmethod")


def is_member(x, hint):
    if hint is typing.Any or hint is object:
        return True
    if hint is None or hint is type(None):
        return x is None
    if hint is builtins.float:
        return isinstance(x, (int, float)) and not isinstance(x, bool) or isinstance(x, bool)
    if hint is builtins.complex:
        return isinstance(x, (int, float, complex))
    return isinstance(x, hint)


def oracle(mod, f, call):
    """-> (must_diagnose, detail) from typing.get_type_hints on the runtime function"""
    fn, skip = runtime_function(mod, f)
    hints = typing.get_type_hints(fn)
    ns = vars(mod)
    vals = [eval(a, ns) for a in call["args"]]
    bad = []
    for p, x in zip(f["params"], vals):
        h = hints.get(p["name"])
        if h is not None and not is_member(x, h):
            bad.append((p["name"], repr(x)[:40], getattr(h, "__qualname__", str(h)) + " from " + getattr(h, "__module__", "?")))
    return bool(bad), bad
