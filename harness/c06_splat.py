"""C06 stream: `*` / `**` arguments that are statically a UNION of tuple literals / dict literals /
TypedDicts (if/else-merged), as preprocess_args merges them key by key / position by position.

A case = a flat signature (closed parameter types) + positional literals + one splat whose
alternatives are concrete.  Oracle (CPython): every alternative is expanded into a concrete call
(NotRequired TypedDict keys: with and without), bound with inspect.signature(...).bind and every bound
object is tested for membership (isinstance) in the declared type; a diagnostic is required iff some
alternative fails to bind or passes a non-member.  Model: the merged call as Call/Model.v sees it —
same-key values united (keyword with a union value), equal-length tuples united position by position,
tuples of different lengths merged into one star argument of unknown length whose element type is
the union of all elements.
"""
from __future__ import annotations

import inspect
import itertools

import c06_universe as u6
import c15_universe as uni

A = uni.ATOM_NAMES.index
TYPES = [(A("int"),), (A("str"),), (A("float"),), (A("bool"),), (A("clsA"),), (A("int"), A("str")), (A("object"),)]
TD_TYPES = {(A("int"),): "int", (A("str"),): "str", (A("float"),): "float", (A("bool"),): "bool", (A("clsA"),): "A"}
LITS = [i for i, n in enumerate(u6.OBJ_NAMES) if n not in ("instC",)]

F_DIFFLEN = "C06-star-union-different-lengths"
F_EQLIT = "C06-equal-literal-alternatives-collapse"
FINDING_TEXT = {
    F_EQLIT: "two alternatives of a splat argument that compare equal as Python objects although their elements have different types "
             "(`(True,)` and `(1,)`, `(1,)` and `(1.0,)`) are one KnownValue for unite_values (KnownValue equality is `==` on the whole tuple; dict displays are not affected), "
             "so the later alternative disappears from the union: `xs = (True,) if c else (1,)`; `f(*xs)` for `def f(p0: bool)` is accepted although the second alternative passes an int",
    F_DIFFLEN: "a `*args` argument that is a union of tuples of DIFFERENT lengths is merged into one sequence of unknown length whose element type is the union of all elements "
               "(concrete_values_from_iterable), so `xs = (1, \"a\") if c else (2,)`; `f(*xs)` for `def f(a: int, b: str = \"\")` is diagnosed although every alternative binds and passes members only, "
               "and `xs = (1, 2, 3) if c else ()`; `g(*xs)` for `def g(a: object)` is accepted although no alternative binds",
}


def gen_sig(rng, idx):
    params = []
    n = rng.choice([1, 2, 2, 3])
    seen_default = False
    for i in range(n):
        t = list(rng.choice(TYPES))
        d = None
        if seen_default or rng.random() < 0.3:
            seen_default = True
            good = [o for o in LITS if u6.member_sval(u6.obj_value(o), tuple(t))]
            d = rng.choice(good) if good else None
            if d is None:
                seen_default = False
        params.append({"name": f"p{i}", "kind": "pk", "default": d, "ann": t})
    r = rng.random()
    if r < 0.2:
        params.append({"name": "va", "kind": "vp", "default": None, "ann": list(rng.choice(TYPES))})
    for i in range(rng.choice([0, 0, 1])):
        t = list(rng.choice(TYPES))
        good = [o for o in LITS if u6.member_sval(u6.obj_value(o), tuple(t))]
        params.append({"name": f"k{i}", "kind": "ko", "default": rng.choice(good) if good and rng.random() < 0.5 else None, "ann": t})
    if rng.random() < 0.15:
        params.append({"name": "vk", "kind": "vk", "default": None, "ann": list(rng.choice(TYPES))})
    return {"id": idx, "params": params}


def lit_for(rng, t):
    if rng.random() < 0.72:
        good = [o for o in LITS if u6.member_sval(u6.obj_value(o), tuple(t))]
        if good:
            return rng.choice(good)
    return rng.choice(LITS)


def gen_case(rng, sig):
    ps = sig["params"]
    named = [p for p in ps if p["kind"] in ("pk", "ko")]
    posl = [p for p in ps if p["kind"] == "pk"]
    kind = rng.choice(["kwlit", "kwlit", "kwtd", "starlit", "starlit"])
    nalt = rng.choice([2, 2, 3])
    if kind == "starlit":
        base = rng.randrange(0, len(posl) + 1)
        alts = []
        for _ in range(nalt):
            ln = base if rng.random() < 0.6 else max(0, base + rng.choice([-1, 1, 2]))
            alts.append([lit_for(rng, posl[j]["ann"] if j < len(posl) else (ps[len(posl)]["ann"] if len(ps) > len(posl) and ps[len(posl)]["kind"] == "vp" else [A("int")])) for j in range(ln)])
        kw = []
        for p in named[min(base, len(posl)):] if rng.random() < 0.7 else []:
            if p["default"] is None or rng.random() < 0.4:
                kw.append([p["name"], lit_for(rng, p["ann"])])
        return {"kind": kind, "pos": [], "alts": alts, "kw": kw}
    npos = rng.randrange(0, len(posl) + 1) if rng.random() < 0.5 else 0
    pos = [lit_for(rng, p["ann"]) for p in posl[:npos]]
    rest = [p for p in named if p not in posl[:npos]]
    keys = [p for p in rest if p["default"] is None or rng.random() < 0.6]
    alts = []
    for _ in range(nalt):
        d = []
        for p in keys:
            if rng.random() < 0.88:
                if kind == "kwlit":
                    d.append([p["name"], lit_for(rng, p["ann"])])
                else:
                    good = [t for t in TD_TYPES if u6.member_sval(uni_rep(t), tuple(p["ann"]))]
                    t = rng.choice(good) if good and rng.random() < 0.72 else rng.choice(list(TD_TYPES))
                    d.append([p["name"], list(t), rng.random() < 0.85])  # key, type, required
        if rng.random() < 0.05:
            d.append(["zz", lit_for(rng, [A("int")])] if kind == "kwlit" else ["zz", [A("int")], True])
        alts.append(d)
    return {"kind": kind, "pos": pos, "alts": alts, "kw": []}


def uni_rep(t):
    import c06

    return c06.reps_sval(list(t))[0]


def src_obj(o):
    return u6.OBJ_SRC[u6.OBJ_NAMES[o]]


def render_sig(sig):
    parts, star_done = [], False
    for p in sig["params"]:
        a = " | ".join(u6.ATOM_SRC[uni.ATOM_NAMES[i]] for i in p["ann"])
        s = f"{p['name']}: {a}"
        if p["kind"] == "vp":
            s, star_done = "*" + s, True
        elif p["kind"] == "vk":
            s = "**" + s
        elif p["kind"] == "ko" and not star_done:
            parts.append("*")
            star_done = True
        if p["default"] is not None:
            s += " = " + src_obj(p["default"])
        parts.append(s)
    return f"def s{sig['id']}({', '.join(parts)}) -> int:\n    return 1\n", f"s{sig['id']}"


def cond_expr(items):
    """x1 if c0 else (x2 if c1 else x3)"""
    e = items[-1]
    for i in range(len(items) - 2, -1, -1):
        e = f"{items[i]} if c{i} else ({e})"
    return e


def render_case(name, callee, case):
    k = case["kind"]
    n = len(case["alts"])
    conds = [f"c{i}: bool" for i in range(n - 1)]
    pos = [src_obj(o) for o in case["pos"]]
    pre = ""
    if k == "kwlit":
        items = ["{" + ", ".join(f'"{key}": {src_obj(o)}' for key, o in alt) + "}" for alt in case["alts"]]
        body = f"    kw = {cond_expr(items)}\n    return {callee}({', '.join(pos + ['**kw'])})\n"
        return pre, f"def {name}({', '.join(conds)}):\n{body}"
    if k == "kwtd":
        formals = list(conds)
        names = []
        for j, alt in enumerate(case["alts"]):
            cls = f"TD_{name}_{j}"
            fields = "\n".join(f"    {key}: {TD_TYPES[tuple(t)] if req else 'NotRequired[' + TD_TYPES[tuple(t)] + ']'}" for key, t, req in alt) or "    pass"
            pre += f"class {cls}(TypedDict):\n{fields}\n"
            formals.append(f"t{j}: {cls}")
            names.append(f"t{j}")
        return pre, f"def {name}({', '.join(formals)}):\n    return {callee}({', '.join(pos + ['**(' + cond_expr(names) + ')'])})\n"
    items = ["(" + "".join(src_obj(o) + ", " for o in alt) + ")" for alt in case["alts"]]
    kws = [f"{key}={src_obj(o)}" for key, o in case["kw"]]
    return pre, f"def {name}({', '.join(conds)}):\n    xs = {cond_expr(items)}\n    return {callee}({', '.join(['*xs'] + kws)})\n"


def concrete_alternatives(case):
    """[(positional objects, keyword objects)] — every way the call can be executed"""
    import c06

    out = []
    pos = [u6.obj_value(o) for o in case["pos"]]
    if case["kind"] == "starlit":
        for alt in case["alts"]:
            out.append((pos + [u6.obj_value(o) for o in alt], {key: u6.obj_value(o) for key, o in case["kw"]}))
    elif case["kind"] == "kwlit":
        for alt in case["alts"]:
            out.append((pos, {key: u6.obj_value(o) for key, o in alt}))
    else:
        for alt in case["alts"]:
            opt = [key for key, t, req in alt if not req]
            for r in range(len(opt) + 1):
                for absent in itertools.combinations(opt, r):
                    out.append((pos, {key: c06.reps_sval(t)[0] for key, t, req in alt if key not in absent}))
    return out


def oracle(fn, sig, case):
    """-> (must_diagnose, witness)"""
    by_name = {p["name"]: p for p in sig["params"]}
    for pos, kw in concrete_alternatives(case):
        try:
            ba = inspect.signature(fn).bind(*pos, **kw)
        except TypeError as ex:
            return True, {"alternative": [repr(pos), repr(kw)], "why": "does not bind: " + str(ex)[:80]}
        for name, v in ba.arguments.items():
            p = by_name[name]
            vals = list(v) if p["kind"] == "vp" else list(v.values()) if p["kind"] == "vk" else [v]
            for x in vals:
                if not u6.member_sval(x, tuple(p["ann"])):
                    return True, {"alternative": [repr(pos), repr(kw)], "why": f"{x!r} passed for {name} is not a member of its declared type"}
    return False, None


def _atom_of_obj(o):
    return A(u6.OBJ_NAMES[o])


def model_call(sig, case):
    """the merged call as Call/Model.v sees it, or None when it is outside the model (a key missing
    from some alternative / NotRequired: not-definitely-provided keywords are not in the call model)"""
    import c06

    def union(ts):
        out = []
        for t in ts:
            for a in t:
                if a not in out:
                    out.append(a)
        return {"t": out}

    pos = [{"o": o} for o in case["pos"]]
    if case["kind"] == "starlit":
        lens = {len(a) for a in case["alts"]}
        kw = [[key, {"o": o}] for key, o in case["kw"]]
        if len(lens) == 1:
            n = lens.pop()
            return {"pos": pos + [union([[_atom_of_obj(alt[j])] for alt in case["alts"]]) for j in range(n)], "kw": kw, "star": None, "starkw": None}
        elems = [[_atom_of_obj(o)] for alt in case["alts"] for o in alt]
        return {"pos": pos, "kw": kw, "star": union(elems)["t"], "starkw": None}
    keysets = [tuple(x[0] for x in alt) for alt in case["alts"]]
    if len({frozenset(k) for k in keysets}) != 1:
        return None
    if case["kind"] == "kwtd" and any(not req for alt in case["alts"] for _, _, req in alt):
        return None
    keys = []
    for alt in case["alts"]:
        for x in alt:
            if x[0] not in keys:
                keys.append(x[0])
    kw = []
    for key in keys:
        if case["kind"] == "kwlit":
            kw.append([key, union([[_atom_of_obj(o)] for alt in case["alts"] for k2, o in alt if k2 == key])])
        else:
            kw.append([key, union([t for alt in case["alts"] for k2, t, _ in alt if k2 == key])])
    return {"pos": pos, "kw": kw, "star": None, "starkw": None}


_collapses = []


def impl_collapses():
    """does the implementation under test identify literal tuples that are == but differ in the types of
    their members (KnownValue((True,)) == KnownValue((1,)))?  Probed, like the acceptance table, so that
    the model of the merged union follows the implementation (True on the unrepaired code; False once
    repo_fixes/C06-known-value-tuple-equality is applied, which removes the known finding)."""
    if not _collapses:
        from pyanalyze.value import KnownValue

        _collapses.append(KnownValue((True,)) == KnownValue((1,)))
    return _collapses[0]


def collapse_equal(case):
    """the case as pyanalyze sees it after unite_values dropped every literal alternative that is == to an
    earlier one; None when nothing is dropped (TypedDict alternatives are types, not literals)"""
    if case["kind"] != "starlit" or not impl_collapses():
        return None  # dict displays are DictIncompleteValues: their values are compared one by one, with their types
    def py(alt):
        if case["kind"] == "starlit":
            return tuple(u6.obj_value(o) for o in alt)
        return {k: u6.obj_value(o) for k, o in alt}
    kept, vals = [], []
    for alt in case["alts"]:
        v = py(alt)
        if any(type(v) is type(w) and v == w for w in vals):
            continue
        kept.append(alt)
        vals.append(v)
    if len(kept) == len(case["alts"]):
        return None
    return dict(case, alts=kept)
