"""Universe of the C06 check: the literal argument objects (shared with the atoms
of c15_universe: every object's KnownValue is an atom), their runtime
membership table computed by CPython, annotation vocabulary, and rendering of a
model signature / call as real Python source.
"""
from __future__ import annotations

import c15_universe as uni

OBJ_NAMES = [n for n, _ in uni.LITERAL_OBJECTS]  # object i  <->  atom "OBJ_NAMES[i]"
OBJ_SRC = {
    "lit1": "1", "litTrue": "True", "lita": '"a"', "litNone": "None", "lit1_5": "1.5",
    "lit0": "0", "litFalse": "False", "litEmpty": '""', "lit2": "2",
    "instA": "a_inst", "instB": "b_inst", "instC": "c_inst",
}
# source text of the annotation denoting one atom
ATOM_SRC = {
    "int": "int", "bool": "bool", "float": "float", "str": "str", "object": "object",
    "clsA": "A", "clsB": "B", "clsC": "C",
    "lit1": "Literal[1]", "litTrue": "Literal[True]", "lita": 'Literal["a"]', "litNone": "None", "lit1_5": None,
    "list_int": "list[int]", "list_bool": "list[bool]", "list_object": "list[object]", "seq_int": "Sequence[int]",
    "lit0": "Literal[0]", "litFalse": "Literal[False]", "litEmpty": 'Literal[""]', "lit2": "Literal[2]",
    "instA": None, "instB": None, "instC": None,
}
ANNOT_ATOMS = [i for i, n in enumerate(uni.ATOM_NAMES) if ATOM_SRC[n] is not None]

# declarations of the signature's type variable: name -> (source name, model decl)
DECLS = {
    "T0": ("T0", ("unbounded",)),
    "U0": ("U0", ("unbounded",)),
    "W0": ("W0", ("unbounded",)),
    "TB": ("TB", ("bounded", (uni.ATOM_NAMES.index("float"),))),
    "TA": ("TA", ("bounded", (uni.ATOM_NAMES.index("clsA"),))),
    "TC": ("TC", ("constrained", [(uni.ATOM_NAMES.index("int"),), (uni.ATOM_NAMES.index("str"),)])),
    "TD": ("TD", ("constrained", [(uni.ATOM_NAMES.index("float"),), (uni.ATOM_NAMES.index("str"),), (uni.ATOM_NAMES.index("clsA"),)])),
}

PRELUDE = """
from typing import Any, Callable, Literal, TypeVar
from collections.abc import Sequence
from dataclasses import dataclass
from typing_extensions import NotRequired, TypedDict
from c15_universe import A, B, C, a_inst, b_inst, c_inst
T0 = TypeVar("T0")
U0 = TypeVar("U0")
W0 = TypeVar("W0")
TB = TypeVar("TB", bound=float)
TA = TypeVar("TA", bound=A)
TC = TypeVar("TC", int, str)
TD = TypeVar("TD", float, str, A)
def g_int_str(a: int) -> str:
    return "a"
def g_str_int(a: str) -> int:
    return 1
def g_obj_none(a: object) -> None:
    return None
def g_float_float(a: float) -> float:
    return 1.5
def g_bool_int(a: bool) -> int:
    return 1
def g_A_B(a: A) -> B:
    return b_inst
"""

_A = uni.ATOM_NAMES.index
# callbacks: name -> (parameter type, return type) as model values
FUNS = {
    "g_int_str": ((_A("int"),), (_A("str"),)),
    "g_str_int": ((_A("str"),), (_A("int"),)),
    "g_obj_none": ((_A("object"),), (_A("litNone"),)),
    "g_float_float": ((_A("float"),), (_A("float"),)),
    "g_bool_int": ((_A("bool"),), (_A("int"),)),
    "g_A_B": ((_A("clsA"),), (_A("clsB"),)),
}
# typed (non-literal) scalar arguments: model value -> (annotation source, runtime default source)
TYPED = {
    (_A("int"),): ("int", "1"), (_A("str"),): ("str", '"a"'), (_A("float"),): ("float", "1.5"), (_A("bool"),): ("bool", "True"),
    (_A("clsA"),): ("A", "a_inst"), (_A("clsB"),): ("B", "b_inst"), (_A("int"), _A("str")): ("int | str", "1"),
}
# element types of list / dict / star arguments: model value -> (source, runtime element source)
ELEMS = {
    (_A("int"),): ("int", "1"), (_A("str"),): ("str", '"a"'), (_A("bool"),): ("bool", "True"), (_A("float"),): ("float", "1.5"),
    (_A("clsB"),): ("B", "b_inst"),
}


def obj_value(i):
    return uni.LITERAL_OBJECTS[i][1]


def py_member(o, atom_name):
    """Runtime membership of object o in the type denoted by an atom: CPython's isinstance, plus
    the int -> float promotion of the typing spec; a literal type contains exactly the equal
    object of the same class; the container atoms contain none of the universe's objects."""
    cls = dict(uni.CLASS_ATOMS).get(atom_name)
    if cls is not None:
        return isinstance(o, cls) or (cls is float and isinstance(o, int))
    lit = dict(uni.LITERAL_OBJECTS)
    if atom_name in lit:
        x = lit[atom_name]
        return type(o) is type(x) and (o is x or (o == x and not isinstance(o, (uni.A, uni.C))))
    return False


def member_sval(o, sv):
    return sv == "any" or any(py_member(o, uni.ATOM_NAMES[a]) for a in sv)


def annot_src(a, tvname):
    """model annotation -> source text"""
    if a is None:
        return None
    if a == "T":
        return tvname
    if a == "any":
        return "Any"
    return " | ".join(ATOM_SRC[uni.ATOM_NAMES[i]] for i in a)


def gen_objs_v():
    tbl = [[py_member(o, an) for an in uni.ATOM_NAMES] for _, o in uni.LITERAL_OBJECTS]
    ctors = " | ".join("O_" + n for n in OBJ_NAMES)
    idx = "\n".join(f"  | O_{n} => {i}" for i, n in enumerate(OBJ_NAMES))
    lit = "\n".join(f"  | O_{n} => A_{n}" for n in OBJ_NAMES)
    rows = ";\n   ".join("[" + "; ".join("true" if b else "false" for b in row) + "]" for row in tbl)
    alls = "; ".join("O_" + n for n in OBJ_NAMES)
    return f"""(* GENERATED by harness/c06_universe.py — do not edit.
   member_table row o, column a = runtime membership of the literal argument object o in the type
   denoted by atom a, computed by CPython (isinstance, plus the int -> float promotion; a literal
   type contains the equal object of the same class). *)
From Coq Require Import List Bool Arith.
Import ListNotations.
Require Import PV.TypeVar.Base PV.TypeVar.Simple PV.Gen.SolveAtoms.

Inductive obj : Type := {ctors}.

Definition all_objs : list obj := [{alls}].

Definition obj_idx (o : obj) : nat :=
  match o with
{idx}
  end.

(* the atom that is the KnownValue of the object *)
Definition lit_atom (o : obj) : atom :=
  match o with
{lit}
  end.

Definition member_table : list (list bool) :=
  [{rows}].

Definition obj_member (o : obj) (a : atom) : bool :=
  nth (atom_idx a) (nth (obj_idx o) member_table []) false.

Definition obj_val (o : obj) : @sval atom := SU [lit_atom o].

(* specification: runtime membership of an object in a static type of the fragment *)
Definition member (o : obj) (t : @sval atom) : bool :=
  match t with
  | SAny => true
  | SU xs => existsb (obj_member o) xs
  end.
"""
