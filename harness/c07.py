"""C07 — callable compatibility is behaviourally sound.

proof   : Properties/C07.v over Binder/{Kind,Sig,SigAssign,PyBind}.v and Gen/Kinds.v
tie     : correspondence  SigAssign.sca / sig_can_assign  vs  Signature.can_assign
          (untyped and typed signatures; the obligation list of the model is evaluated
          with the real Value.can_assign), CallableValue / KnownValue(function) entry
          points and the override check (incompatible_override) on samples;
          PyBind.py_bind vs CPython on the call shapes used by the oracle
oracle  : for every accepted pair every call shape (<=3 positionals, <=3 keywords) is
          EXECUTED under CPython against both functions; typed pairs: every argument slot
          of every such call must land in a parameter of `a` whose annotation contains
          the annotation of the parameter of `e` it lands in (membership = issubclass),
          and the return annotation must be covariant
"""
from __future__ import annotations

import itertools
import json
import random
from pathlib import Path

import c05 as B
import lib
from translate import binder as tr_binder
from translate import kinds as tr_kinds

PROP = "C07"
PO, POK, VP, KO, VK = range(5)
CORPUS = Path(__file__).resolve().parent / "corpus" / "C07.json"
TYPES = ["bool", "int", "object", "str"]
PYTYPE = {"bool": bool, "int": int, "object": object, "str": str}

KNOWN_TEXT = {
    "C07-classmethod-override-unchecked": "an override of a classmethod by a classmethod is never reported (incompatible_override), whatever the two signatures: "
    "class A: @classmethod def m(cls, c, f) / class C(A): @classmethod def m(cls, d, b) is accepted, A.m(c=1, f=2) binds, C.m(c=1, f=2) raises TypeError",
    "C07-staticmethod-override-first-param": "staticmethod overrides are compared after bind_self strips the FIRST parameter of both functions (it is not a self): "
    "class A: @staticmethod def m(**f) / class C(A): @staticmethod def m(e) is accepted, A.m() binds, C.m() raises TypeError",
    "C07-double-fill": "a positional-or-keyword parameter of the accepted callable can be filled positionally and again by keyword by a call the expected signature binds: "
    "(a, /, **b) <- (a, **b) with f(1, a=2); (a, /, *, b) <- (b) and (*a, b) <- (b, *a) with f(1, b=2); (x, /, n) <- (n, *a, **k) with f(1, n=2)",
}


def gen_files():
    return {"Kinds.v": tr_kinds.translate(str(lib.REPO)), "BinderShape.v": tr_binder.translate(str(lib.REPO))}


# ---------------------------------------------------------------------------
# signatures (same representation as c05: [name, kind, default]); optional types:
# a typed signature is (sig, {name: type name}, return type name)


def rename(sig, names):
    return [[names[i], k, d] for i, (_, k, d) in enumerate(sig)]


def small_sigs(maxn, pool):
    """All def-expressible signatures with <= maxn parameters whose names are
    an injective choice from pool."""
    out = []
    for n in range(0, maxn + 1):
        for s in B.valid_sigs(n):
            for names in itertools.permutations(pool, n):
                out.append(rename(s, names))
    return out


def mutate_sig(rng, e):
    """A signature derived from e by the kind of edits that keep callables
    compatible or break them subtly."""
    a = [list(p) for p in e]
    for _ in range(rng.choice([0, 1, 1, 2, 3])):
        r = rng.random()
        names_free = [n for n in B.NAMES if n not in [p[0] for p in a]]
        if r < 0.2 and a:
            i = rng.randrange(len(a))
            if a[i][1] in (PO, POK, KO):
                a[i][1] = rng.choice([PO, POK, KO])
        elif r < 0.35 and a:
            i = rng.randrange(len(a))
            if a[i][1] in (PO, POK, KO):
                a[i][2] = 1 - a[i][2]
        elif r < 0.5 and names_free:
            a.append([rng.choice(names_free), rng.choice([POK, KO, KO]), rng.choice([0, 1, 1])])
        elif r < 0.6 and names_free and not any(p[1] == VP for p in a):
            a.append([rng.choice(names_free), VP, 0])
        elif r < 0.7 and names_free and not any(p[1] == VK for p in a):
            a.append([rng.choice(names_free), VK, 0])
        elif r < 0.8 and a:
            a.pop(rng.randrange(len(a)))
        elif r < 0.9 and a and names_free:
            a[rng.randrange(len(a))][0] = rng.choice(names_free)
        elif len(a) >= 2:
            i, j = rng.sample(range(len(a)), 2)
            a[i][0], a[j][0] = a[j][0], a[i][0]
    a.sort(key=lambda p: p[1])  # stable: keeps relative order inside a kind
    # repair default order among positional parameters
    seen = False
    for p in a:
        if p[1] in (PO, POK):
            if seen:
                p[2] = 1
            seen = seen or bool(p[2])
        if p[1] in (VP, VK):
            p[2] = 0
    return a if B.real_function(a) is not None else None


def typed_header(sig, types, ret):
    kinds = [k for _, k, _ in sig]
    parts = []
    last_po = max((i for i, k in enumerate(kinds) if k == PO), default=-1)
    first_ko = min((i for i, k in enumerate(kinds) if k == KO), default=None)
    for i, (n, k, d) in enumerate(sig):
        if first_ko is not None and i == first_ko and VP not in kinds:
            parts.append("*")
        ann = f": {types[n]}"
        if k == VP:
            parts.append("*" + n + ann)
        elif k == VK:
            parts.append("**" + n + ann)
        else:
            parts.append(n + ann + (" = DEFAULT" if d else ""))
        if i == last_po:
            parts.append("/")
    return "(" + ", ".join(parts) + f") -> {ret}"


_TFN = {}


def typed_function(sig, types, ret):
    key = json.dumps([sig, types, ret], sort_keys=True)
    if key not in _TFN:
        ns = {"DEFAULT": True}  # a bool is a member of bool, int and object; str defaults are never generated
        exec(f"def f{typed_header(sig, types, ret)}: return locals()", ns)
        _TFN[key] = ns["f"]
    return _TFN[key]


# ---------------------------------------------------------------------------
# implementation


def impl_sig_of(fn):
    I = B._impl()
    s = I["ck"].arg_spec_cache.get_argspec(fn)
    if not isinstance(s, I["S"].Signature):
        raise RuntimeError(f"no concrete signature: {s!r}")
    return s


def impl_accepts(e_sig_obj, a_sig_obj):
    I = B._impl()
    from pyanalyze.value import CanAssignError

    return not isinstance(e_sig_obj.can_assign(a_sig_obj, I["ck"]), CanAssignError)


def impl_entry_points(fe, fa):
    """The verdict through CallableValue.can_assign and KnownValue(function).can_assign."""
    I = B._impl()
    V = I["V"]
    from pyanalyze.value import CanAssignError

    ck = I["ck"]
    r1 = not isinstance(V.CallableValue(impl_sig_of(fe)).can_assign(V.KnownValue(fa), ck), CanAssignError)
    r2 = not isinstance(V.KnownValue(fe).can_assign(V.KnownValue(fa), ck), CanAssignError)
    return r1, r2


def run_overrides(pairs):
    """pairs: list of (e, a) untyped signatures.  Returns the list of verdicts
    (True = no incompatible_override reported for the child method)."""
    import contextlib
    import io

    from pyanalyze.error_code import ErrorCode
    from pyanalyze.test_name_check_visitor import TestNameCheckVisitorBase

    def method_header(sig):
        h = B.header(sig)
        has_po = any(k == PO for _, k, _ in sig)
        h = h.replace("('d', '", "('d_', '")  # any constant default
        if not sig:
            return "self"
        return "self, " + h if has_po or True else h

    lines = []
    child_line = {}
    for i, (e, a) in enumerate(pairs):
        lines.append(f"class Base{i}:")
        lines.append(f"    def m({method_header(e)}): pass")
        lines.append(f"class Child{i}(Base{i}):")
        lines.append(f"    def m({method_header(a)}): pass")
        child_line[len(lines)] = i
    code = "\n".join(lines) + "\n"
    buf = io.StringIO()
    with contextlib.redirect_stderr(buf), contextlib.redirect_stdout(buf):
        errs = TestNameCheckVisitorBase()._run_str(code, fail_after_first=False)
    verdict = [True] * len(pairs)
    other = {}
    for er in errs:
        i = child_line.get(er["lineno"])
        if i is not None and er["code"] is ErrorCode.incompatible_override:
            verdict[i] = False
        else:
            other[er["code"].name] = other.get(er["code"].name, 0) + 1
    return verdict, other


# ---------------------------------------------------------------------------
# oracle: every call shape executed under CPython


def call_shapes(e, a, maxpos=3, maxkw=3):
    names = []
    for p in e + a:
        if p[0] not in names:
            names.append(p[0])
    names.append(next(n for n in B.ALLNAMES if n not in names))
    names = names[:7]
    for npos in range(0, maxpos + 1):
        for r in range(0, maxkw + 1):
            for kws in itertools.combinations(names, r):
                yield npos, kws


def find_unsound_call(fe, fa, e, a):
    """A call shape that fe binds and fa does not (None if there is none)."""
    for npos, kws in call_shapes(e, a):
        if B.cpython_binds(fe, npos, kws) and not B.cpython_binds(fa, npos, kws):
            return [npos, list(kws)]
    return None


def slot_map(fn, sig, npos, kws):
    """argument slot -> parameter name it lands in (by executing the call)."""
    loc = fn(*[("p", i) for i in range(npos)], **{k: ("k", k) for k in kws})
    out = {}
    for n, k, _ in sig:
        v = loc[n]
        if k == VP:
            for x in v:
                out[("p", x[1])] = n
        elif k == VK:
            for key in v:
                out[("k", key)] = n
        elif isinstance(v, tuple) and v and v[0] in ("p", "k"):
            out[(v[0], v[1])] = n
    return out


def find_variance_violation(e, te, re_, a, ta, ra):
    """Typed pair accepted: every slot of every call that e binds (and a binds)
    must satisfy  ann_e(param of e) subset of ann_a(param of a)  and ret_a subset of ret_e."""
    if not issubclass(PYTYPE[ra], PYTYPE[re_]):
        return {"return": [ra, re_]}
    fe, fa = B.real_function(e), B.real_function(a)
    for npos, kws in call_shapes(e, a):
        if B.cpython_binds(fe, npos, kws) and B.cpython_binds(fa, npos, kws):
            me, ma = slot_map(fe, e, npos, kws), slot_map(fa, a, npos, kws)
            for slot, pe in me.items():
                pa = ma[slot]
                if not issubclass(PYTYPE[te[pe]], PYTYPE[ta[pa]]):
                    return {"call": [npos, list(kws)], "slot": list(slot), "e_param": pe, "a_param": pa, "types": [te[pe], ta[pa]]}
    return None


# ---------------------------------------------------------------------------



# ---------------------------------------------------------------------------
# phase 3: further entry points


def run_protocols(pairs):
    """(e, a) untyped.  Protocol P with method m(self, <e>); class Impl with m(self, <a>);
    `use(Impl())` for `def use(p: P)`.  True = no incompatible_argument reported."""
    import contextlib
    import io

    from pyanalyze.error_code import ErrorCode
    from pyanalyze.test_name_check_visitor import TestNameCheckVisitorBase

    def mh(sig):
        h = B.header(sig).replace("('d', '", "('d_', '")
        return "self" + (", " + h if h else "")

    lines = ["from typing import Protocol"]
    for i, (e, a) in enumerate(pairs):
        lines += [f"class P{i}(Protocol):", f"    def m({mh(e)}): ..."]
        if i % 3 == 1:  # the method is inherited from a parent class
            lines += [f"class IB{i}:", f"    def m({mh(a)}): pass", f"class I{i}(IB{i}): pass"]
        elif i % 3 == 2:  # ... from a grandparent, and the protocol itself extends another protocol
            lines += [f"class IG{i}:", f"    def m({mh(a)}): pass", f"class IB{i}(IG{i}): pass", f"class I{i}(IB{i}): pass"]
        else:
            lines += [f"class I{i}:", f"    def m({mh(a)}): pass"]
        lines += [f"def use{i}(p: P{i}): pass"]
    lines.append("def run():")
    call_line = {}
    for i in range(len(pairs)):
        lines.append(f"    use{i}(I{i}())")
        call_line[len(lines)] = i
    buf = io.StringIO()
    with contextlib.redirect_stderr(buf), contextlib.redirect_stdout(buf):
        errs = TestNameCheckVisitorBase()._run_str("\n".join(lines) + "\n", fail_after_first=False)
    verdict = [True] * len(pairs)
    other = {}
    for er in errs:
        i = call_line.get(er["lineno"])
        if i is not None and er["code"] is ErrorCode.incompatible_argument:
            verdict[i] = False
        elif er["code"].name != "method_first_arg":
            other[er["code"].name] = other.get(er["code"].name, 0) + 1
    return verdict, other


def run_callable_annotations(items):
    """items: (n or None, a).  `def use(cb: Callable[[int]*n, object])` (None: Callable[..., object]);
    `use(g)` with g = def g(<a>).  True = no incompatible_argument."""
    import contextlib
    import io

    from pyanalyze.error_code import ErrorCode
    from pyanalyze.test_name_check_visitor import TestNameCheckVisitorBase

    lines = ["from typing import Callable"]
    for i, (n, a) in enumerate(items):
        ann = "Callable[..., object]" if n is None else "Callable[[" + ", ".join(["int"] * n) + "], object]"
        lines += [f"def g{i}({B.header(a).replace(chr(39) + 'd' + chr(39) + ', ', chr(39) + 'd_' + chr(39) + ', ')}): pass", f"def use{i}(cb: {ann}): pass"]
    lines.append("def run():")
    call_line = {}
    for i in range(len(items)):
        lines.append(f"    use{i}(g{i})")
        call_line[len(lines)] = i
    buf = io.StringIO()
    with contextlib.redirect_stderr(buf), contextlib.redirect_stdout(buf):
        errs = TestNameCheckVisitorBase()._run_str("\n".join(lines) + "\n", fail_after_first=False)
    verdict = [True] * len(items)
    other = {}
    for er in errs:
        i = call_line.get(er["lineno"])
        if i is not None and er["code"] is ErrorCode.incompatible_argument:
            verdict[i] = False
        else:
            other[er["code"].name] = other.get(er["code"].name, 0) + 1
    return verdict, other


UNNAMED = ["p0", "p1", "p2", "p3"]
for _i, _n in enumerate(UNNAMED):
    B.CODE.setdefault(_n, 9 + _i)
    B.UNCODE.setdefault(9 + _i, _n)


def callable_expected_sig(n):
    """the model's reading of Callable[[T1..Tn], R]: n unnamed positional-only parameters"""
    return [[UNNAMED[i], PO, 0] for i in range(n)]


def impl_callable_annotation(n, fa):
    """CallableValue built from the runtime annotation -> accepts KnownValue(fa)?"""
    from typing import Callable

    from pyanalyze.annotations import type_from_runtime
    from pyanalyze.value import CanAssignError

    I = B._impl()
    ann = Callable[..., object] if n is None else Callable[[int] * n, object]
    cv = type_from_runtime(ann)
    return not isinstance(cv.can_assign(I["V"].KnownValue(fa), I["ck"]), CanAssignError)


def impl_overloads(es, as_):
    I = B._impl()
    S = I["S"]
    from pyanalyze.value import CanAssignError

    def mk(sigs):
        objs = [B.impl_signature(s) for s in sigs]
        return objs[0] if len(objs) == 1 else S.OverloadedSignature(objs)

    return not isinstance(mk(es).can_assign(mk(as_), I["ck"]), CanAssignError)


# ---------------------------------------------------------------------------
# class hierarchies: the override must be compatible with EVERY definition in the MRO

HIER_SHAPES = ["single", "two_bases", "second_base_only", "diamond", "grandparent", "parent_and_grandparent", "classmethod", "staticmethod"]


def _mh(sig, first="self"):
    h = B.header(sig).replace("('d', '", "('d_', '")
    if first is None:
        return h
    return first + (", " + h if h else "")


def hierarchy_source(shape, i, bases_sigs, a):
    """-> (lines, index of the line (0-based, within lines) of the overriding def)"""
    n = f"{i}"
    L = []

    def cls(name, parents, sig, deco=None, first="self"):
        L.append(f"class {name}({', '.join(parents)}):" if parents else f"class {name}:")
        if sig is None:
            L.append("    pass")
            return None
        if deco:
            L.append(f"    @{deco}")
        L.append(f"    def m({_mh(sig, first)}): return locals()")
        return len(L) - 1

    if shape == "single":
        cls(f"A{n}", [], bases_sigs[0])
        at = cls(f"C{n}", [f"A{n}"], a)
    elif shape == "two_bases":
        cls(f"A{n}", [], bases_sigs[0])
        cls(f"B{n}", [], bases_sigs[1])
        at = cls(f"C{n}", [f"A{n}", f"B{n}"], a)
    elif shape == "second_base_only":
        cls(f"A{n}", [], None)
        cls(f"B{n}", [], bases_sigs[0])
        at = cls(f"C{n}", [f"A{n}", f"B{n}"], a)
    elif shape == "diamond":
        cls(f"T{n}", [], bases_sigs[0])
        cls(f"A{n}", [f"T{n}"], bases_sigs[1])
        cls(f"B{n}", [f"T{n}"], bases_sigs[2])
        at = cls(f"C{n}", [f"A{n}", f"B{n}"], a)
    elif shape == "grandparent":
        cls(f"T{n}", [], bases_sigs[0])
        cls(f"A{n}", [f"T{n}"], None)
        at = cls(f"C{n}", [f"A{n}"], a)
    elif shape == "parent_and_grandparent":
        cls(f"T{n}", [], bases_sigs[0])
        cls(f"A{n}", [f"T{n}"], bases_sigs[1])
        at = cls(f"C{n}", [f"A{n}"], a)
    elif shape == "classmethod":
        cls(f"A{n}", [], bases_sigs[0], "classmethod", "cls")
        at = cls(f"C{n}", [f"A{n}"], a, "classmethod", "cls")
    elif shape == "staticmethod":
        cls(f"A{n}", [], bases_sigs[0], "staticmethod", None)
        at = cls(f"C{n}", [f"A{n}"], a, "staticmethod", None)
    else:
        raise ValueError(shape)
    return L, at


def n_bases(shape):
    return {"two_bases": 2, "diamond": 3, "parent_and_grandparent": 2}.get(shape, 1)


def gen_hierarchies(rng, n):
    out = []
    for j in range(n):
        shape = HIER_SHAPES[j % len(HIER_SHAPES)]
        e0 = B.random_sig(rng, 3)
        if shape == "staticmethod" and not e0:
            e0 = [["a", POK, 0]]
        bases = [e0]
        for _ in range(n_bases(shape) - 1):
            bases.append((mutate_sig(rng, e0) if rng.random() < 0.8 else None) or B.random_sig(rng, 3))
        src = rng.choice(bases)
        a = (mutate_sig(rng, src) if rng.random() < 0.75 else None) or src
        out.append((shape, bases, a))
    return out


def run_hierarchies(cases, batch=100):
    """-> per case (accepted by pyanalyze: no incompatible_override on the overriding def)"""
    import contextlib
    import io

    from pyanalyze.error_code import ErrorCode
    from pyanalyze.test_name_check_visitor import TestNameCheckVisitorBase

    verdicts = []
    other = {}
    for b0 in range(0, len(cases), batch):
        chunk = cases[b0 : b0 + batch]
        lines = []
        def_line = {}
        for i, (shape, bases, a) in enumerate(chunk):
            L, at = hierarchy_source(shape, i, bases, a)
            def_line[len(lines) + at + 1] = i
            # a decorator line precedes the def: diagnostics may be reported on either line
            def_line.setdefault(len(lines) + at, i) if shape in ("classmethod", "staticmethod") else None
            lines += L
        buf = io.StringIO()
        with contextlib.redirect_stderr(buf), contextlib.redirect_stdout(buf):
            errs = TestNameCheckVisitorBase()._run_str("\n".join(lines) + "\n", fail_after_first=False)
        v = [True] * len(chunk)
        for er in errs:
            i = def_line.get(er["lineno"])
            if i is not None and er["code"] is ErrorCode.incompatible_override:
                v[i] = False
            elif er["code"].name not in ("method_first_arg", "incompatible_override"):
                # incompatible_override on other lines = intermediate classes of the hierarchy overriding their own bases
                other[er["code"].name] = other.get(er["code"].name, 0) + 1
        verdicts += v
    return verdicts, other


# ---------------------------------------------------------------------------
# return covariance through every KIND of callable on the accepted side: the runtime object
# goes through arg_spec; the oracle CALLS it and tests membership of the result

RETURN_KINDS_SRC = """
import functools, typing
def plain(x: int) -> int: return 0
def plain_bool(x: int) -> bool: return True
def plain_str(x: int) -> str: return ""
async def async_ann(x: int) -> int: return 0
async def async_unann(x: int): return 0
def gen_ann(x: int) -> typing.Iterator[int]: yield 0
async def agen_ann(x: int) -> typing.AsyncIterator[int]: yield 0
class K:
    def __init__(self, x: int) -> None: pass
class CI:
    def __call__(self, x: int) -> int: return 0
callable_instance = CI()
class M:
    def m(self, x: int) -> int: return 0
    @staticmethod
    def s(x: int) -> str: return ""
    @classmethod
    def c(cls, x: int) -> int: return 0
    async def am(self, x: int): return 0
bound_method = M().m
static_method = M.s
class_method = M.c
bound_async_unann = M().am
def deco(f):
    @functools.wraps(f)
    def w(*a, **k): return f(*a, **k)
    return w
@deco
def wrapped(x: int) -> int: return 0
@deco
async def wrapped_async_unann(x: int): return 0
def two(a: int, x: int) -> int: return 0
partial_obj = functools.partial(two, 1)
"""
RETURN_KIND_NAMES = ["plain", "plain_bool", "plain_str", "async_ann", "async_unann", "gen_ann", "agen_ann", "K", "callable_instance",
                     "bound_method", "static_method", "class_method", "bound_async_unann", "wrapped", "wrapped_async_unann", "partial_obj"]
# kinds whose result type is Any by design when unannotated / not modelled: membership not demanded
# partial_obj: functools.partial is not modelled (typeshed __call__ -> Any);  wrapped*: the wrapper `def w(*a, **k)`
# is itself unannotated (pyanalyze does not follow __wrapped__);  callable_instance: an instance of a class created by
# exec() falls back to ANY_SIGNATURE here (observed; the module route is not exercised for it)
RETURN_ANY_BY_DESIGN = {"partial_obj", "wrapped", "wrapped_async_unann", "callable_instance"}


def return_kind_stream():
    """-> (failures, stats).  For every callable kind g and expected Callable[[int], R]:
    accepted  =>  isinstance(g(1), R)  (a coroutine / generator object is what g(1) IS)."""
    import inspect
    from typing import Callable

    from pyanalyze.annotations import type_from_runtime
    from pyanalyze.value import CanAssignError

    I = B._impl()
    ns = {}
    exec(RETURN_KINDS_SRC, ns)
    bad = []
    stats = {"checked": 0, "accepted": 0, "per_kind_accepted": {}}
    for name in RETURN_KIND_NAMES:
        obj = ns[name]
        for R in (int, str, object, bool):
            cv = type_from_runtime(Callable[[int], R])
            acc = not isinstance(cv.can_assign(I["V"].KnownValue(obj), I["ck"]), CanAssignError)
            stats["checked"] += 1
            if not acc:
                continue
            stats["accepted"] += 1
            stats["per_kind_accepted"].setdefault(name, []).append(R.__name__)
            try:
                res = obj(1)
            except TypeError as ex:
                bad.append({"callable": name, "expected": f"Callable[[int], {R.__name__}]", "observed": "accepted", "problem": f"calling it with one int raises {ex!r}"})
                continue
            ok = isinstance(res, R)
            if inspect.iscoroutine(res):
                res.close()
            if not ok and name not in RETURN_ANY_BY_DESIGN:
                bad.append({"callable": name, "expected": f"Callable[[int], {R.__name__}]", "observed": "accepted", "problem": f"the call returns a {type(res).__name__}, not a member of {R.__name__}"})
    return bad, stats


# ---------------------------------------------------------------------------
# round 4: the accepted side (and the expected side) as a UNION


def gen_union_groups(rng, n):
    """(e, members, with_none): members = 2..3 signatures (edits of e / random)"""
    # fixed shapes first (round-4 seed: `use(good if flag else bad)`; Optional[Callable] must be rejected)
    out = [
        ([["a", POK, 0], ["b", POK, 0]], [[["a", POK, 0], ["b", POK, 0]], [["a", POK, 0]]], False),
        ([["a", POK, 0]], [[["a", POK, 0]], [["a", POK, 0], ["b", POK, 0]]], False),
        ([["a", POK, 0]], [[["a", POK, 0]], [["a", POK, 0], ["b", POK, 1]]], False),
        ([["a", POK, 0]], [[["a", POK, 0]]], True),
    ]
    for j in range(n):
        e = B.random_sig(rng, 4)
        members = []
        for _ in range(rng.choice([2, 2, 3])):
            members.append((mutate_sig(rng, e) if rng.random() < 0.8 else None) or B.random_sig(rng, 4))
        if rng.random() < 0.45:
            members[rng.randrange(len(members))] = e  # at least one compatible member, often
        out.append((e, members, rng.random() < 0.12))
    return out


def impl_union_accepts(e, members, with_none):
    """accepted side = MultiValuedValue of the member functions (plus None when with_none), through
    CallableValue(sig).can_assign and KnownValue(f).can_assign"""
    I = B._impl()
    V = I["V"]
    from pyanalyze.value import CanAssignError

    vals = [V.KnownValue(B.real_function(a)) for a in members] + ([V.KnownValue(None)] if with_none else [])
    other = V.MultiValuedValue(vals)
    ck = I["ck"]
    r1 = not isinstance(V.CallableValue(B.impl_signature(e)).can_assign(other, ck), CanAssignError)
    r2 = not isinstance(V.KnownValue(B.real_function(e)).can_assign(other, ck), CanAssignError)
    return r1, r2


def impl_expected_union_accepts(es, a):
    """expected side = MultiValuedValue of CallableValues"""
    I = B._impl()
    V = I["V"]
    from pyanalyze.value import CanAssignError

    exp = V.MultiValuedValue([V.CallableValue(B.impl_signature(e)) for e in es])
    return not isinstance(exp.can_assign(V.KnownValue(B.real_function(a)), I["ck"]), CanAssignError)


def run_union_argument_modules(items):
    """items: (n, members, with_none, form).  `def use(cb: Callable[[int]*n, object])`; the argument is
    a conditional expression over the member functions (form 0) or a variable assigned a different
    function in each branch (form 1).  True = no incompatible_argument."""
    import contextlib
    import io

    from pyanalyze.error_code import ErrorCode
    from pyanalyze.test_name_check_visitor import TestNameCheckVisitorBase

    lines = ["from typing import Callable"]
    for i, (n, members, with_none, form) in enumerate(items):
        for j, a in enumerate(members):
            lines.append(f"def g{i}_{j}({B.header(a).replace(chr(39) + 'd' + chr(39) + ', ', chr(39) + 'd_' + chr(39) + ', ')}): pass")
        lines.append(f"def use{i}(cb: Callable[[{', '.join(['int'] * n)}], object]): pass")
    call_line = {}
    for i, (n, members, with_none, form) in enumerate(items):
        names = [f"g{i}_{j}" for j in range(len(members))] + (["None"] if with_none else [])
        lines.append(f"def run{i}(c0: bool, c1: bool, c2: bool):")
        if form == 0:
            expr = names[-1]
            for k, nm in reversed(list(enumerate(names[:-1]))):
                expr = f"{nm} if c{k} else ({expr})"
            lines.append(f"    use{i}({expr})")
        else:
            for k, nm in enumerate(names):
                kw = "if" if k == 0 else "elif" if k < len(names) - 1 else "else"
                lines.append(f"    {kw} c{k}:" if kw != "else" else "    else:")
                lines.append(f"        v = {nm}")
            lines.append(f"    use{i}(v)")
        call_line[len(lines)] = i
    buf = io.StringIO()
    with contextlib.redirect_stderr(buf), contextlib.redirect_stdout(buf):
        errs = TestNameCheckVisitorBase()._run_str("\n".join(lines) + "\n", fail_after_first=False)
    verdict = [True] * len(items)
    other = {}
    for er in errs:
        i = call_line.get(er["lineno"])
        if i is not None and er["code"] is ErrorCode.incompatible_argument:
            verdict[i] = False
        else:
            other[er["code"].name] = other.get(er["code"].name, 0) + 1
    return verdict, other


# ---------------------------------------------------------------------------
# round 5: callables whose signature comes from the DEF NODE (nested defs, lambdas) with bodies
# that contain nested function kinds holding yield / yield from / await / return; return covariance
# decided by CALLING them

NESTED_PIECES = [
    [],
    ["def inner(): yield 1"],
    ["def inner(): yield from ()"],
    ["def inner(): return 1"],
    ["async def inner(): yield 1"],
    ["async def inner(): await helper()"],
    ["async def inner(): return 1"],
    ["async def inner():", "    async def deeper(): yield 1", "    return 1"],
    ["def inner():", "    async def deeper(): yield 1", "    return 1"],
    ["lam = lambda: (yield)"],
    ["lam = lambda: 1"],
    ["gen = (x for x in ())"],
    ["lst = [x for x in ()]"],
    ["class C:", "    def m(self): yield 1"],
    ["class C:", "    async def m(self): yield 1"],
    ["class C:", "    async def m(self): await helper()"],
    ["async def inner(): return [await z for z in ()]"],
    ["def inner(): return (yield)"],
]
OWN_PIECES = {"def": [[], ["yield 2"], ["yield from ()"]], "async def": [[], ["yield 2"], ["await helper()"]]}
EXPECTED_RETURNS = [("int", "int"), ("str", "str"), ("object", "object"), ("Awaitable[object]", "awaitable")]


def nested_body_cases():
    cases = []
    for kind in ("def", "async def"):
        for own in OWN_PIECES[kind]:
            for nested in NESTED_PIECES:
                for ann in ("", " -> int"):
                    if ann and own and own[0].startswith("yield"):
                        continue  # `-> int` on a generator is a wrong annotation, not our subject
                    body = nested + own + ["return 0"] if not (own and own[0].startswith("yield") and kind == "async def") else nested + own
                    cases.append((f"{kind} outer(){ann}:", body))
    for lam in ("lambda: 0", "lambda: (yield)", "lambda: [(lambda: (yield))]", "lambda: (lambda: (yield))()", "lambda: [x for x in ()]", "lambda: (x for x in ())"):
        cases.append((f"outer = {lam}", None))
    return cases


def _nested_source(i, head, body, uses):
    lines = [f"def make{i}():", "    async def helper(): return 0"]
    if body is None:
        lines.append("    " + head)
    else:
        lines.append("    " + head)
        lines += ["        " + b for b in body]
    at = {}
    for k, u in enumerate(uses):
        lines.append(f"    {u}(outer)")
        at[len(lines) - 1] = k
    lines.append("    return outer")
    return lines, at


def nested_body_stream():
    """-> (failures, stats)"""
    import contextlib
    import inspect
    import io

    from pyanalyze.error_code import ErrorCode
    from pyanalyze.test_name_check_visitor import TestNameCheckVisitorBase

    cases = []
    for head, body in nested_body_cases():
        src = "\n".join(["def make():", "    async def helper(): return 0", "    " + head] + (["        " + b for b in body] if body is not None else []) + ["    return outer"])
        try:
            compile(src, "<n>", "exec")
        except SyntaxError:
            continue
        cases.append((head, body))
    failures = []
    stats = {"callables": len(cases), "checked": 0, "accepted": 0, "rejected_though_member": 0, "other_codes": {}}
    uses = [f"use{k}" for k in range(len(EXPECTED_RETURNS))]
    for b0 in range(0, len(cases), 60):
        chunk = cases[b0 : b0 + 60]
        lines = ["from typing import Awaitable, Callable"]
        for k, (ann, _) in enumerate(EXPECTED_RETURNS):
            lines.append(f"def use{k}(cb: Callable[[], {ann}]): pass")
        sites = {}
        for i, (head, body) in enumerate(chunk):
            L, at = _nested_source(i, head, body, uses)
            for off, k in at.items():
                sites[len(lines) + off + 1] = (i, k)
            lines += L
        code = "\n".join(lines) + "\n"
        buf = io.StringIO()
        try:
            with contextlib.redirect_stderr(buf), contextlib.redirect_stdout(buf):
                errs = TestNameCheckVisitorBase()._run_str(code, fail_after_first=False)
        except Exception as ex:
            failures.append({"callable": "module of nested-body callables", "expected": "-", "observed": "pyanalyze raised " + repr(ex)[:300], "problem": "a verdict per use"})
            continue
        rejected = set()
        for e in errs:
            if e["lineno"] in sites and e["code"] is ErrorCode.incompatible_argument:
                rejected.add(e["lineno"])
            else:
                stats["other_codes"][e["code"].name] = stats["other_codes"].get(e["code"].name, 0) + 1
        ns = {}
        exec("\n".join(l for l in lines if not l.strip().startswith("use") or l.startswith("def use")), ns)
        for line, (i, k) in sites.items():
            head, body = chunk[i]
            res = ns[f"make{i}"]()()
            kind = EXPECTED_RETURNS[k][1]
            member = {"int": isinstance(res, int), "str": isinstance(res, str), "object": True, "awaitable": inspect.isawaitable(res)}[kind]
            what = type(res).__name__
            if inspect.iscoroutine(res) or inspect.isgenerator(res):
                res.close()
            acc = line not in rejected
            stats["checked"] += 1
            stats["accepted"] += int(acc)
            text = head + (" " + "; ".join(body) if body is not None else "")
            # unannotated return = Any by design; the only wrapper pyanalyze derives for an unannotated def is
            # Coroutine for an `async def` that is not a generator.  So membership is demanded for annotated
            # callables and for unannotated coroutine functions (decided by what the call REALLY returns).
            annotated = body is not None and "->" in head
            any_by_design = not annotated and what != "coroutine"
            if acc and not member and any_by_design:
                stats["any_by_design"] = stats.get("any_by_design", 0) + 1
            elif acc and not member:
                failures.append({"callable": text, "expected": f"Callable[[], {EXPECTED_RETURNS[k][0]}]", "observed": "accepted", "problem": f"calling it returns a {what}, not a member of the expected return type"})
            elif not acc and member:
                stats["rejected_though_member"] += 1
    return failures, stats


def enc_pair(e, a):
    return "C" + B.enc_sig(e) + "|" + B.enc_sig(a)


def parse_model(line):
    """-> (accepted, obligations [(their, mine)], guard)"""
    body, g = line.rsplit(" ", 1)
    guard = g == "G1"
    if body.startswith("ERR"):
        return False, [], guard
    obs = []
    for it in body[3:].split(";") if len(body) > 3 else []:
        t, m = it.split(":")
        obs.append((B.UNCODE[int(t)], B.UNCODE[int(m)]))
    return True, obs, guard


def eval_obligations(obs, es, as_):
    """Evaluate the model's obligation list with the real Value.can_assign on the
    annotations of the real Signature objects (element type of *args / value
    type of **kwargs when compared with an ordinary parameter)."""
    I = B._impl()
    V, S = I["V"], I["S"]
    from pyanalyze.value import CanAssignError

    ck = I["ck"]
    for t, m in obs:
        tp, mp = as_.parameters[t], es.parameters[m]
        tv, mv = tp.annotation, mp.annotation
        if tp.kind is S.ParameterKind.VAR_POSITIONAL and mp.kind is not S.ParameterKind.VAR_POSITIONAL:
            tv = tv.args[0] if isinstance(tv, V.GenericValue) else tv
        if tp.kind is S.ParameterKind.VAR_KEYWORD and mp.kind is not S.ParameterKind.VAR_KEYWORD:
            tv = tv.args[1] if isinstance(tv, V.GenericValue) else tv
        if isinstance(tv.can_assign(mv, ck), CanAssignError):
            return False
    return True


def load_corpus():
    if CORPUS.exists():
        return [(c["e"], c["a"]) for c in json.loads(CORPUS.read_text())]
    return []


def pair_text(e, a):
    return f"expected def f({B.header(e)})  <-  actual def g({B.header(a)})"


def run(tier: str, replay: str | None = None):
    rep = lib.Report(PROP, tier, "proof")
    rng = random.Random(lib.seed() * 7919 + 7)
    thorough = tier == "thorough"
    broken_translation = None
    try:
        gen = gen_files()
    except (tr_kinds.TranslateError, tr_binder.TranslateError) as ex:
        broken_translation = str(ex)
        gen = None
    proof = lib.prove(PROP, gen, thorough=thorough) if gen is not None else None
    model_ok = proof is not None and not any("build failed" in b for b in proof.broken)
    exe = None
    if model_ok:
        try:
            exe = lib.ocaml_build("c07", "theories/Extract/ExtractC07.v", "c07_driver.ml")
        except RuntimeError as ex:
            rep.violation({"kind": "broken-obligation", "theorem": "extraction of SigAssign model", "detail": str(ex)[-1500:]}, no_failing_input=True)

    # ---- cases
    pairs = []
    replay_hier = None
    replay_union = None
    typed = []  # (e, te, re, a, ta, ra)
    if replay:
        r = json.loads(Path(replay).read_text())
        c = r["input"]
        if "union_members" in c:
            replay_union = [(c["e"], c["union_members"], c.get("with_none", False))]
        elif "callable" in c:
            pass  # the return-kind stream is fixed and runs on every invocation
        elif "hierarchy" in c:
            replay_hier = [(c["hierarchy"], c["bases"], c["a"])]
        elif "te" in c:
            typed.append((c["e"], c["te"], c["re"], c["a"], c["ta"], c["ra"]))
        else:
            pairs.append((c["e"], c["a"]))
    else:
        pairs += load_corpus()
        pool2 = small_sigs(2, ["a", "b", "c"])
        if thorough:
            base = [s for n in range(0, 3) for s in B.valid_sigs(n)]
            for e in base:
                for a in pool2:
                    pairs.append((e, a))
        else:
            base = [s for n in range(0, 3) for s in B.valid_sigs(n)]
            for e in base:
                for a in rng.sample(pool2, 30):
                    pairs.append((e, a))
        n_rand = 9000 if not thorough else 90000
        for j in range(n_rand):
            e = B.random_sig(rng, 5)
            if j % 4 == 0:
                a = B.random_sig(rng, 5)
            else:
                a = mutate_sig(rng, e)
                if a is None:
                    continue
            pairs.append((e, a))
        for j in range(2500 if not thorough else 25000):
            e = B.random_sig(rng, 4)
            a = mutate_sig(rng, e) if j % 5 else e
            if a is None:
                continue
            te = {p[0]: rng.choice(TYPES[:3]) for p in e}
            ta = {}
            for p in a:
                base_t = te.get(p[0], rng.choice(TYPES[:3]))
                ta[p[0]] = base_t if rng.random() < 0.5 else rng.choice(TYPES)
            re_, ra = rng.choice(TYPES[:3]), rng.choice(TYPES)
            typed.append((e, te, re_, a, ta, ra))

    # ---- model
    model = lib.ocaml_run(exe, [enc_pair(e, a) for e, a in pairs]) if exe is not None and pairs else [None] * len(pairs)
    tmodel = lib.ocaml_run(exe, [enc_pair(t[0], t[3]) for t in typed]) if exe is not None and typed else [None] * len(typed)

    hist = {"nparams_e": {}, "nparams_a": {}, "impl_accept": 0, "impl_reject": 0, "accepted_unsound": 0, "guard_true": 0, "typed_accept": 0, "typed_reject": 0, "known": {}}
    failing, corr, spec_bad = [], [], []
    distinct = set()
    n_calls = 0
    accepted_pairs = []
    for pi, (e, a) in enumerate(pairs):
        fe, fa = B.real_function(e), B.real_function(a)
        acc = impl_accepts(B.impl_signature(e), B.impl_signature(a))
        hist["nparams_e"][len(e)] = hist["nparams_e"].get(len(e), 0) + 1
        hist["nparams_a"][len(a)] = hist["nparams_a"].get(len(a), 0) + 1
        hist["impl_accept" if acc else "impl_reject"] += 1
        if e and a and e != a:
            distinct.add((json.dumps(e), json.dumps(a)))
        payload = {"e": e, "a": a, "text": pair_text(e, a)}
        m = parse_model(model[pi]) if model[pi] is not None else None
        if m is not None:
            hist["guard_true"] += int(m[2])
            if m[0] != acc:
                corr.append({"input": payload, "model": m[0], "impl": acc})
        if acc:
            accepted_pairs.append((e, a))
            bad = find_unsound_call(fe, fa, e, a)
            n_calls += 1
            if bad is not None:
                hist["accepted_unsound"] += 1
                if m is not None and m[0] and m[2]:
                    hist["known"]["C07-double-fill"] = hist["known"].get("C07-double-fill", 0) + 1
                    rep.known("C07-double-fill", KNOWN_TEXT["C07-double-fill"])
                else:
                    failing.append((payload, f"accepted; call with {bad[0]} positionals and keywords {bad[1]}", "the expected signature binds the call, the accepted callable raises TypeError"))

    # ---- spec vs CPython on a sample of call shapes
    if exe is not None and pairs:
        sample = [pairs[i] for i in sorted(rng.sample(range(len(pairs)), min(len(pairs), 400)))]
        lines, exp = [], []
        for e, a in sample:
            for npos, kws in itertools.islice(call_shapes(e, a), 0, None, 7):
                lines.append("P" + B.enc_sig(e) + "|" + str(npos) + "|" + " ".join(str(B.CODE[k]) for k in kws))
                exp.append((e, npos, kws))
        outs = lib.ocaml_run(exe, lines)
        for (e, npos, kws), o in zip(exp, outs):
            if (o == "1") != B.cpython_binds(B.real_function(e), npos, kws):
                spec_bad.append({"sig": e, "npos": npos, "kws": list(kws), "spec": o})
        n_spec = len(lines)
    else:
        n_spec = 0

    # ---- typed stream
    tcorr = []
    for ti, (e, te, re_, a, ta, ra) in enumerate(typed):
        fe, fa = typed_function(e, te, re_), typed_function(a, ta, ra)
        es, as_ = impl_sig_of(fe), impl_sig_of(fa)
        acc = impl_accepts(es, as_)
        hist["typed_accept" if acc else "typed_reject"] += 1
        payload = {"e": e, "te": te, "re": re_, "a": a, "ta": ta, "ra": ra, "text": f"def f{typed_header(e, te, re_)}  <-  def g{typed_header(a, ta, ra)}"}
        distinct.add((json.dumps([e, te, re_]), json.dumps([a, ta, ra])))
        if tmodel[ti] is not None:
            mk, obs, guard = parse_model(tmodel[ti])
            I = B._impl()
            from pyanalyze.value import CanAssignError

            ret_ok = not isinstance(es.return_value.can_assign(as_.return_value, I["ck"]), CanAssignError)
            macc = mk and ret_ok and eval_obligations(obs, es, as_)
            if macc != acc:
                tcorr.append({"input": payload, "model": macc, "impl": acc, "obligations": obs})
        if acc:
            v = find_variance_violation(e, te, re_, a, ta, ra)
            if v is not None:
                failing.append((payload, "accepted", "variance violated under the membership model: " + json.dumps(v)))

    # ---- entry points: CallableValue / KnownValue(function) on EVERY pair; overrides and protocols on samples
    ep_bad, ov_bad, ov_other = [], [], {}
    pr_bad, pr_other = [], {}
    n_ep = n_ov = n_ov_rej = n_pr = n_pr_rej = 0
    direct_cache = {}
    if pairs:
        for e, a in pairs:
            fe, fa = B.real_function(e), B.real_function(a)
            direct = impl_accepts(B.impl_signature(e), B.impl_signature(a))
            direct_cache[(json.dumps(e), json.dumps(a))] = direct
            r1, r2 = impl_entry_points(fe, fa)
            n_ep += 1
            if r1 != direct or r2 != direct:
                ep_bad.append({"input": {"e": e, "a": a, "text": pair_text(e, a)}, "Signature.can_assign": direct, "CallableValue.can_assign": r1, "KnownValue.can_assign": r2})
        sample = [pairs[i] for i in sorted(rng.sample(range(len(pairs)), min(len(pairs), 1200 if not thorough else 6000)))]
        for k in range(0, len(sample), 150):
            chunk = sample[k : k + 150]
            vs, other = run_overrides(chunk)
            for key, val in other.items():
                ov_other[key] = ov_other.get(key, 0) + val
            for (e, a), ok in zip(chunk, vs):
                n_ov += 1
                n_ov_rej += int(not ok)
                direct = direct_cache[(json.dumps(e), json.dumps(a))]
                if ok != direct:
                    ov_bad.append({"input": {"e": e, "a": a, "text": pair_text(e, a)}, "Signature.can_assign": direct, "override_check_accepts": ok})
        psample = sample[: 600 if not thorough else 3000]
        for k in range(0, len(psample), 150):
            chunk = psample[k : k + 150]
            vs, other = run_protocols(chunk)
            for key, val in other.items():
                pr_other[key] = pr_other.get(key, 0) + val
            for (e, a), ok in zip(chunk, vs):
                n_pr += 1
                n_pr_rej += int(not ok)
                direct = direct_cache[(json.dumps(e), json.dumps(a))]
                if ok != direct:
                    pr_bad.append({"input": {"e": e, "a": a, "text": pair_text(e, a)}, "Signature.can_assign": direct, "protocol_check_accepts": ok})

    # ---- Callable[[T1..Tn], R] and Callable[..., R] as the expected type
    ca_items, ca_corr, ca_e2e_bad = [], [], []
    n_ca = n_ca_acc = n_ellipsis = n_ca_e2e = 0
    ca_other = {}
    if pairs and not replay:
        ca_items = [(rng.choice([0, 1, 1, 2, 2, 3]), a) for _, a in pairs[:: 2 if not thorough else 1]]
        ca_model = lib.ocaml_run(exe, [enc_pair(callable_expected_sig(n), a) for n, a in ca_items]) if exe is not None else [None] * len(ca_items)
        for (n, a), ml in zip(ca_items, ca_model):
            fa = B.real_function(a)
            acc = impl_callable_annotation(n, fa)
            n_ca += 1
            n_ca_acc += int(acc)
            payload = {"e": callable_expected_sig(n), "a": a, "text": f"Callable[[{', '.join(['int'] * n)}], object]  <-  def g({B.header(a)})"}
            if ml is not None:
                mk, _, guard = parse_model(ml)
                if mk != acc:
                    ca_corr.append({"input": payload, "model": mk, "impl": acc})
            if acc and not B.cpython_binds(fa, n, []):
                failing.append((payload, f"accepted for Callable[[{n} parameters], ...]", f"g raises TypeError when called with {n} positional arguments"))
            if not impl_callable_annotation(None, fa):
                failing.append(({"e": [], "a": a, "text": f"Callable[..., object]  <-  def g({B.header(a)})"}, "rejected", "Callable[..., R] is compatible with every callable"))
            n_ellipsis += 1
        esample = ca_items[: 300 if not thorough else 1500] + [(None, a) for _, a in ca_items[:60]]
        for k in range(0, len(esample), 150):
            chunk = esample[k : k + 150]
            vs, other = run_callable_annotations(chunk)
            for key, val in other.items():
                ca_other[key] = ca_other.get(key, 0) + val
            for (n, a), ok in zip(chunk, vs):
                n_ca_e2e += 1
                direct = impl_callable_annotation(n, B.real_function(a))
                if ok != direct:
                    ca_e2e_bad.append({"input": {"n": n, "a": a, "text": f"use(g) for def g({B.header(a)})"}, "type_from_runtime route": direct, "module accepts": ok})

    # ---- overloads on either side
    ov2_corr = []
    n_ov2 = n_ov2_acc = 0
    if pairs and not replay and exe is not None:
        groups = []
        for j in range(1500 if not thorough else 12000):
            e0 = B.random_sig(rng, 3)
            es = [e0] + ([mutate_sig(rng, e0) or e0] if rng.random() < 0.5 else [])
            as_ = [(mutate_sig(rng, e0) if rng.random() < 0.8 else B.random_sig(rng, 3)) or e0 for _ in range(rng.choice([1, 2, 2]))]
            groups.append((es, as_))
        lines = [enc_pair(e, a) for es, as_ in groups for e in es for a in as_]
        outs = iter(lib.ocaml_run(exe, lines))
        for es, as_ in groups:
            table = {(i, j): parse_model(next(outs))[0] for i in range(len(es)) for j in range(len(as_))}
            mk = all(any(table[(i, j)] for j in range(len(as_))) for i in range(len(es)))
            acc = impl_overloads(es, as_)
            n_ov2 += 1
            n_ov2_acc += int(acc)
            if mk != acc:
                ov2_corr.append({"input": {"es": es, "as": as_, "text": " | ".join(B.header(x) for x in es) + "  <-  " + " | ".join(B.header(x) for x in as_)}, "model": mk, "impl": acc})

    # ---- class hierarchies: the override against every definition in the MRO
    hier_bad, hier_corr = [], []
    hier_hist = {}
    hier_other = {}
    n_hier = 0
    if (pairs or replay_hier) and exe is not None:
        hcases = replay_hier or gen_hierarchies(rng, 800 if not thorough else 5000)
        hv, hier_other = run_hierarchies(hcases)
        hlines = [enc_pair(e, a) for shape, bases, a in hcases for e in bases]
        houts = iter(lib.ocaml_run(exe, hlines))
        for (shape, bases, a), acc in zip(hcases, hv):
            n_hier += 1
            h = hier_hist.setdefault(shape, {"cases": 0, "accepted": 0})
            h["cases"] += 1
            h["accepted"] += int(acc)
            ms = [parse_model(next(houts)) for _ in bases]
            directs = [impl_accepts(B.impl_signature(e), B.impl_signature(a)) for e in bases]
            src, _ = hierarchy_source(shape, 0, bases, a)
            payload = {"hierarchy": shape, "bases": bases, "a": a, "text": " / ".join(x.strip() for x in src if x.strip().startswith(("class", "def", "@")))}
            special = shape in ("classmethod", "staticmethod")
            if special:
                # what the known mechanism predicts: classmethod overrides are never reported; staticmethod
                # overrides are compared after bind_self stripped the first parameter of both sides
                if shape == "classmethod":
                    predicted = True
                else:
                    I = B._impl()
                    from pyanalyze.value import CanAssignError as _CAE

                    bb = B.impl_signature(bases[0]).bind_self(ctx=I["ck"])
                    cb = B.impl_signature(a).bind_self(ctx=I["ck"])
                    predicted = True if bb is None else False if cb is None else not isinstance(bb.can_assign(cb, I["ck"]), _CAE)
                if acc != predicted:
                    hier_corr.append({"input": payload, "override_check_accepts": acc, "predicted by the known mechanism": predicted})
            elif acc != all(directs):
                hier_corr.append({"input": payload, "override_check_accepts": acc, "Signature.can_assign per base": directs})
            if acc:
                fa = B.real_function(a)
                for e, m in zip(bases, ms):
                    bad = find_unsound_call(B.real_function(e), fa, e, a)
                    if bad is not None:
                        if special and not (m[0] and not m[2]):
                            # Signature.can_assign itself would have rejected (or it is the double-fill class):
                            # the unsound acceptance is the override route's, under the kind's guard
                            fid = "C07-classmethod-override-unchecked" if shape == "classmethod" else "C07-staticmethod-override-first-param"
                            if m[0] and m[2]:
                                fid = "C07-double-fill"
                            hist["known"][fid] = hist["known"].get(fid, 0) + 1
                            rep.known(fid, KNOWN_TEXT[fid])
                        elif m[0] and m[2]:
                            hist["known"]["C07-double-fill"] = hist["known"].get("C07-double-fill", 0) + 1
                            rep.known("C07-double-fill", KNOWN_TEXT["C07-double-fill"])
                        else:
                            failing.append((payload, f"override accepted (no incompatible_override); call with {bad[0]} positionals and keywords {bad[1]}", f"the base definition def m({B.header(e)}) binds the call, the override raises TypeError"))
                        break

    # ---- round 4: unions on the accepted side (every member must be acceptable) and on the expected side
    un_corr = []
    n_un = n_un_acc = n_un_mod = n_eun = 0
    un_other = {}
    if exe is not None and not replay or replay_union:
        groups = replay_union or gen_union_groups(rng, 1200 if not thorough else 8000)
        outs = iter(lib.ocaml_run(exe, [enc_pair(e, a) for e, members, _ in groups for a in members]))
        for e, members, with_none in groups:
            ms = [parse_model(next(outs)) for _ in members]
            model_acc = all(m[0] for m in ms) and not with_none
            r1, r2 = impl_union_accepts(e, members, with_none)
            n_un += 1
            n_un_acc += int(r1)
            payload = {"e": e, "union_members": members, "with_none": with_none,
                       "text": f"expected def f({B.header(e)})  <-  union of " + " | ".join(f"def g({B.header(a)})" for a in members) + (" | None" if with_none else "")}
            if r1 != model_acc or r2 != model_acc:
                un_corr.append({"input": payload, "model (every member accepted)": model_acc, "CallableValue.can_assign": r1, "KnownValue.can_assign": r2})
            if r1 or r2:
                fe = B.real_function(e)
                if with_none:
                    failing.append((payload, "accepted", "a member of the union is None, which is not callable"))
                for a, m in zip(members, ms):
                    bad = find_unsound_call(fe, B.real_function(a), e, a)
                    if bad is not None:
                        if m[0] and m[2]:
                            hist["known"]["C07-double-fill"] = hist["known"].get("C07-double-fill", 0) + 1
                            rep.known("C07-double-fill", KNOWN_TEXT["C07-double-fill"])
                        else:
                            failing.append((payload, f"union accepted; call with {bad[0]} positionals and keywords {bad[1]}", f"the expected signature binds the call, the member def g({B.header(a)}) raises TypeError"))
                        break
        if not replay:
            # expected side as a union: accepted iff some member accepts
            egroups = [(B.random_sig(rng, 3), None) for _ in range(400 if not thorough else 3000)]
            egroups = [([e0, mutate_sig(rng, e0) or B.random_sig(rng, 3)], (mutate_sig(rng, e0) if rng.random() < 0.7 else None) or B.random_sig(rng, 3)) for e0, _ in egroups]
            outs = iter(lib.ocaml_run(exe, [enc_pair(e, a) for es, a in egroups for e in es]))
            for es, a in egroups:
                ms = [parse_model(next(outs)) for _ in es]
                acc = impl_expected_union_accepts(es, a)
                n_eun += 1
                payload = {"expected_union": es, "a": a, "text": " | ".join(f"def f({B.header(e)})" for e in es) + f"  <-  def g({B.header(a)})"}
                if acc != any(m[0] for m in ms):
                    un_corr.append({"input": payload, "model (some member accepts)": any(m[0] for m in ms), "impl": acc})
                if acc:
                    fa = B.real_function(a)
                    if all(find_unsound_call(B.real_function(e), fa, e, a) is not None and not (m[0] and m[2]) for e, m in zip(es, ms)):
                        failing.append((payload, "accepted", "no member of the expected union is behaviourally satisfied by g"))
            # module route: Callable[[int]*n, object] with a conditional expression / branch-assigned variable
            items = []
            for e, members, with_none in groups[: 200 if not thorough else 1000]:
                n = rng.choice([0, 1, 2, 2, 3])
                items.append((n, members, with_none, len(items) % 2))
            for k in range(0, len(items), 100):
                chunk = items[k : k + 100]
                vs, other = run_union_argument_modules(chunk)
                for key, val in other.items():
                    un_other[key] = un_other.get(key, 0) + val
                for (n, members, with_none, form), ok in zip(chunk, vs):
                    n_un_mod += 1
                    each = [impl_callable_annotation(n, B.real_function(a)) for a in members]
                    want = all(each) and not with_none
                    payload = {"e": callable_expected_sig(n), "union_members": members, "with_none": with_none,
                               "text": f"use(<{'conditional expression' if form == 0 else 'variable assigned in branches'}>) for Callable[[{n} ints], object] over " + " | ".join(f"def g({B.header(a)})" for a in members) + (" | None" if with_none else "")}
                    if ok and not want:
                        bad_members = [a for a, okm in zip(members, each) if not okm]
                        culprit = next((a for a in bad_members if not B.cpython_binds(B.real_function(a), n, [])), None)
                        if with_none or culprit is not None:
                            failing.append((payload, "accepted (no incompatible_argument)", "a member of the union is None" if culprit is None else f"the member def g({B.header(culprit)}) raises TypeError when called with {n} positional arguments"))
                        else:
                            un_corr.append({"input": payload, "module accepts": ok, "every member accepted individually": want})
                    elif ok != want:
                        un_corr.append({"input": payload, "module accepts": ok, "every member accepted individually": want})

    # ---- return covariance through every kind of callable (the oracle calls the accepted object)
    nb_bad, nb_stats = nested_body_stream()
    for b in nb_bad:
        failing.append(({"callable": b["callable"], "expected_type": b["expected"], "text": f"nested callable `{b['callable']}` where {b['expected']} is expected"}, b["observed"], b["problem"]))
    rk_bad, rk_stats = return_kind_stream()
    for b in rk_bad:
        failing.append(({"callable": b["callable"], "expected_type": b["expected"], "text": f"{b['callable']} where {b['expected']} is expected"}, b["observed"], b["problem"]))

    # ---- verdicts
    for payload, obs, exp in failing[:10]:
        rep.violation({"kind": "failing-input", "input": payload, "observed": obs, "expected": exp, "how_to_run": "./check C07 --replay <this file>", "oracle": "CPython executes every call shape (<=3 positionals, <=3 keywords) against both functions"})
    found = bool(failing)
    if corr and not found:
        rep.violation({"kind": "broken-correspondence", "correspondence": "Binder.SigAssign.sca (kinds_ok) vs Signature.can_assign", **corr[0]}, no_failing_input=True)
    if tcorr and not found:
        rep.violation({"kind": "broken-correspondence", "correspondence": "Binder.SigAssign.sig_can_assign (obligation list) vs Signature.can_assign on typed signatures", **tcorr[0]}, no_failing_input=True)
    if ep_bad and not found:
        rep.violation({"kind": "broken-correspondence", "correspondence": "Signature.can_assign vs CallableValue.can_assign / KnownValue(function).can_assign", **ep_bad[0]}, no_failing_input=True)
    if ov_bad and not found:
        rep.violation({"kind": "broken-correspondence", "correspondence": "Signature.can_assign vs override check (incompatible_override)", **ov_bad[0]}, no_failing_input=True)
    if pr_bad and not found:
        rep.violation({"kind": "broken-correspondence", "correspondence": "Signature.can_assign vs protocol method compatibility (incompatible_argument)", **pr_bad[0]}, no_failing_input=True)
    if ca_corr and not found:
        rep.violation({"kind": "broken-correspondence", "correspondence": "SigAssign.sca with n unnamed positional-only parameters vs CallableValue from Callable[[...], R]", **ca_corr[0]}, no_failing_input=True)
    if ca_e2e_bad and not found:
        rep.violation({"kind": "broken-correspondence", "correspondence": "Callable[...] annotation: type_from_runtime route vs module diagnostics", **ca_e2e_bad[0]}, no_failing_input=True)
    if un_corr and not found:
        rep.violation({"kind": "broken-correspondence", "correspondence": "union on the accepted / expected side: model (all / some members) vs CallableValue / KnownValue / MultiValuedValue.can_assign and module diagnostics", **un_corr[0]}, no_failing_input=True)
    if hier_corr and not found:
        rep.violation({"kind": "broken-correspondence", "correspondence": "override check on class hierarchies (incompatible_override) vs Signature.can_assign against every definition in the MRO", **hier_corr[0]}, no_failing_input=True)
    if ov2_corr and not found:
        rep.violation({"kind": "broken-correspondence", "correspondence": "SigAssign.ov_kinds_ok (forall expected overload exists actual overload) vs can_assign on OverloadedSignature", **ov2_corr[0]}, no_failing_input=True)
    if broken_translation and not found:
        rep.violation({"kind": "broken-obligation", "theorem": "Gen/Kinds.v, Gen/BinderShape.v (translators harness/translate/kinds.py, binder.py)", "detail": broken_translation}, no_failing_input=True)
    if proof is not None and not proof.ok and not found:
        rep.violation({"kind": "broken-obligation", "theorem": "; ".join(proof.broken), "log": proof.log[-1500:]}, no_failing_input=True)
    for sb in spec_bad[:3]:
        rep.harness_error("specification PyBind.py_bind disagrees with CPython on " + json.dumps(sb))

    rep.coverage.update(
        evaluations=len(pairs) + len(typed) + n_spec + n_ep + n_ov + n_pr + n_ca + n_ca_e2e + n_ov2 + n_hier + n_un + n_eun + n_un_mod + nb_stats["checked"],
        distinct_nontrivial=len(distinct),
        rule="a case = (expected signature e, actual signature a): every def-expressible e with <=2 parameters x a sample (thorough: all) of the <=2-parameter signatures over names {a,b,c}; "
        "random e with <=5 parameters paired with an independent random a (1/4) or an edit of e (kind change, default flip, added optional/*args/**kwargs, dropped, renamed or swapped parameter); "
        "typed pairs over {bool,int,object,str}; distinct_nontrivial = distinct pairs with both signatures non-empty and different",
        samples=[{"pair": pair_text(e, a)} for e, a in pairs[:: max(1, len(pairs) // 5)][:5]],
        traces_validated_against_impl=len(pairs) + len(typed) - len(corr) - len(tcorr),
        input_distribution=hist,
        correspondence_mismatches=len(corr),
        typed_correspondence_mismatches=len(tcorr),
        property_failures=len(failing),
        accepted_pairs_checked_by_execution=n_calls,
        spec_vs_cpython_checked=n_spec,
        spec_vs_cpython_mismatches=len(spec_bad),
        entry_points_checked=n_ep,
        entry_point_mismatches=len(ep_bad),
        overrides_checked=n_ov,
        overrides_rejected=n_ov_rej,
        protocols_checked=n_pr,
        protocols_rejected=n_pr_rej,
        protocol_mismatches=len(pr_bad),
        protocol_other_codes=pr_other,
        callable_annotation_pairs=n_ca,
        callable_annotation_accepted=n_ca_acc,
        callable_annotation_mismatches=len(ca_corr),
        callable_ellipsis_checked=n_ellipsis,
        callable_annotation_modules=n_ca_e2e,
        callable_annotation_module_mismatches=len(ca_e2e_bad),
        callable_annotation_other_codes=ca_other,
        union_accepted_side_groups=n_un,
        union_accepted_side_accepted=n_un_acc,
        union_expected_side_groups=n_eun,
        union_argument_modules=n_un_mod,
        union_mismatches=len(un_corr),
        union_other_codes=un_other,
        nested_body_callables=nb_stats["callables"],
        nested_body_checks=nb_stats["checked"],
        nested_body_accepted=nb_stats["accepted"],
        nested_body_any_by_design=nb_stats.get("any_by_design", 0),
        return_kind_checks=rk_stats["checked"],
        return_kind_accepted=rk_stats["per_kind_accepted"],
        hierarchies_checked=n_hier,
        hierarchy_shapes=hier_hist,
        hierarchy_mismatches=len(hier_corr),
        hierarchy_other_codes=hier_other,
        overload_groups=n_ov2,
        overload_groups_accepted=n_ov2_acc,
        overload_mismatches=len(ov2_corr),
        override_mismatches=len(ov_bad),
        override_other_codes=ov_other,
        exhaustive=False,
    )
    rep.assumptions = [
        "CPython 3.12 is the oracle of binding (calls are executed)",
        "membership model of the typed half: issubclass on {bool,int,object,str}",
        "translator harness/translate/kinds.py; extraction (ExtrOcamlBasic) + ocaml/c07_driver.ml",
    ]
    return rep.finish(
        proof,
        "coq_makefile + make theories/Properties/C07.vo; coqc theories/Properties/C07.v (Print Assumptions)" + ("; coqchk -o" if thorough else ""),
        ["Coq 8.16.1 kernel (coqc; vm_compute in refutation lemmas/examples)", "translator harness/translate/kinds.py", "OCaml extraction (ExtrOcamlBasic) + ocaml/c07_driver.ml", "correspondence and oracle harness/c07.py (+ helpers of harness/c05.py)", "CPython 3.12 as binding oracle"],
    )
