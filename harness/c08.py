"""C08 — overload resolution follows first-match and distributes over unions.

proof      : Properties/C08.v over Overload/Resolve.v (hand model of OverloadedSignature.check_call,
             Signature.check_call_with_bound_args' parameter loop, _check_param_type_compatibility,
             decompose_union, _unite_rets) against the reference resolver of the docstring
tie        : correspondence — generated @overload modules are checked end to end by the real checker
             (reveal_type + diagnostics); the model is instantiated, per call, with what the real
             Signature.bind_arguments and can_assign_and_used_any say for every (bound parameter, member
             type) and must predict the end-to-end verdict
oracle     : independent reference resolver (docstring) over CPython's own binder (inspect.Signature.bind)
             and a hand-written subtype table of the small vocabulary
"""
from __future__ import annotations

import itertools
import json
import random
import re
import sys
import types
from pathlib import Path

import lib

PROP = "C08"
HERE = Path(__file__).resolve().parent

# ---------------------------------------------------------------------------
# vocabulary

ATOMS = ["int", "str", "bool", "None", "A", "B", "C", "list[int]", "float", "object", "Any", "Ellipsis", "LitA"]
# "Ellipsis" / "LitA": the literal `...` / `"a"` passed explicitly (KnownValue(Ellipsis) / KnownValue("a"))
LITERAL_SRC = {"Ellipsis": "...", "LitA": '"a"'}
DEFAULT_SRC = {True: "...", "dots": "...", "none": "None", "lita": '"a"'}
DEFAULT_ATOM = {True: "Ellipsis", "dots": "Ellipsis", "none": "None", "lita": "LitA"}
ARG_ATOMS = ["int", "str", "bool", "None", "A", "B", "C", "list[int]", "float"]
RETS = ["R1", "R2", "R3", "R4"]
CLEAN, VIA_ANY, FAIL = "Clean", "ViaAny", "Fail"

PRELUDE = """from types import EllipsisType
from typing import overload, Any, Union, Optional, Generic, TypeVar
T = TypeVar("T")
from typing_extensions import reveal_type
class A: pass
class B(A): pass
class C: pass
class R1: pass
class R2: pass
class R3: pass
class R4: pass
"""


def members(t):
    """TYPE := atom | ["U", [atoms]]  ->  list of atoms"""
    if isinstance(t, str):
        return [t]
    return list(t[1])


def is_union(t):
    return not isinstance(t, str)


TYPE_SRC = {"Ellipsis": "EllipsisType", "LitA": "str"}


def render_type(t):
    if t is None:
        return None
    if isinstance(t, str):
        return TYPE_SRC.get(t, t)
    return "Union[" + ", ".join(TYPE_SRC.get(m, m) for m in t[1]) + "]"


# ---------------------------------------------------------------------------
# rendering a group of cases as one module
#
# case    := {"overloads": [overload], "calls": [call]}
# overload:= {"params": [{"name", "kind": po|pk|va|ko|vk, "ann": TYPE|None, "default": bool}], "ret": "R1"}
# call    := {"pos": [TYPE], "kw": [[name, TYPE]], "star": TYPE|None, "dstar": TYPE|None}
#            (star / dstar: ELEMENT type of a `*s` / `**d` argument)


def render_params(params):
    out = []
    seen_po = False
    kinds = [p["kind"] for p in params]
    for i, p in enumerate(params):
        k = p["kind"]
        if k != "po" and seen_po:
            out.append("/")
            seen_po = False
        if k == "ko" and "va" not in kinds[:i] and "*" not in out:
            out.append("*")
        s = p["name"]
        if k == "va":
            s = "*" + s
        elif k == "vk":
            s = "**" + s
        if p.get("ann") is not None:
            s += ": " + render_type(p["ann"])
        if p.get("default"):
            s += " = " + DEFAULT_SRC[p["default"]]
        out.append(s)
        if k == "po":
            seen_po = True
    if seen_po:
        out.append("/")
    return ", ".join(out)


# receiver of the overloaded callable (round 5): "func" = module-level function f(...);
# "method" = inst.m(...) on a plain class; "generic" = inst.m(...) with inst: K[X] for class K(Generic[T]) whose
# overloads mix T-free parameters and parameters annotated T; "getitem" = inst[a]; "call" = inst(...)
METHOD_NAME = {"method": "m", "generic": "m", "getitem": "__getitem__", "call": "__call__"}


def recv_kind(case):
    return (case.get("recv") or {}).get("kind", "func")


def render_overloads(fname, overloads, recv=None):
    kind = (recv or {}).get("kind", "func")
    lines = []
    if kind == "func":
        ind, name, self_ = "", fname, ""
    else:
        lines.append(f"class K{fname}(Generic[T]):" if kind == "generic" else f"class K{fname}:")
        ind, name, self_ = "    ", METHOD_NAME[kind], "self"
    for ov in overloads:
        lines.append(ind + "@overload")
        ign = "  # static analysis: ignore[incompatible_default]" if any(p.get("default") in ("none", "lita") for p in ov["params"]) else ""
        ps = render_params(ov["params"])
        ps = ", ".join(x for x in (self_, ps) if x)
        lines.append(ind + f"def {name}({ps}) -> {ov['ret']}: ...{ign}")
    star = ", ".join(x for x in (self_, "*args", "**kwargs") if x)
    lines.append(ind + f"def {name}({star}): raise NotImplementedError")
    return lines


def subst_overloads(case):
    """the overloads as the call sees them: T replaced by the receiver's type argument"""
    recv = case.get("recv") or {}
    if recv.get("kind") != "generic":
        return case["overloads"]
    x = recv["targ"]

    def st(t):
        if t is None:
            return None
        if isinstance(t, str):
            return x if t == "T" else t
        return ["U", [x if m == "T" else m for m in t[1]]]

    return [{"params": [dict(p, ann=st(p["ann"])) for p in ov["params"]], "ret": ov["ret"]} for ov in case["overloads"]]


def render_call(fname, tname, call, recv=None):
    """one test function per call; returns (lines, line offset of the reveal_type call)"""
    kind = (recv or {}).get("kind", "func")
    ps = []
    args = []
    if kind == "generic":
        ps.append(f"inst: K{fname}[{render_type(recv['targ'])}]")
    elif kind != "func":
        ps.append(f"inst: K{fname}")
    for i, t in enumerate(call["pos"]):
        if isinstance(t, str) and t in LITERAL_SRC:
            args.append(LITERAL_SRC[t])  # the literal itself is passed
            continue
        ps.append(f"a{i}: {render_type(t)}")
        args.append(f"a{i}")
    for i, (k, t) in enumerate(call["kw"]):
        if isinstance(t, str) and t in LITERAL_SRC:
            args.append(f"{k}={LITERAL_SRC[t]}")
            continue
        ps.append(f"k{i}: {render_type(t)}")
        args.append(f"{k}=k{i}")
    if call.get("star") is not None:
        ps.append(f"s: tuple[{render_type(call['star'])}, ...]")
        args.append("*s")
    if call.get("dstar") is not None:
        ps.append(f"d: dict[str, {render_type(call['dstar'])}]")
        args.append("**d")
    if kind == "func":
        expr = f"{fname}({', '.join(args)})"
    elif kind == "getitem":
        expr = f"inst[{', '.join(args)}]"
    elif kind == "call":
        expr = f"inst({', '.join(args)})"
    else:
        expr = f"inst.m({', '.join(args)})"
    return [f"def {tname}({', '.join(ps)}):", f"    reveal_type({expr})"]


def render_module(cases):
    """-> (source, {(case index, call index): lineno of the call})"""
    lines = PRELUDE.splitlines()
    where = {}
    for ci, case in enumerate(cases):
        lines += render_overloads(f"f{ci}", case["overloads"], case.get("recv"))
        for ki, call in enumerate(case["calls"]):
            lines += render_call(f"f{ci}", f"t{ci}_{ki}", call, case.get("recv"))
            where[(ci, ki)] = len(lines)
    return "\n".join(lines) + "\n", where


# ---------------------------------------------------------------------------
# implementation side (runs in worker processes)

_MODCOUNT = [0]


def parse_revealed(desc):
    m = re.match(r"Revealed type is '(.*)'$", desc.strip(), flags=re.S)
    if not m:
        return ("?", desc)
    s = re.sub(r"<test input [0-9a-f]+>\.", "", m.group(1))
    s = re.sub(r"c08mod_\d+\.", "", s)
    if s == "Any[error]":
        return ("Err",)
    if s == "Any[multiple_overload_matches]":
        return ("AnyMulti",)
    parts = sorted(x.strip() for x in s.split(" | "))
    if all(p in RETS for p in parts):
        return ("Types", parts)
    return ("?", s)


def impl_end_to_end(cases):
    """Run the real checker on the rendered module.  -> {(ci,ki): {"revealed":…, "diag": [codes]}}"""
    import contextlib
    import io

    from pyanalyze.test_name_check_visitor import TestNameCheckVisitorBase

    src, where = render_module(cases)
    sink = io.StringIO()
    with contextlib.redirect_stderr(sink), contextlib.redirect_stdout(sink):
        errors = TestNameCheckVisitorBase()._run_str(src, fail_after_first=False)
    by_line = {}
    for e in errors:
        by_line.setdefault(int(e["lineno"]), []).append(e)
    out = {}
    for key, ln in where.items():
        revealed = None
        diag = []
        for e in by_line.get(ln, []):
            code = e["code"].name
            if code == "reveal_type":
                revealed = parse_revealed(e["description"])
            else:
                diag.append(code)
        out[key] = {"revealed": revealed, "diag": sorted(diag)}
    call_lines = set(where.values())
    other = sorted({(int(e["lineno"]), e["code"].name) for e in errors
                    if int(e["lineno"]) not in call_lines and e["code"].name != "unused_ignore"})
    return out, other, src


def impl_primitives(cases):
    """Instantiate the abstract functions of the model from the real code:
    for every overload of every case the real Signature, for every call the
    real bind_arguments result and, for every bound parameter, the real
    can_assign_and_used_any verdict for every member type of ATOMS."""
    from pyanalyze.checker import Checker
    from pyanalyze.signature import ARGS, DEFAULT, KWARGS, UNKNOWN, ActualArguments, OverloadedSignature, _CanAssignBasedContext
    from pyanalyze.stacked_scopes import Composite
    from pyanalyze.value import (
        AnySource,
        AnyValue,
        GenericValue,
        KnownValue,
        MultiValuedValue,
        SequenceValue,
        TypedDictEntry,
        TypedDictValue,
        TypedValue,
        can_assign_and_used_any,
    )

    _MODCOUNT[0] += 1
    name = f"c08mod_{_MODCOUNT[0]}"
    lines = PRELUDE.splitlines()
    for ci, case in enumerate(cases):
        if recv_kind(case) == "func":
            lines += render_overloads(f"f{ci}", case["overloads"])
    mod = types.ModuleType(name)
    sys.modules[name] = mod
    try:
        exec(compile("\n".join(lines) + "\n", name + ".py", "exec"), mod.__dict__)
        checker = Checker()
        ctx = _CanAssignBasedContext(checker)

        def atom_value(a):
            if a == "None":
                return KnownValue(None)
            if a == "Any":
                return AnyValue(AnySource.explicit)
            if a == "Ellipsis":
                return KnownValue(Ellipsis)
            if a == "LitA":
                return KnownValue("a")
            if a == "list[int]":
                return GenericValue(list, [TypedValue(int)])
            if a in ("A", "B", "C"):
                return TypedValue(getattr(mod, a))
            return TypedValue({"int": int, "str": str, "bool": bool, "float": float, "object": object}[a])

        avals = [atom_value(a) for a in ATOMS]

        def type_value(t):
            ms = members(t)
            if len(ms) == 1:
                return atom_value(ms[0])
            return MultiValuedValue([atom_value(m) for m in ms])

        def outcome(param_typ, val):
            ca, used = can_assign_and_used_any(param_typ, val, checker)
            if not isinstance(ca, dict):
                return FAIL
            return VIA_ANY if used else CLEAN

        result = {}
        for ci, case in enumerate(cases):
            if recv_kind(case) != "func":
                # overloaded method reached through a receiver: decided by the oracle only (no model instantiation)
                result[ci] = {"error": "receiver " + recv_kind(case)}
                continue
            sig = checker.arg_spec_cache.get_argspec(getattr(mod, f"f{ci}"))
            if not isinstance(sig, OverloadedSignature) or len(sig.signatures) != len(case["overloads"]):
                result[ci] = {"error": f"not an OverloadedSignature with {len(case['overloads'])} signatures: {sig}"}
                continue
            per_call = []
            for call in case["calls"]:
                npos = len(call["pos"])
                kwnames = [k for k, _ in call["kw"]]
                star_i = npos + len(kwnames)
                dstar_i = star_i + 1
                star_v = type_value(call["star"]) if call.get("star") is not None else None
                dstar_v = type_value(call["dstar"]) if call.get("dstar") is not None else None
                actual = ActualArguments(
                    positionals=[(True, Composite(type_value(t))) for t in call["pos"]],
                    star_args=star_v,
                    keywords={k: (True, Composite(type_value(t))) for k, t in call["kw"]},
                    star_kwargs=dstar_v,
                    kwargs_required=dstar_v is not None,
                    pos_or_keyword_params=set(),
                )
                sigs_out = []
                for s in sig.signatures:
                    ctx.errors.clear()
                    bound = s.bind_arguments(actual, ctx)
                    if bound is None:
                        sigs_out.append({"binds": False, "params": []})
                        continue
                    bps = []
                    oof = None
                    for pname, (position, composite) in bound.items():
                        param = s.parameters[pname]
                        ann = param.annotation
                        unann = isinstance(ann, AnyValue) and ann.source is AnySource.unannotated
                        if isinstance(position, int) and not isinstance(position, bool):
                            tbl = [CLEAN if unann else outcome(ann, v) for v in avals]
                            bps.append({"arg": position, "dec": True, "acc": tbl, "param": pname})
                        elif isinstance(position, str):
                            tbl = [CLEAN if unann else outcome(ann, v) for v in avals]
                            bps.append({"arg": npos + kwnames.index(position), "dec": True, "acc": tbl, "param": pname})
                        elif position is DEFAULT:
                            v = composite.value
                            if param.default is not None and v is param.default:
                                continue
                            if isinstance(v, SequenceValue) and not v.members:
                                continue
                            if isinstance(v, TypedDictValue) and not v.items:
                                continue
                            oof = f"DEFAULT position with value {v}"
                        elif composite.value is star_v and star_v is not None:
                            tbl = [CLEAN if unann else outcome(ann, v) for v in avals]
                            bps.append({"arg": star_i, "dec": False, "acc": tbl, "param": pname})
                        elif composite.value is dstar_v and dstar_v is not None:
                            tbl = [CLEAN if unann else outcome(ann, v) for v in avals]
                            bps.append({"arg": dstar_i, "dec": False, "acc": tbl, "param": pname})
                        elif position is ARGS and isinstance(composite.value, SequenceValue):
                            mem = composite.value.members
                            n_plain = sum(1 for many, _ in mem if not many)
                            for j in range(n_plain):
                                tbl = [CLEAN if unann else outcome(ann, SequenceValue(tuple, [(False, v)])) for v in avals]
                                bps.append({"arg": npos - n_plain + j, "dec": False, "acc": tbl, "param": pname})
                            if len(mem) > n_plain:
                                tbl = [CLEAN if unann else outcome(ann, SequenceValue(tuple, [(True, v)])) for v in avals]
                                bps.append({"arg": star_i, "dec": False, "acc": tbl, "param": pname})
                        elif position is KWARGS and isinstance(composite.value, TypedDictValue):
                            for key in composite.value.items:
                                tbl = [CLEAN if unann else outcome(ann, TypedDictValue({key: TypedDictEntry(v, required=True)})) for v in avals]
                                bps.append({"arg": npos + kwnames.index(key), "dec": False, "acc": tbl, "param": pname})
                        elif position is KWARGS and isinstance(composite.value, GenericValue) and dstar_v is not None:
                            # **kw parameter receiving the plain keywords and **d: one check of dict[str, union of all]
                            keys = [k for k in kwnames if k not in {b["param"] for b in bps if b["dec"]}]
                            oof = "**kwargs parameter fed from keywords and **d" if keys else None
                            tbl = [CLEAN if unann else outcome(ann, GenericValue(dict, [TypedValue(str), v])) for v in avals]
                            bps.append({"arg": dstar_i, "dec": False, "acc": tbl, "param": pname})
                        else:
                            oof = f"position {position} value {composite.value}"
                    sigs_out.append({"binds": True, "params": bps, "oof": oof})
                per_call.append(sigs_out)
            result[ci] = {"calls": per_call}
        return result
    finally:
        sys.modules.pop(name, None)


def worker(payload):
    """payload: (chunk id, [cases]) -> per case, per call: end-to-end verdict + primitive tables"""
    cid, cases = payload
    try:
        e2e, other, src = impl_end_to_end(cases)
        crash = None
    except Exception as ex:  # the checker itself raised
        e2e, other, src = {}, [], ""
        crash = repr(ex)
    prim = impl_primitives(cases)
    out = []
    for ci, case in enumerate(cases):
        calls = []
        for ki in range(len(case["calls"])):
            calls.append({"e2e": e2e.get((ci, ki)), "prim": (prim[ci]["calls"][ki] if "calls" in prim[ci] else None), "prim_error": prim[ci].get("error")})
        out.append(calls)
    return cid, out, other, crash


# ---------------------------------------------------------------------------
# independent oracle: CPython's binder + subtype table + the docstring's resolver

PROMOTES = {("bool", "int"), ("B", "A"), ("int", "float"), ("bool", "float"), ("LitA", "str"), ("Ellipsis", "EllipsisType")}


def sub_atom(m, t):
    """verdict of assigning member type m to parameter atom t (docstring: a match is "due to Any" when
    Any is on the right-hand side but not on the left-hand side)"""
    if t == "Any":
        return CLEAN
    if m == "Any":
        return VIA_ANY
    if t == "object" or m == t or (m, t) in PROMOTES:
        return CLEAN
    return FAIL


def sub(m, ann):
    if ann is None:
        return CLEAN
    alts = members(ann)
    if len(alts) == 1:
        return sub_atom(m, alts[0])
    if m == "Any":
        return VIA_ANY
    return CLEAN if any(sub_atom(m, a) == CLEAN for a in alts) else FAIL


def comb(a, b):
    if FAIL in (a, b):
        return FAIL
    if VIA_ANY in (a, b):
        return VIA_ANY
    return CLEAN


_PYFUNCS = {}


def py_bind(params, npos, kwnames):
    """CPython's own binder: which actual argument index goes to which parameter.
    -> None (TypeError) or [(param index, arg index)]"""
    key = render_params([{**p, "ann": None} for p in params])
    f = _PYFUNCS.get(key)
    if f is None:
        ns = {}
        exec(f"def f({key}): pass", ns)
        import inspect

        f = _PYFUNCS[key] = inspect.signature(ns["f"])
    try:
        ba = f.bind(*range(npos), **{k: npos + i for i, k in enumerate(kwnames)})
    except TypeError:
        return None
    idx = {p["name"]: i for i, p in enumerate(params)}
    out = []
    for name, v in ba.arguments.items():
        if isinstance(v, tuple):
            out += [(idx[name], a) for a in v]
        elif isinstance(v, dict):
            out += [(idx[name], a) for a in v.values()]
        else:
            out.append((idx[name], v))
    return out


def oracle_accepts(ov, call, tup):
    """tup: one member atom per actual argument (positionals then keywords)"""
    b = py_bind(ov["params"], len(call["pos"]), [k for k, _ in call["kw"]])
    if b is None:
        return FAIL
    r = CLEAN
    for pi, ai in b:
        r = comb(r, sub(tup[ai], ov["params"][pi]["ann"]))
    return r


def unite(anys, uanys, unions, clean):
    if anys or uanys:
        if len(set(anys)) == 1 and not unions and not uanys and clean is None:
            return ("Types", sorted(set(anys)))
        return ("AnyMulti",)
    rets = unions + ([clean] if clean is not None else [])
    return ("Types", sorted(set(rets)))


def oracle_resolve(overloads, call, tuples):
    """The docstring's algorithm on whole member tuples.  `tuples`: the member
    tuples of the call (one for a union-free call; the members of the single
    union substituted in turn otherwise)."""
    remaining = list(tuples)
    anys, uanys, unions = [], [], []
    for ov in overloads:
        outs = [oracle_accepts(ov, call, t) for t in remaining]
        if all(o != FAIL for o in outs):
            if any(o == VIA_ANY for o in outs):
                anys.append(ov["ret"])
            else:
                return unite(anys, uanys, unions, ov["ret"])
        elif any(o != FAIL for o in outs):
            matched = [o for o in outs if o != FAIL]
            remaining = [t for t, o in zip(remaining, outs) if o == FAIL]
            (uanys if VIA_ANY in matched else unions).append(ov["ret"])
    if anys:
        return unite(anys, uanys, unions, None)
    return ("Err",)


def call_types(call):
    return list(call["pos"]) + [t for _, t in call["kw"]]


def call_tuples(call):
    return [list(t) for t in itertools.product(*[members(t) for t in call_types(call)])]


def classify(call):
    ts = call_types(call)
    nun = sum(1 for t in ts if is_union(t))
    has_any = any("Any" in members(t) for t in ts)
    star = call.get("star") is not None or call.get("dstar") is not None
    return nun, has_any, star


# ---------------------------------------------------------------------------
# model side


def coq_sig(sg):
    ps = []
    for b in sg["params"]:
        ps.append(f"mkBP {b['arg']} {lib.cbool(b['dec'])} (tbl {lib.clist(b['acc'])})")
    return f"mkSig {lib.cbool(sg['binds'])} {lib.clist(ps)}"


def model_term(case, call, prim):
    sigs = []
    for ov, sg in zip(case["overloads"], prim):
        sigs.append(f"({coq_sig(sg)} {RETS.index(ov['ret'])})")
    args = [lib.clist([str(ATOMS.index(m)) for m in members(t)]) for t in call_types(call)]
    star = call.get("star")
    dstar = call.get("dstar")
    args.append(lib.clist([str(ATOMS.index(m)) for m in members(star)]) if star is not None else "[]")
    args.append(lib.clist([str(ATOMS.index(m)) for m in members(dstar)]) if dstar is not None else "[]")
    return f"resolve {lib.clist(sigs)} {lib.clist(args)}"


NAME_CODES = {"x": 1, "y": 2, "z": 3, "args": 4, "kw": 5, "k": 6, "w": 7, "a": 8, "extra": 9}
KIND_COQ = {"po": "PO", "pk": "POK", "va": "VP", "ko": "KO", "vk": "VK"}


def concrete_term(case, call, prim):
    """the same call with binding computed by the Coq binder model (Binder.Bind.bind) instead of being read
    off the real bind_arguments; only the per-parameter acceptance tables come from the implementation"""
    cos = []
    for ov, sg in zip(case["overloads"], prim):
        ps = lib.clist([f"mkParam {NAME_CODES[p['name']]}%N {KIND_COQ[p['kind']]} {lib.cbool(p['default'])}" for p in ov["params"]])
        tables = {}
        for b in sg["params"]:
            tables[NAME_CODES[b["param"]]] = b["acc"]
        rows = lib.clist([lib.clist(tables.get(i, [])) for i in range(10)])
        cos.append(f"(mkCO {ps} (fun n => tbl (nth (N.to_nat n) {rows} [])) {RETS.index(ov['ret'])})")
    star, dstar = call.get("star"), call.get("dstar")
    acts = (f"(mkActuals {lib.clist(['true'] * len(call['pos']))} {lib.cbool(star is not None)} "
            f"{lib.clist([f'({NAME_CODES[k]}%N, true)' for k, _ in call['kw']])} {lib.cbool(dstar is not None)} {lib.cbool(dstar is not None)})")
    args = [lib.clist([str(ATOMS.index(m)) for m in members(t)]) for t in call_types(call)]
    # the star / star-star arguments are numbered after the keywords (Overload.Concrete.bparams_of)
    args.append(lib.clist([str(ATOMS.index(m)) for m in members(star)]) if star is not None else "[]")
    args.append(lib.clist([str(ATOMS.index(m)) for m in members(dstar)]) if dstar is not None else "[]")
    return f"resolve_concrete {lib.clist(cos)} {acts} {lib.clist(args)}"


COQ_HEADER = (
    "From Coq Require Import List Bool Arith. Import ListNotations.\n"
    "From Coq Require Import NArith.\n"
    "Require Import PV.Binder.Kind PV.Binder.Sig PV.Binder.Bind PV.Overload.Resolve PV.Overload.Concrete.\n"
    "Definition tbl (l : list outcome) : member -> outcome := fun m => nth m l Fail.\n"
)


def same(a, b):
    return a[0] == b[0] and (a[0] != "Types" or list(a[1]) == list(b[1]))


def decode_model(r):
    if r == "RErr":
        return ("Err",)
    if r == "RAnyMulti":
        return ("AnyMulti",)
    if isinstance(r, tuple) and r[0] == "RTypes":
        return ("Types", sorted({RETS[i] for i in r[1]}))
    return ("?", repr(r))


# ---------------------------------------------------------------------------
# generator


def gen_type(rng, atoms, p_union):
    if rng.random() < p_union:
        k = rng.choice([2, 2, 2, 3])
        return ["U", rng.sample(atoms, k)]
    return rng.choice(atoms)


PARAM_ATOMS = ["int", "str", "bool", "None", "A", "B", "C", "list[int]", "float", "object", "Any", "EllipsisType"]
PARAM_WEIGHTS = [6, 5, 3, 3, 4, 3, 2, 2, 2, 2, 1, 1]
NAMES = ["x", "y", "z"]


def gen_param_type(rng):
    r = rng.random()
    if r < 0.07:
        return None
    if r < 0.22:
        return ["U", rng.sample(PARAM_ATOMS[:9], rng.choice([2, 2, 3]))]
    return rng.choices(PARAM_ATOMS, PARAM_WEIGHTS)[0]


def gen_overload(rng, arity, family, i):
    params = []
    n = arity
    if family == "arity":
        n = max(0, arity + rng.choice([-1, 0, 0, 1]))
    for j in range(min(n, 3)):
        kind = "pk"
        if family == "kinds":
            kind = rng.choice(["pk", "pk", "po", "ko"])
        params.append({"name": NAMES[j], "kind": kind, "ann": gen_param_type(rng), "default": False})
    # legal order: po* pk* [va] ko* [vk]
    order = {"po": 0, "pk": 1, "va": 2, "ko": 3, "vk": 4}
    params.sort(key=lambda p: order[p["kind"]])
    if family in ("arity", "kinds") and params and rng.random() < 0.35:
        # trailing defaults on the last non-keyword-only parameter(s)
        for p in reversed(params):
            if p["kind"] in ("pk", "po"):
                p["default"] = rng.choice(["dots", "dots", "dots", "none", "none", "lita"])
                break
    for p in params:
        if p["kind"] == "ko" and rng.random() < 0.3:
            p["default"] = rng.choice(["dots", "dots", "none", "lita"])
    if family == "variadic" or (family == "arity" and rng.random() < 0.15):
        r = rng.random()
        if r < 0.6:
            params.append({"name": "args", "kind": "va", "ann": gen_param_type(rng), "default": False})
        if r > 0.4:
            params.append({"name": "kw", "kind": "vk", "ann": gen_param_type(rng), "default": False})
        params.sort(key=lambda p: order[p["kind"]])
    ret = RETS[i] if rng.random() < 0.8 else rng.choice(RETS)
    return {"params": params, "ret": ret}


def gen_call(rng, overloads, mode):
    ov = rng.choice(overloads)
    names = [p["name"] for p in ov["params"] if p["kind"] in ("po", "pk", "ko")]
    npos_names = [p["name"] for p in ov["params"] if p["kind"] in ("po", "pk")]
    n = len(names)
    r = rng.random()
    if r < 0.12:
        n = max(0, n + rng.choice([-1, 1]))
    nargs = max(n, 0)
    if any(p["kind"] == "va" for p in ov["params"]) and rng.random() < 0.6:
        nargs += rng.choice([1, 2])
    nargs = min(nargs, 4)
    # argument types by mode; biased so that calls are often accepted: the type
    # for argument j is drawn from what parameter j of the target overload
    # (for unions: of several overloads) accepts
    SUBS = {"int": ["int", "bool"], "A": ["A", "B"], "float": ["float", "int"], "object": ARG_ATOMS, "Any": ARG_ATOMS,
            "EllipsisType": ["Ellipsis"], "str": ["str", "str", "LitA"]}

    def accepted_by(o, j):
        ps = [p for p in o["params"] if p["kind"] in ("po", "pk", "ko")]
        if j < len(ps):
            ann = ps[j]["ann"]
        else:
            var = [p for p in o["params"] if p["kind"] in ("va", "vk")]
            if not var:
                return []
            ann = var[0]["ann"]
        if ann is None:
            return list(ARG_ATOMS)
        out = []
        for m in members(ann):
            out += SUBS.get(m, [m])
        return [m for m in out if m in ARG_ATOMS or m in LITERAL_SRC]

    def default_literals(j):
        """the literal defaults that parameter j has in some overload, as argument atoms"""
        out = []
        for o in overloads:
            ps = [p for p in o["params"] if p["kind"] in ("po", "pk", "ko")]
            if j < len(ps) and ps[j].get("default"):
                out.append(DEFAULT_ATOM[ps[j]["default"]])
        return out

    def plain(j=None, o=None, literals=True):
        if literals and j is not None and rng.random() < 0.3:
            # pass exactly the literal that is some overload's default for this parameter
            lits = default_literals(j)
            if lits:
                return rng.choice(lits)
        if j is not None and rng.random() < 0.8:
            pool = accepted_by(o or ov, j)
            if not literals:
                pool = [m for m in pool if m not in LITERAL_SRC]
            if pool:
                return rng.choice(pool)
        return rng.choice(ARG_ATOMS)

    def union(j=None):
        k = rng.choice([2, 2, 3])
        ms = []
        tries = 0
        while len(ms) < k and tries < 20:
            tries += 1
            m = plain(j, rng.choice(overloads), literals=False)
            if m not in ms:
                ms.append(m)
        while len(ms) < 2:
            m = rng.choice(ARG_ATOMS)
            if m not in ms:
                ms.append(m)
        return ["U", ms]

    types_ = [plain(j) for j in range(nargs)]
    if nargs:
        if mode == "union1":
            j = rng.randrange(nargs)
            types_[j] = union(j)
        elif mode == "any":
            types_[rng.randrange(nargs)] = "Any"
        elif mode == "union_any" and nargs >= 2:
            i, j = rng.sample(range(nargs), 2)
            types_[i] = union(i)
            types_[j] = "Any"
        elif mode == "union2" and nargs >= 2:
            i, j = rng.sample(range(nargs), 2)
            types_[i] = union(i)
            types_[j] = union(j)
        elif mode == "anymember":
            u = union()
            u[1][rng.randrange(len(u[1]))] = "Any"
            types_[rng.randrange(nargs)] = u
    # split into positional / keyword
    npos = nargs
    kw = []
    if rng.random() < 0.3 and nargs:
        nk = rng.choice([1, 1, 2])
        nk = min(nk, nargs)
        npos = nargs - nk
        cand = [nm for nm in names[npos:]] or names
        knames = []
        for j in range(nk):
            pool = [c for c in (names[npos + j : npos + j + 1] or cand) if c not in knames] or [c for c in NAMES + ["k"] if c not in knames]
            knames.append(rng.choice(pool) if rng.random() < 0.9 else rng.choice([c for c in NAMES + ["w"] if c not in knames]))
        kw = [[k, t] for k, t in zip(knames, types_[npos:])]
    call = {"pos": types_[:npos], "kw": kw, "star": None, "dstar": None}
    if mode == "star":
        call["pos"] = call["pos"][: max(0, npos - 1)]
        call["kw"] = []
        call["star"] = union() if rng.random() < 0.7 else plain()
    elif mode == "dstar":
        call["pos"] = call["pos"][: max(0, npos - 1)]
        call["kw"] = []
        call["dstar"] = union() if rng.random() < 0.7 else plain()
    return call


MODES = ["plain"] * 28 + ["union1"] * 28 + ["any"] * 13 + ["union_any"] * 9 + ["union2"] * 9 + ["anymember"] * 3 + ["star"] * 6 + ["dstar"] * 4


def gen_case(rng, ncalls):
    family = rng.choice(["same", "same", "same", "arity", "arity", "kinds", "variadic"])
    nov = rng.choice([2, 2, 3, 3, 4])
    arity = rng.choice([1, 1, 2, 2, 2, 3])
    recv = None
    if rng.random() < 0.22:
        kind = rng.choice(["generic", "generic", "generic", "method", "getitem", "call"])
        recv = {"kind": kind, "targ": rng.choice(["int", "str", "A"]) if kind == "generic" else None}
        if family == "variadic":
            family = "same"
        if kind == "getitem":
            family, arity = "same", 1
    overloads = [gen_overload(rng, arity, family, i) for i in range(nov)]
    if recv is not None:
        for ov in overloads:  # no *args / **kw parameters behind a receiver (their finding needs the model)
            ov["params"] = [dict(p, kind="pk" if p["kind"] == "po" else p["kind"]) for p in ov["params"] if p["kind"] not in ("va", "vk")]
        if recv["kind"] == "getitem":
            for ov in overloads:
                ov["params"] = [dict(p, kind="pk", default=False) for p in ov["params"][:1]] or [{"name": "x", "kind": "pk", "ann": gen_param_type(rng), "default": False}]
        if recv["kind"] == "generic":
            # a mixed overload set: at least one overload independent of T and at least one using it
            idx = [i for i, ov in enumerate(overloads) if ov["params"]]
            if len(idx) >= 1:
                use = rng.sample(idx, max(1, min(len(idx), nov - 1, rng.choice([1, 1, 2]))))
                if len(use) == nov:
                    use = use[:-1]
                for i in use:
                    p = rng.choice(overloads[i]["params"])
                    p["ann"] = "T" if rng.random() < 0.7 else ["U", ["T", "None"]]
    if rng.random() < 0.25 and nov >= 2:
        # shadowed overload: a later overload repeats an earlier one's parameters
        i = rng.randrange(nov - 1)
        j = rng.randrange(i + 1, nov)
        overloads[j] = {"params": json.loads(json.dumps(overloads[i]["params"])), "ret": overloads[j]["ret"]}
    calls = []
    seen = set()
    tries = 0
    while len(calls) < ncalls and tries < ncalls * 6:
        tries += 1
        mode = rng.choice(MODES)
        if recv is not None and mode in ("star", "dstar"):
            continue
        c = gen_call(rng, subst_overloads({"overloads": overloads, "recv": recv}), mode)
        if recv is not None and recv["kind"] == "getitem":
            if not c["pos"]:
                continue
            c = {"pos": c["pos"][:1], "kw": [], "star": None, "dstar": None}
        k = json.dumps(c, sort_keys=True)
        if k in seen:
            continue
        seen.add(k)
        calls.append(c)
    return {"overloads": overloads, "calls": calls, "family": family, "recv": recv}


def gen_files():
    from translate import overload as tr_overload

    return {"OverloadGen.v": tr_overload.translate(str(lib.REPO))}


def changed_regions():
    """names of the pinned regions of signature.py whose digest differs from the committed one"""
    from translate import overload as tr_overload
    from translate import regions as tr_regions

    try:
        pins = tr_overload.pins(tr_regions.parse(str(lib.REPO), tr_overload.REL))
    except tr_regions.TranslateError as ex:
        return [str(ex)]
    txt = (lib.THEORIES / "Proofs" / "OverloadPins.v").read_text()
    out = []
    for name, (region, dg) in pins.items():
        m = re.search(r"Lemma %s_ok : %s = \"([0-9a-f]+)\"" % (name, name), txt)
        if not m or m.group(1) != dg:
            out.append(f"{name}: {region}")
    return out


# ---------------------------------------------------------------------------
# known findings


def union_into_variadic(case, call):
    """guard of finding C08-union-into-variadic: the call has exactly one union
    argument and in some overload that CPython binds, the union argument lands
    in a *args / **kwargs parameter."""
    ts = call_types(call)
    us = [i for i, t in enumerate(ts) if is_union(t)]
    if len(us) != 1:
        return False
    for ov in case["overloads"]:
        b = py_bind(ov["params"], len(call["pos"]), [k for k, _ in call["kw"]])
        if b is None:
            continue
        for pi, ai in b:
            if ai == us[0] and ov["params"][pi]["kind"] in ("va", "vk"):
                return True
    return False


# ---------------------------------------------------------------------------


def load_corpus():
    p = HERE / "corpus" / "C08.json"
    if p.exists():
        return json.loads(p.read_text())
    return []


def run(tier: str, replay: str | None = None):
    import concurrent.futures as cf

    rep = lib.Report(PROP, tier, "proof")
    rng = random.Random(lib.seed() * 8089 + 8)
    broken_translation = None
    try:
        gen = gen_files()
    except Exception as ex:  # TranslateError: the translated / pinned source no longer has the expected shape
        broken_translation = str(ex)
        gen = {}
    proof = lib.prove(PROP, gen, thorough=(tier == "thorough"))

    # 2. cases
    if replay:
        r = json.loads(Path(replay).read_text())
        c = r["input"]
        cases = [{"overloads": c["overloads"], "calls": [c["call"]] if "call" in c else c["calls"], "family": "replay", "recv": c.get("recv")}]
    else:
        cases = [dict(c, family="corpus") for c in load_corpus()]
        n_sets = 800 if tier == "quick" else 12000
        for _ in range(n_sets):
            cases.append(gen_case(rng, 8))

    # 3. implementation (end to end + primitives), in worker processes
    chunk = 25 if tier == "quick" else 50
    payloads = [(i, cases[i : i + chunk]) for i in range(0, len(cases), chunk)]
    results = {}
    stray = []
    crashes = []
    if len(payloads) == 1:
        outs = [worker(payloads[0])]
    else:
        with cf.ProcessPoolExecutor(max_workers=6) as ex:
            outs = list(ex.map(worker, payloads))
    for cid, out, other, crash in outs:
        for j, calls in enumerate(out):
            results[cid + j] = calls
        if other:
            stray.append((cid, other[:5]))
        if crash:
            crashes.append((cid, crash))

    # 4. model terms
    terms = []
    meta = []
    oof = 0
    for ci, case in enumerate(cases):
        for ki, call in enumerate(case["calls"]):
            res = results[ci][ki]
            prim = res["prim"]
            if prim is None or any(sg.get("oof") for sg in prim):
                oof += 1
                continue
            terms.append(model_term(case, call, prim))
            meta.append((ci, ki))
            if all(k in NAME_CODES for k, _ in call["kw"]):
                terms.append(concrete_term(case, call, prim))
                meta.append((ci, ki, "concrete"))
    model_ok = not any("build failed" in b for b in proof.broken)
    if not model_ok:
        # a pin / translation obligation / proof is broken: the search for a failing input goes on, and the model
        # itself is still used when its own files build (only Proofs/ and Properties/ depend on the broken part)
        model_ok, _ = lib.coq_make(["theories/Overload/Resolve.vo", "theories/Overload/Concrete.vo"], timeout=600)
    model = {}
    concrete = {}
    if model_ok and terms:
        try:
            vals = lib.coq_eval(COQ_HEADER, terms, name="c08", jobs=6)
            for k, v in zip(meta, vals):
                if len(k) == 3:
                    concrete[k[:2]] = decode_model(v)
                else:
                    model[k] = decode_model(v)
        except RuntimeError as ex:
            rep.violation({"kind": "broken-correspondence", "correspondence": "Overload.Resolve.resolve vs OverloadedSignature.check_call", "detail": str(ex)[-1500:]}, no_failing_input=True)

    # 5. verdicts
    failing = []  # (ci, ki, what, observed, expected)
    undecided = 0
    corr_binder = []
    known = []
    corr = []
    acc_mismatch = []
    hist = {"mode": {}, "impl_verdict": {}, "family": {}, "n_overloads": {}, "binding_overloads": {}, "oracle_verdict": {}, "result_types": {}}
    distinct = set()
    n_eval = 0
    samples = []

    def bump(h, k):
        hist[h][str(k)] = hist[h].get(str(k), 0) + 1

    for ci, case in enumerate(cases):
        bump("family", case.get("family", "?"))
        bump("n_overloads", len(case["overloads"]))
        for ki, call in enumerate(case["calls"]):
            n_eval += 1
            res = results[ci][ki]
            e2e = res["e2e"]
            nun, has_any, star = classify(call)
            mode = ("star" if star else f"unions={min(nun, 2)}") + (",any" if has_any else "")
            bump("mode", mode)
            if e2e is None or e2e["revealed"] is None:
                failing.append((ci, ki, "no reveal_type for the call (checker crashed?)", str(e2e), "a revealed type"))
                continue
            obs = tuple(e2e["revealed"])
            diag = e2e["diag"]
            bump("impl_verdict", obs[0])
            if "internal_error" in diag or obs[0] == "?":
                failing.append((ci, ki, "internal_error / unparseable type instead of a verdict", {"revealed": obs, "diag": diag}, "a type or a 'Cannot call overloaded function' diagnostic"))
                continue
            diagnosed = bool(diag)
            if diagnosed != (obs[0] == "Err"):
                failing.append((ci, ki, "diagnostic and revealed type disagree", {"revealed": obs, "diag": diag}, "Any[error] exactly when diagnosed"))
                continue
            # per-parameter acceptance: oracle table vs can_assign (validates the oracle's vocabulary table)
            prim = res["prim"]
            if prim is not None:
                bump("binding_overloads", sum(1 for sg in prim if sg["binds"]))
            if obs[0] == "Types":
                bump("result_types", f"{mode}:{len(obs[1])}")
            if prim is not None and not star:
                for ov, sg in zip(case["overloads"], prim):
                    b = py_bind(ov["params"], len(call["pos"]), [k for k, _ in call["kw"]])
                    if (b is not None) != sg["binds"]:
                        acc_mismatch.append((ci, ki, "bind", ov, b, sg["binds"]))
                        continue
                    if b is None or sg.get("oof"):
                        continue
                    byarg = {}
                    for bp in sg["params"]:
                        byarg.setdefault(bp["arg"], []).append(bp)
                    # hypotheses of the one-union theorems, checked on every instantiation
                    if any(len(v) > 1 for v in byarg.values()):
                        acc_mismatch.append((ci, ki, "binds_once", ov, None, [b["param"] for v in byarg.values() if len(v) > 1 for b in v]))
                    for pi, ai in b:
                        for bp in byarg.get(ai, []):
                            if bp["dec"] != (ov["params"][pi]["kind"] not in ("va", "vk")):
                                acc_mismatch.append((ci, ki, "decomposable", ov["params"][pi], ai, bp["dec"]))
                    for pi, ai in b:
                        bp = [x for x in byarg.get(ai, []) if x["param"] == ov["params"][pi]["name"]]
                        if len(bp) != 1:
                            acc_mismatch.append((ci, ki, "binding", ov, (pi, ai), [x["param"] for x in byarg.get(ai, [])]))
                            continue
                        for mi, a in enumerate(ATOMS):
                            if sub(a, ov["params"][pi]["ann"]) != bp[0]["acc"][mi]:
                                acc_mismatch.append((ci, ki, "accept", ov["params"][pi], a, bp[0]["acc"][mi]))
            # correspondence model vs implementation
            m = model.get((ci, ki))
            if m is not None:
                distinct.add(json.dumps([case["overloads"], call], sort_keys=True))
                if not same(m, obs):
                    corr.append((ci, ki, obs, m))
                cm = concrete.get((ci, ki))
                if cm is not None and not same(cm, obs):
                    corr_binder.append((ci, ki, obs, cm))
            # the property itself, against the independent oracle
            if star:
                continue
            tuples = call_tuples(call)
            if nun <= 1:
                want = oracle_resolve(subst_overloads(case), call, tuples)
                bump("oracle_verdict", want[0])
                if len(samples) < 6 and want[0] != "Err" and nun == 1:
                    samples.append({"overloads": [f"({render_params(o['params'])}) -> {o['ret']}" for o in case["overloads"]], "call": call, "impl": obs, "oracle": want})
                bad = None
                if not same(want, obs):
                    bad = ("verdict differs from the reference resolver", obs, want)
                elif nun == 1 and obs[0] == "Types":
                    # clause (b): the type contains the result of each member's own call
                    for t in tuples:
                        w1 = oracle_resolve(subst_overloads(case), call, [t])
                        if w1[0] == "Types" and not set(w1[1]) <= set(obs[1]):
                            bad = (f"type does not contain the result of member tuple {t}", obs, w1)
                            break
                        if w1[0] == "AnyMulti":
                            bad = (f"member tuple {t} alone is Any (several overloads match) but the call selects a type", obs, w1)
                            break
                if bad is not None:
                    # attribution: inside the guard of the finding AND the implementation behaves as the faithful model predicts
                    if nun == 1 and union_into_variadic(case, call) and m is not None and same(m, obs):
                        known.append(("C08-union-into-variadic", ci, ki))
                    elif (nun == 1 and union_into_variadic(case, call) and m is None and not model_ok
                          and obs[0] == "Err" and want[0] != "Err"):
                        # the model could not be evaluated; the deviation has the direction the finding predicts
                        undecided += 1  # inside the finding's guard, but the model could not be built: the broken obligation is reported instead
                    else:
                        failing.append((ci, ki) + bad)
            else:
                # several unions (outside the property's text): only accepted => every member tuple is accepted by some overload
                if obs[0] != "Err":
                    for t in tuples:
                        w1 = oracle_resolve(subst_overloads(case), call, [t])
                        if w1[0] == "Err":
                            failing.append((ci, ki, f"call accepted although no overload accepts member tuple {t}", obs, w1))
                            break

    def payload(ci, ki):
        case = cases[ci]
        return {"overloads": case["overloads"], "call": case["calls"][ki], "recv": case.get("recv"),
                "source": "\n".join(render_overloads("f", case["overloads"], case.get("recv")) + render_call("f", "t", case["calls"][ki], case.get("recv")))}

    findings = {f["id"]: f for f in lib.load_known_findings(PROP)["findings"]}
    for fid, ci, ki in known:
        if fid in findings:
            rep.known(fid, findings[fid]["what"])
        else:
            failing.append((ci, ki, f"unlisted finding {fid}", None, None))
    for ci, ki, what, obs, want in failing[:10]:
        rep.violation({"kind": "failing-input", "input": payload(ci, ki), "what": what, "observed": obs, "expected": want,
                       "oracle": "docstring resolver over inspect.Signature.bind + subtype table", "how_to_run": "./check C08 --replay <this file>"})
    found_input = bool(failing)
    if corr and not found_input:
        ci, ki, obs, m = corr[0]
        rep.violation({"kind": "broken-correspondence", "correspondence": "Overload.Resolve.resolve vs OverloadedSignature.check_call (end to end)",
                       "input": payload(ci, ki), "observed": obs, "model": m, "n_mismatches": len(corr)}, no_failing_input=True)
    if corr_binder and not found_input:
        ci, ki, obs, cm = corr_binder[0]
        rep.violation({"kind": "broken-correspondence", "correspondence": "Overload.Concrete.resolve_concrete (binding by Binder.Bind.bind) vs OverloadedSignature.check_call (end to end)",
                       "input": payload(ci, ki), "observed": obs, "model": cm, "n_mismatches": len(corr_binder)}, no_failing_input=True)
    if broken_translation and not found_input:
        rep.violation({"kind": "broken-obligation", "theorem": "Gen/OverloadGen.v (translator harness/translate/overload.py)", "detail": broken_translation}, no_failing_input=True)
    if not proof.ok and not found_input:
        rep.violation({"kind": "broken-obligation", "theorem": "; ".join(proof.broken), "changed_source_regions": changed_regions(),
                       "log": proof.log[-1500:]}, no_failing_input=True)
    for cid, crash in crashes[:3]:
        rep.violation({"kind": "broken-correspondence", "correspondence": "checker raised on a generated module", "detail": crash, "chunk": cid}, no_failing_input=True)
    if acc_mismatch:
        rep.harness_error(f"oracle vocabulary table disagrees with the implementation's binder / can_assign on {len(acc_mismatch)} entries, e.g. {acc_mismatch[0][2:]}")
    if stray:
        rep.harness_error(f"diagnostics outside the call lines: {stray[:2]}")

    rep.coverage.update(
        evaluations=n_eval,
        distinct_nontrivial=len(distinct),
        rule="a case = (overload set of 2-4 signatures, one call); counted when the model could be instantiated from the real binder/can_assign "
        "and compared with the end-to-end verdict; distinct = distinct (overloads, call) pairs",
        samples=samples[:5],
        traces_validated_against_impl=len(model) - len(corr),
        model_evaluated=len(model),
        concrete_binder_model_evaluated=len(concrete),
        concrete_binder_mismatches=len(corr_binder),
        out_of_fragment=oof,
        correspondence_mismatches=len(corr),
        oracle_failures=len(failing),
        known_finding_hits=len(known),
        undecided_without_model=undecided,
        input_distribution=hist,
        exhaustive=False,
    )
    rep.assumptions = [
        "per-(parameter, member) acceptance and argument binding are abstract in the model; instantiated per call from the real Signature.bind_arguments / can_assign_and_used_any",
        "oracle: CPython inspect.Signature.bind + hand-written subtype table of the vocabulary (validated against can_assign on every run)",
    ]
    return rep.finish(
        proof,
        "coq_makefile + make theories/Properties/C08.vo; coqc theories/Properties/C08.v (Print Assumptions)" + ("; coqchk -o" if tier == "thorough" else ""),
        ["Coq 8.16.1 kernel (coqc; vm_compute for model evaluation)", "correspondence + oracle harness/c08.py", "CPython inspect.Signature.bind as the binding oracle"],
    )
