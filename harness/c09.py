"""C09 — reaching definitions and (possibly) undefined names inside a function.

proof      : Properties/C09.v over Scopes/Analysis.v (model of FunctionScope's collecting phase as
             driven by name_check_visitor, repaired tree) and Scopes/Paths.v (strict path semantics)
tie        : correspondence Analysis.analyse  vs  reveal_type / (possibly_)undefined_name of the real
             checker on generated function skeletons (40 functions per module)
oracle     : independent structured dataflow (strict / liberal reaching definitions, class Flow) and
             instrumented execution of the skeletons under CPython with scripted conditions/exceptions
"""
from __future__ import annotations

import collections
import contextlib
import io
import json
import random
import re
from pathlib import Path

import lib
import c09_nested
import c09_cond

PROP = "C09"
UN = 0  # the "unbound" pseudo definition
EXC = -1  # pseudo definition: bound by `except ... as v` (all handlers alike)
EXCN = 999983  # the node that stands for EXC inside the Coq model
VARS = {"x": 1, "y": 2}

# ---------------------------------------------------------------------------
# skeletons
#
# stmt := ("assign", v) | ("use", v) | ("call",) | ("pass",) | ("return",) | ("raise",)
#       | ("break",) | ("continue",) | ("if", B, E) | ("while"|"for", B, E) | ("whiletrue", B)
#       | ("with", suppresses, B) | ("try", B, [H...], E, F)
# after numbering: ("assign", v, literal) and ("use", v, line)


def gen_block(rng, depth, in_loop, maxlen=3):
    return [gen_stmt(rng, depth, in_loop) for _ in range(rng.randint(1, maxlen))]


def gen_stmt(rng, depth, in_loop):
    leaf = ["assign"] * 4 + ["use"] * 3 + ["call", "pass", "return", "raise"]
    if in_loop:
        leaf += ["break", "continue"]
    comp = ["if"] * 3 + ["while", "for", "whiletrue", "try", "try", "with"]
    k = rng.choice(leaf if depth <= 0 else leaf + comp * 2)
    v = rng.choice("xy")
    if k in ("assign", "use"):
        return (k, v)
    if k in ("call", "pass", "return", "raise", "break", "continue"):
        return (k,)
    if k == "if":
        return ("if", gen_block(rng, depth - 1, in_loop), gen_block(rng, depth - 1, in_loop) if rng.random() < 0.6 else [])
    if k in ("while", "for"):
        return (k, gen_block(rng, depth - 1, True), gen_block(rng, depth - 1, in_loop) if rng.random() < 0.4 else [])
    if k == "whiletrue":
        return ("whiletrue", gen_block(rng, depth - 1, True))
    if k == "with":
        return ("with", rng.random() < 0.5, gen_block(rng, depth - 1, in_loop))
    nh = rng.choice([0, 1, 1, 2])
    fin = gen_block(rng, depth - 1, in_loop) if (rng.random() < 0.4 or nh == 0) else []
    return (
        "try",
        gen_block(rng, depth - 1, in_loop),
        [gen_block(rng, depth - 1, in_loop) for _ in range(nh)],
        gen_block(rng, depth - 1, in_loop) if (nh and rng.random() < 0.4) else [],
        fin,
    )


def tidy(block):
    """generator for the guarded fragment: nothing after a statement that leaves the block"""
    out = []
    for s in block:
        k = s[0]
        if k == "if":
            s = ("if", tidy(s[1]), tidy(s[2]))
        elif k in ("while", "for"):
            s = (k, tidy(s[1]), tidy(s[2]))
        elif k == "whiletrue":
            s = (k, tidy(s[1]))
        elif k == "with":
            s = (k, s[1], tidy(s[2]))
        elif k == "try":
            s = (k, tidy(s[1]), [tidy(h) for h in s[2]], tidy(s[3]), tidy(s[4]))
        out.append(s)
        if k in ("return", "raise", "break", "continue"):
            break
    return out


def subblocks(s):
    k = s[0]
    if k == "if":
        return [s[1], s[2]]
    if k in ("while", "for"):
        return [s[1], s[2]]
    if k in ("forlit", "fort"):
        return [s[-2], s[-1]]
    if k == "witht":
        return [s[-1]]
    if k == "ifw":
        return [s[-2], s[-1]]
    if k == "match":
        return list(s[1])
    if k == "whiletrue":
        return [s[1]]
    if k == "with":
        return [s[2]]
    if k == "try":
        return [s[1], *s[2], s[3], s[4]]
    return []


def extify(block, rng, mode="forlit"):
    """widen a skeleton.  mode "forlit": some for-loops become `for v in (K,):` (always entered, target
    bound to the literal K; outside the model grammar).  mode "targets": `for v in seql(K):` and
    `with cml(K) / supl(K) as v:` -- binding targets, inside the model (the target is an assignment at the
    start of the loop body / before the with block, exactly where visit_For / visit_withitem make it).
    mode "excas": `except Exception as v:` handlers (v bound to the exception on entry and unbound when
    the handler is left; outside the model grammar)."""
    out = []
    for s in block:
        k = s[0]
        if k == "if":
            s = ("if", extify(s[1], rng, mode), extify(s[2], rng, mode))
        elif k in ("while", "for"):
            b, e = extify(s[1], rng, mode), extify(s[2], rng, mode)
            if mode == "targets":
                s = ("fort", rng.choice("xy"), b, e) if rng.random() < 0.6 else (k, b, e)
            else:
                s = ("forlit", rng.choice("xy"), b, e) if rng.random() < 0.6 else (k, b, e)
        elif k == "whiletrue":
            s = (k, extify(s[1], rng, mode))
        elif k == "with":
            b = extify(s[2], rng, mode)
            s = ("witht", s[1], rng.choice("xy"), b) if (mode == "targets" and rng.random() < 0.6) else (k, s[1], b)
        elif k == "try":
            hs = [extify(h, rng, mode) for h in s[2]]
            if mode == "excas":
                hs = [[("excbind", rng.choice("xy"))] + h if rng.random() < 0.7 else h for h in hs]
            s = (k, extify(s[1], rng, mode), hs, extify(s[3], rng, mode), extify(s[4], rng, mode))
        out.append(s)
    return out


def desugar(block):
    """numbered skeleton -> numbered skeleton inside the model grammar, placing the bindings where the
    visitors make them: a loop target at the start of the loop body (visit_For visits node.target in both
    visits of the body), a with-as target before the with block (visit_withitem, outside the suppressing
    scope), an except-as name bound at the start of the handler and unbound after its body
    (visit_ExceptHandler).  `forlit` (always-entered loop) has no counterpart and is kept."""
    out = []
    for s in block:
        k = s[0]
        if k == "if":
            out.append((k, desugar(s[1]), desugar(s[2])))
        elif k in ("while", "for"):
            out.append((k, desugar(s[1]), desugar(s[2])))
        elif k == "fort":
            out.append(("for", [("assign", s[1], s[2])] + desugar(s[3]), desugar(s[4])))
        elif k == "forlit":
            out.append((k, s[1], s[2], desugar(s[3]), desugar(s[4])))
        elif k == "whiletrue":
            out.append((k, desugar(s[1])))
        elif k == "with":
            out.append((k, s[1], desugar(s[2])))
        elif k == "witht":
            out.append(("assign", s[2], s[3]))
            out.append(("with", s[1], desugar(s[4])))
        elif k == "ifw":  # the walrus binds before the test is decided
            out.append(("assign", s[1], s[2]))
            out.append(("if", desugar(s[3]), desugar(s[4])))
        elif k == "match":  # cases are tried in order; without a wildcard no case may match
            cases, wild = s[1], s[2]
            rest = desugar(cases[-1]) if wild else []
            for b in reversed(cases[:-1] if wild else cases):
                rest = [("if", desugar(b), rest)]
            out.extend(rest)
        elif k == "compbind":  # a comprehension binds its variable in its own scope
            out.append(("pass",))
        elif k == "try":
            hs = []
            for h in s[2]:
                if h and h[0][0] == "excbind":
                    hs.append([("assign", h[0][1], EXCN)] + desugar(h[1:]) + [("assign", h[0][1], UN)])
                else:
                    hs.append(desugar(h))
            out.append((k, desugar(s[1]), hs, desugar(s[3]), desugar(s[4])))
        else:
            out.append(s)
    return out


LEAF2 = ("compbind",)


def featurize(block, rng, nested):
    """add constructs that have their own scope or bind inside an expression: `if (v := K) == cond():`
    (walrus), match statements as branching, comprehensions that bind their own variable / read an
    enclosing one; with nested=True also class bodies reading an enclosing variable and calls of a nested
    function (defined first in the function) that reads an enclosing variable"""
    out = []
    for s in block:
        k = s[0]
        if k == "if":
            b, e = featurize(s[1], rng, nested), featurize(s[2], rng, nested)
            r = rng.random()
            if r < 0.3:
                s = ("ifw", rng.choice("xy"), b, e)
            elif r < 0.6:
                cases = [b] + ([featurize(gen_block(rng, 0, False), rng, nested)] if rng.random() < 0.5 else [])
                wild = bool(e)
                s = ("match", cases + ([e] if wild else []), wild)
            else:
                s = ("if", b, e)
        elif k in ("while", "for"):
            s = (k, featurize(s[1], rng, nested), featurize(s[2], rng, nested))
        elif k == "whiletrue":
            s = (k, featurize(s[1], rng, nested))
        elif k == "with":
            s = (k, s[1], featurize(s[2], rng, nested))
        elif k == "try":
            s = (k, featurize(s[1], rng, nested), [featurize(h, rng, nested) for h in s[2]], featurize(s[3], rng, nested), featurize(s[4], rng, nested))
        out.append(s)
        r = rng.random()
        if k not in ("return", "raise", "break", "continue"):
            if r < 0.12:
                out.append((rng.choice(LEAF2), rng.choice("xy")))
            elif nested and r < 0.18:
                out.append(("compuse", rng.choice("xy")))
            elif nested and r < 0.27:
                out.append(("classuse", rng.choice("xy")))
            elif nested and r < 0.45:
                out.append(("callinner",))
    return out


def has_kind(block, kinds_):
    return any(s[0] in kinds_ or any(has_kind(b, kinds_) for b in subblocks(s)) for s in block)


def in_model_grammar(block):
    return all(s[0] not in ("classuse", "compuse", "defuse", "callinner") and all(in_model_grammar(b) for b in subblocks(s)) for s in block)


def has_excbind(block):
    return any(s[0] == "excbind" or any(has_excbind(b) for b in subblocks(s)) for s in block)


def size(block):
    return sum(1 + sum(size(b) for b in subblocks(s)) for s in block)


def kinds(block, acc=None):
    acc = collections.Counter() if acc is None else acc
    for s in block:
        acc[s[0]] += 1
        for b in subblocks(s):
            kinds(b, acc)
    return acc


def number(block, ctr, ind, out, mode="analysis"):
    """Assign literals / line numbers; append source lines to `out`; return the numbered block.
    mode 'analysis': uses are reveal_type(v).  mode 'exec': uses are _use(line, locals())."""
    res = []
    pad = "    " * ind
    for s in block:
        k = s[0]
        if k == "assign":
            ctr[0] += 1
            out.append(f"{pad}{s[1]} = {ctr[0]}")
            res.append(("assign", s[1], ctr[0]))
        elif k == "use":
            ln = len(out) + 1
            if mode == "analysis":
                out.append(f"{pad}reveal_type({s[1]})")
            else:
                out.append(f"{pad}_use({ln}, _val(locals().get('{s[1]}', 0)))")
            res.append(("use", s[1], ln))
        elif k == "call":
            out.append(f"{pad}g()")
            res.append(s)
        elif k == "pass":
            out.append(f"{pad}pass")
            res.append(s)
        elif k == "return":
            out.append(f"{pad}return")
            res.append(s)
        elif k == "raise":
            out.append(f"{pad}raise ValueError")
            res.append(s)
        elif k in ("break", "continue"):
            out.append(f"{pad}{k}")
            res.append(s)
        elif k == "if":
            out.append(f"{pad}if cond():")
            b = number(s[1], ctr, ind + 1, out, mode)
            e = []
            if s[2]:
                out.append(f"{pad}else:")
                e = number(s[2], ctr, ind + 1, out, mode)
            res.append(("if", b, e))
        elif k in ("while", "for"):
            out.append(f"{pad}while cond():" if k == "while" else f"{pad}for _i in seq():")
            b = number(s[1], ctr, ind + 1, out, mode)
            e = []
            if s[2]:
                out.append(f"{pad}else:")
                e = number(s[2], ctr, ind + 1, out, mode)
            res.append((k, b, e))
        elif k == "excbind":
            res.append(s)  # rendered in the handler header
        elif k == "ifw":
            ctr[0] += 1
            lit = ctr[0]
            out.append(f"{pad}if ({s[1]} := {lit}) == cond():")
            b = number(s[2], ctr, ind + 1, out, mode)
            e = []
            if s[3]:
                out.append(f"{pad}else:")
                e = number(s[3], ctr, ind + 1, out, mode)
            res.append(("ifw", s[1], lit, b, e))
        elif k == "match":
            out.append(f"{pad}match sel():")
            cases = []
            for ci, b in enumerate(s[1]):
                last_wild = s[2] and ci == len(s[1]) - 1
                out.append(f"{pad}    case {'_' if last_wild else ci + 1}:")
                if not b:
                    out.append(f"{pad}        pass")
                cases.append(number(b, ctr, ind + 2, out, mode))
            res.append(("match", cases, s[2]))
        elif k == "compbind":
            out.append(f"{pad}_c = [0 for {s[1]} in (0,)]")
            res.append(s)
        elif k == "compuse":
            ln = len(out) + 1
            if mode == "analysis":
                out.append(f"{pad}_c = [reveal_type({s[1]}) for _k in (0,)]")
            else:
                out.append(f"{pad}_c = [_use({ln}, _val(_l.get('{s[1]}', 0))) for _l in (locals(),)]")
            res.append(("compuse", s[1], ln))
        elif k == "classuse":
            out.append(f"{pad}class _C{len(out) + 1}:")
            ln = len(out) + 1
            out.append(f"{pad}    reveal_type({s[1]})")
            res.append(("classuse", s[1], ln))
        elif k == "defuse":
            out.append(f"{pad}def _inner() -> None:")
            ln = len(out) + 1
            out.append(f"{pad}    reveal_type({s[1]})")
            res.append(("defuse", s[1], ln))
        elif k == "callinner":
            out.append(f"{pad}_inner()")
            res.append(s)
        elif k == "fort":
            ctr[0] += 1
            lit = ctr[0]
            out.append(f"{pad}for {s[1]} in seql({lit}):")
            b = number(s[-2], ctr, ind + 1, out, mode)
            e = []
            if s[-1]:
                out.append(f"{pad}else:")
                e = number(s[-1], ctr, ind + 1, out, mode)
            res.append(("fort", s[1], lit, b, e))
        elif k == "witht":
            ctr[0] += 1
            lit = ctr[0]
            out.append(f"{pad}with {'supl' if s[1] else 'cml'}({lit}) as {s[2]}:")
            b = number(s[-1], ctr, ind + 1, out, mode)
            res.append(("witht", s[1], s[2], lit, b))
        elif k == "forlit":
            ctr[0] += 1
            lit = ctr[0]
            out.append(f"{pad}for {s[1]} in ({lit},):")
            b = number(s[-2], ctr, ind + 1, out, mode)
            e = []
            if s[-1]:
                out.append(f"{pad}else:")
                e = number(s[-1], ctr, ind + 1, out, mode)
            res.append(("forlit", s[1], lit, b, e))
        elif k == "whiletrue":
            out.append(f"{pad}while True:" if mode == "analysis" else f"{pad}while _tick():")
            b = number(s[1], ctr, ind + 1, out, mode)
            res.append((k, b))
        elif k == "with":
            out.append(f"{pad}with {'sup' if s[1] else 'nosup'}():")
            b = number(s[2], ctr, ind + 1, out, mode)
            res.append((k, s[1], b))
        elif k == "try":
            out.append(f"{pad}try:")
            b = number(s[1], ctr, ind + 1, out, mode)
            hs = []
            for h in s[2]:
                if h and h[0][0] == "excbind":
                    out.append(f"{pad}except Exception as {h[0][1]}:")
                    if len(h) == 1:
                        out.append(f"{pad}    pass")
                else:
                    out.append(f"{pad}except Exception:")
                hs.append(number(h, ctr, ind + 1, out, mode))
            e = []
            f = []
            if s[3]:
                out.append(f"{pad}else:")
                e = number(s[3], ctr, ind + 1, out, mode)
            if s[4]:
                out.append(f"{pad}finally:")
                f = number(s[4], ctr, ind + 1, out, mode)
            res.append(("try", b, hs, e, f))
        else:
            raise ValueError(k)
    return res


def render(block, name="f", mode="analysis", global_x=False):
    """-> (numbered block, source lines of the function; use ids = 1-based line in this list)"""
    out = [f"def {name}():"]
    if global_x:
        out.append("    global x")
    nb = number(block, [0], 1, out, mode)
    return nb, out


PRELUDE = '''\
from typing import Generic, TypeVar
_T = TypeVar("_T")
gx = 0
def seql(x: _T) -> list[_T]: return []
class cml(Generic[_T]):
    def __init__(self, v: _T) -> None: self.v = v
    def __enter__(self) -> _T: return self.v
    def __exit__(self, *a: object) -> None: pass
class supl(Generic[_T]):
    def __init__(self, v: _T) -> None: self.v = v
    def __enter__(self) -> _T: return self.v
    def __exit__(self, *a: object) -> bool: return True
def cond() -> bool: return True
def seq() -> list[int]: return []
def g() -> None: pass
def sel() -> int: return 0
class sup:
    def __enter__(self) -> None: pass
    def __exit__(self, *a: object) -> bool: return True
class nosup:
    def __enter__(self) -> None: pass
    def __exit__(self, *a: object) -> None: pass
'''

# ---------------------------------------------------------------------------
# model term


def coq_block(block):
    out = "BNil"
    for s in reversed(block):
        if s[0] == "witht":  # the target is bound by visit_withitem, before the (suppressing) block
            out = f"(BCons (SAssign {VARS[s[2]]} {s[3]}) (BCons (SWith {lib.cbool(s[1])} {coq_block(s[4])}) {out}))"
        else:
            out = f"(BCons {coq_stmt(s)} {out})"
    return out


def coq_hs(hs):
    out = "HNil"
    for h in reversed(hs):
        out = f"(HCons {coq_block(h)} {out})"
    return out


def coq_stmt(s):
    k = s[0]
    if k == "assign":
        return f"(SAssign {VARS[s[1]]} {s[2]})"
    if k == "use":
        return f"(SUse {VARS[s[1]]} {s[2]})"
    if k in ("call", "pass", "return", "raise", "break", "continue"):
        return {"call": "SCall", "pass": "SPass", "return": "SReturn", "raise": "SRaise", "break": "SBreak", "continue": "SContinue"}[k]
    if k == "if":
        return f"(SIf {coq_block(s[1])} {coq_block(s[2])})"
    if k in ("while", "for"):
        return f"(SLoop LCond {coq_block(s[1])} {coq_block(s[2])})"
    if k == "fort":  # the target is bound at the start of every visit of the body
        return f"(SLoop LCond (BCons (SAssign {VARS[s[1]]} {s[2]}) {coq_block(s[3])}) {coq_block(s[4])})"
    if k == "forlit":  # always entered; the target is bound at the start of every visit of the body
        return f"(SLoop LAlways (BCons (SAssign {VARS[s[1]]} {s[2]}) {coq_block(s[3])}) {coq_block(s[4])})"
    if k == "whiletrue":
        return f"(SLoop LForever {coq_block(s[1])} BNil)"
    if k == "with":
        return f"(SWith {lib.cbool(s[1])} {coq_block(s[2])})"
    if k == "try":
        return f"(STry {coq_block(s[1])} {coq_hs(s[2])} {coq_block(s[3])} {coq_block(s[4])})"
    raise ValueError(k)


COQ_HEADER = "From Coq Require Import NArith List Bool. Import ListNotations. Open Scope N_scope.\nRequire Import PV.Scopes.Syntax PV.Scopes.Analysis PV.Scopes.Guards."


def model_run(blocks):
    """-> per block: ({use: set(nodes)}, lower_ok, upper_ok) computed by the Coq model"""
    terms = [f"(analyse {coq_block(b)}, lower_ok {coq_block(b)}, upper_ok {coq_block(b)})" for b in blocks]
    res = lib.coq_eval(COQ_HEADER, terms, name="c09", shard=120)
    out = []
    for r in res:
        pairs, lo, up = r
        d = collections.defaultdict(set)
        for u, n in pairs:
            d[u].add(EXC if n == EXCN else n)
        out.append((dict(d), lo, up))
    return out


# ---------------------------------------------------------------------------
# implementation


def impl_run(funcs):
    """funcs: list of source-line lists (one function each, all named differently).
    -> per function {use line: {"defs": set, "un": bool, "undef": bool, "poss": bool, "text": str}}"""
    from pyanalyze.test_name_check_visitor import TestNameCheckVisitorBase

    T = TestNameCheckVisitorBase()
    results = []
    CH = 40
    for i in range(0, len(funcs), CH):
        chunk = funcs[i : i + CH]
        lines = PRELUDE.rstrip("\n").split("\n")
        offs = []
        for f in chunk:
            offs.append(len(lines))
            lines.extend(f)
        src = "\n".join(lines) + "\n"
        err = io.StringIO()
        with contextlib.redirect_stderr(err), contextlib.redirect_stdout(err):
            errors = T._run_str(src, fail_after_first=False)
        per = [collections.defaultdict(lambda: {"defs": None, "un": False, "undef": False, "poss": False, "text": None}) for _ in chunk]
        starts = offs + [len(lines)]
        for e in errors:
            ln = e.get("lineno")
            code = e["code"].name
            if ln is None:
                continue
            idx = None
            for j in range(len(chunk)):
                if starts[j] < ln <= starts[j + 1]:
                    idx = j
                    break
            if idx is None:
                continue
            rec = per[idx][ln - starts[idx]]
            if code == "reveal_type":
                m = re.search(r"Revealed type is '(.*)'", e["description"])
                t = m.group(1) if m else e["description"]
                rec["text"] = t
                rec["un"] = "Any[error]" in t
                rec["defs"] = set(int(x) for x in re.findall(r"-?\d+", re.sub(r"Any\[\w+\]", "", t)))
                if re.search(r"\bException\b", t):
                    rec["defs"].add(EXC)
            elif code == "undefined_name":
                rec["undef"] = True
            elif code == "possibly_undefined_name":
                rec["poss"] = True
            elif code == "internal_error":
                rec["internal"] = e["description"][-400:]
        results.extend(dict(p) for p in per)
    return results


def impl_set(rec):
    """reported set of one use, as the property observes it"""
    if rec is None or rec.get("defs") is None:
        return None
    s = set(rec["defs"])
    if rec["undef"] or rec["poss"]:
        s.add(UN)
    return s


# ---------------------------------------------------------------------------
# independent oracle: structured reaching definitions, strict and liberal


def _join(a, b):
    if a is None:
        return b
    if b is None:
        return a
    ks = set(a) | set(b)
    return {k: frozenset(a.get(k, frozenset([UN])) | b.get(k, frozenset([UN]))) for k in ks}


def _joinall(envs):
    r = None
    for e in envs:
        r = _join(r, e)
    return r


OUTS = ("norm", "brk", "cont", "ret", "exc")


class Flow:
    """strict: exception edges only at calls/raise, `while True` left only by break.
    liberal: every statement of a try/with body may raise (before and after it), every loop may
    be left at its head after any number of iterations, bypassing the else clause."""

    def __init__(self, mode):
        self.mode = mode
        self.uses = collections.defaultdict(set)
        self.inner = None  # (variable, use line) of the nested function defined first in the body

    def block(self, blk, E, intry):
        res = {o: None for o in OUTS}
        cur = E
        for s in blk:
            if cur is None:
                break
            if self.mode == "liberal" and intry:
                res["exc"] = _join(res["exc"], cur)
            r = self.stmt(s, cur, intry)
            for o in OUTS[1:]:
                res[o] = _join(res[o], r[o])
            cur = r["norm"]
            if self.mode == "liberal" and intry and cur is not None:
                res["exc"] = _join(res["exc"], cur)
        res["norm"] = cur
        return res

    def stmt(self, s, E, intry):
        k = s[0]
        r = {o: None for o in OUTS}
        if k == "assign":
            E2 = dict(E)
            E2[s[1]] = frozenset([s[2]])
            r["norm"] = E2
        elif k == "use":
            self.uses[s[2]] |= E.get(s[1], frozenset([UN]))
            r["norm"] = E
        elif k == "pass":
            r["norm"] = E
        elif k == "call":
            r["norm"] = E
            r["exc"] = E
        elif k == "raise":
            r["exc"] = E
        elif k == "return":
            r["ret"] = E
        elif k == "break":
            r["brk"] = E
        elif k == "continue":
            r["cont"] = E
        elif k == "if":
            a = self.block(s[1], E, intry)
            b = self.block(s[2], E, intry)
            for o in OUTS:
                r[o] = _join(a[o], b[o])
        elif k in ("while", "for", "whiletrue"):
            body = s[1]
            orelse = s[2] if k != "whiletrue" else []
            H = E
            while True:
                b = self.block(body, H, intry)
                H2 = _joinall([H, b["norm"], b["cont"]])
                if H2 == H:
                    break
                H = H2
            b = self.block(body, H, intry)
            r["ret"] = b["ret"]
            r["exc"] = b["exc"]
            after = b["brk"]
            if k != "whiletrue" or self.mode == "liberal":
                e = self.block(orelse, H, intry)
                after = _join(after, e["norm"])
                for o in ("brk", "cont", "ret", "exc"):
                    r[o] = _join(r[o], e[o])
            if self.mode == "liberal":
                after = _join(after, H)
            r["norm"] = after
        elif k == "ifw":
            E2 = dict(E)
            E2[s[1]] = frozenset([s[2]])
            r = self.stmt(("if", s[3], s[4]), E2, intry)
        elif k == "match":
            cases, wild = s[1], s[2]
            rest = cases[-1] if wild else []
            for b in reversed(cases[:-1] if wild else cases):
                rest = [("if", b, rest)]
            r = self.block(rest, E, intry)
        elif k == "compbind":
            r["norm"] = E
        elif k in ("compuse", "classuse"):
            self.uses[s[2]] |= E.get(s[1], frozenset([UN]))
            r["norm"] = E
        elif k == "defuse":
            self.inner = (s[1], s[2])
            r["norm"] = E
        elif k == "callinner":
            if self.inner is not None:
                self.uses[self.inner[1]] |= E.get(self.inner[0], frozenset([UN]))
            r["norm"] = E
            r["exc"] = E
        elif k == "excbind":
            E2 = dict(E)
            E2[s[1]] = frozenset([EXC])
            r["norm"] = E2
        elif k == "fort":
            r = self.stmt(("for", [("assign", s[1], s[2])] + s[3], s[4]), E, intry)
        elif k == "witht":
            E2 = dict(E)
            E2[s[2]] = frozenset([s[3]])
            r = self.stmt(("with", s[1], s[4]), E2, intry)
        elif k == "forlit":
            # for v in (K,): -- exactly one round in CPython (strict); the liberal reading treats it
            # like any loop (any number of rounds, zero included) whose head binds v to K
            _, v, lit, body, orelse = s
            bind = lambda env: {**env, v: frozenset([lit])}
            if self.mode == "strict":
                b = self.block(body, bind(E), intry)
                r["ret"] = b["ret"]
                r["exc"] = b["exc"]
                after = b["brk"]
                H = _joinall([b["norm"], b["cont"]])
                if H is not None:
                    e = self.block(orelse, H, intry)
                    after = _join(after, e["norm"])
                    for o in ("brk", "cont", "ret", "exc"):
                        r[o] = _join(r[o], e[o])
                r["norm"] = after
            else:
                H = E
                while True:
                    b = self.block(body, bind(H), intry)
                    H2 = _joinall([H, b["norm"], b["cont"]])
                    if H2 == H:
                        break
                    H = H2
                b = self.block(body, bind(H), intry)
                r["ret"] = b["ret"]
                r["exc"] = b["exc"]
                e = self.block(orelse, H, intry)
                r["norm"] = _joinall([b["brk"], e["norm"], H])
                for o in ("brk", "cont", "ret", "exc"):
                    r[o] = _join(r[o], e[o])
        elif k == "with":
            b = self.block(s[2], E, True)
            for o in OUTS:
                r[o] = b[o]
            if self.mode == "liberal":
                r["exc"] = _join(r["exc"], E)
                b = dict(b)
                b["exc"] = r["exc"]
            if s[1] and b["exc"] is not None:
                r["norm"] = _join(r["norm"], b["exc"])
        elif k == "try":
            _, body, hs, orelse, final = s
            prot = intry or bool(final)
            b = self.block(body, E, True)
            outs = {o: None for o in OUTS}
            for o in ("brk", "cont", "ret"):
                outs[o] = b[o]
            if b["norm"] is not None:
                e = self.block(orelse, b["norm"], prot)
                for o in OUTS:
                    outs[o] = _join(outs[o], e[o])
            if b["exc"] is not None:
                for h in hs:
                    hr = self.block(h, b["exc"], prot)
                    if h and h[0][0] == "excbind":  # the name is unbound when the handler is left, however it is left
                        hr = {o: (None if hr[o] is None else {**hr[o], h[0][1]: frozenset([UN])}) for o in OUTS}
                    for o in OUTS:
                        outs[o] = _join(outs[o], hr[o])
                outs["exc"] = _join(outs["exc"], b["exc"])
            if final:
                for o in OUTS:
                    if outs[o] is None:
                        continue
                    f = self.block(final, outs[o], intry)
                    r[o] = _join(r[o], f["norm"])
                    for o2 in ("brk", "cont", "ret", "exc"):
                        r[o2] = _join(r[o2], f[o2])
            else:
                r = outs
        return r


def dataflow(blk, mode):
    f = Flow(mode)
    f.block(blk, {}, False)
    return f.uses


# ---------------------------------------------------------------------------
# instrumented execution under CPython (validates the strict / liberal specs)

EXEC_PRELUDE = '''\
class _Stop(BaseException): pass
def _tick():
    _S["steps"] += 1
    if _S["steps"] > 60:
        _S["stopped"] = True
        raise _Stop()
    return True
def _next():
    _tick()
    s = _S["script"]; i = _S["i"]; _S["i"] = i + 1
    return s[i % len(s)] if s else 0
def cond(): return bool(_next() & 1)
def seq(): return [0] * (_next() % 3)
def seql(k): return [k] * (_next() % 3)
class cml:
    def __init__(self, v): self.v = v
    def __enter__(self): return self.v
    def __exit__(self, t, v, tb): return None
class supl(cml):
    def __exit__(self, t, v, tb): return t is not None and issubclass(t, Exception)
def g():
    if _next() & 1: raise ValueError("scripted")
def sel(): return _next() % 4
def _val(v): return v if isinstance(v, int) else -1
def _use(line, val):
    if not _S["stopped"]: _S["seen"].add((line, val))
class sup:
    def __enter__(self): pass
    def __exit__(self, t, v, tb): return t is not None and issubclass(t, Exception)
class nosup:
    def __enter__(self): pass
    def __exit__(self, t, v, tb): return None
'''


def executed_pairs(block, rng, nscripts):
    """Run the skeleton under CPython with scripted conditions / iteration counts / exceptions.
    -> set of (use line, definition literal or 0 when unbound) actually observed."""
    nb, lines = render(block, "f", mode="exec")
    ns = {}
    state = {"steps": 0, "script": [], "i": 0, "seen": set(), "stopped": False}
    ns["_S"] = state
    exec(EXEC_PRELUDE + "\n".join(lines) + "\n", ns)
    for _ in range(nscripts):
        state["steps"] = 0
        state["i"] = 0
        state["stopped"] = False
        state["script"] = [rng.randrange(0, 6) for _ in range(rng.randint(1, 12))]
        try:
            ns["f"]()
        except BaseException:
            pass
    return nb, state["seen"]


# ---------------------------------------------------------------------------
# decidable guards (mirrors of Scopes/Guards.v; the Coq booleans are the reference and are
# evaluated for every case, these exist only to describe classes in messages)

LOWER_FINDINGS = {
    "C09-nested-function-read": "a nested function (or class body) that reads a variable of the enclosing function sees the definitions current at its def statement and at the end of the enclosing function only; a definition current when the function is called in between is missing",
    "C09-except-as-jump": "break/continue out of an `except E as v` handler from inside a nested statement: the loop exit scope recorded at the jump keeps v bound to the exception although Python unbinds v on the way out",
    "C09-dead-code-after-break": "a statement follows break/continue in its block: the dead code rewrites the scope already registered as a loop exit, so a definition live at the break is lost after the loop",
}
UPPER_FINDING = ("C09-imprecise-reaching", "definitions reported that reach the use along no path (second collecting visit of a loop body starts from the state after the loop; dead-code assignments reach handlers; finally block visited on a path that cannot continue)")


def jumps_last(block):
    for i, s in enumerate(block):
        if sets_ll(s) and i < len(block) - 1:
            return False
        if not all(jumps_last(b) for b in subblocks(s)):
            return False
    return True


def sets_ll(s):
    if s[0] in ("break", "continue"):
        return True
    if s[0] == "with" and not s[1]:
        return any(sets_ll(t) for t in s[2])
    if s[0] == "witht" and not s[1]:
        return any(sets_ll(t) for t in s[-1])
    if s[0] == "try":  # the finally block is visited (the second time) in the current dict
        return any(sets_ll(t) for t in s[4])
    return False


def free_jump(block):
    for s in block:
        k = s[0]
        if k in ("break", "continue"):
            return True
        if k in ("while", "for"):
            if free_jump(s[2]):
                return True
        elif k in ("forlit", "fort"):
            if free_jump(s[-1]):
                return True
        elif k == "whiletrue":
            pass
        elif any(free_jump(b) for b in subblocks(s)):
            return True
    return False


def no_jump_through_finally(block):
    for s in block:
        if s[0] == "try" and s[4]:
            if free_jump(s[1]) or any(free_jump(h) for h in s[2]) or free_jump(s[3]) or free_jump(s[4]):
                return False
        if not all(no_jump_through_finally(b) for b in subblocks(s)):
            return False
    return True


def py_can_complete(s):
    k = s[0]
    if k in ("return", "raise", "break", "continue"):
        return False
    if k == "if":
        return py_cc_b(s[1]) or py_cc_b(s[2])
    if k == "whiletrue":
        return False
    if k == "with":
        return py_cc_b(s[2]) or bool(s[1])
    if k == "witht":
        return py_cc_b(s[-1]) or bool(s[1])
    if k == "try":
        return ((py_cc_b(s[1]) and py_cc_b(s[3])) or any(py_cc_b(h) for h in s[2])) and py_cc_b(s[4])
    return True


def py_cc_b(block):
    return all(py_can_complete(s) for s in block)


def py_upper_ok(block):
    """mirror of Guards.upper_ok (forlit counts as a loop that may run zero times; the Coq value is
    the reference wherever the program is inside the model grammar)"""
    for i, s in enumerate(block):
        k = s[0]
        if k in ("break", "continue", "whiletrue", "forlit"):
            return False
        if k in ("while", "for", "forlit", "fort") and s[-1]:
            return False
        if k == "try" and (s[4] or not (py_cc_b(s[1]) or not s[3])):
            return False
        if not all(py_upper_ok(b) for b in subblocks(s)):
            return False
        if not py_can_complete(s) and i < len(block) - 1:
            return False
    return True


def excas_inner_jump(block):
    """a break/continue of an enclosing loop inside an `except ... as v` handler, other than as the last
    statement of the handler body: the scope recorded at the jump keeps v bound"""
    for s in block:
        if s[0] == "try":
            for h in s[2]:
                if h and h[0][0] == "excbind":
                    body = h[1:]
                    if body and body[-1][0] in ("break", "continue"):
                        body = body[:-1]
                    if free_jump(body):
                        return True
        if any(excas_inner_jump(b) for b in subblocks(s)):
            return True
    return False


def lower_class(block):
    if excas_inner_jump(block):
        return "C09-except-as-jump"
    block = desugar(block)
    if not jumps_last(block):
        return "C09-dead-code-after-break"
    return None


# ---------------------------------------------------------------------------


def gen_files():
    from translate import scopes as tr_scopes

    return {"Scopes.v": tr_scopes.translate(str(lib.REPO))}


def load_corpus():
    p = lib.VERIF / "harness" / "corpus" / "C09.json"
    if not p.exists():
        return []
    return [to_block(x) for x in json.loads(p.read_text())]


def to_block(j):
    """JSON (lists) -> tuple form"""
    out = []
    for s in j:
        k = s[0]
        if k in ("assign", "use"):
            out.append((k, s[1]))
        elif k == "if":
            out.append((k, to_block(s[1]), to_block(s[2])))
        elif k in ("while", "for"):
            out.append((k, to_block(s[1]), to_block(s[2])))
        elif k in ("forlit", "fort"):
            out.append((k, s[1], to_block(s[-2]), to_block(s[-1])))
        elif k == "witht":
            out.append((k, bool(s[1]), s[2], to_block(s[-1])))
        elif k in ("excbind", "compbind", "compuse", "classuse", "defuse"):
            out.append((k, s[1]))
        elif k == "ifw":
            out.append((k, s[1], to_block(s[-2]), to_block(s[-1])))
        elif k == "match":
            out.append((k, [to_block(b) for b in s[1]], bool(s[2])))
        elif k == "whiletrue":
            out.append((k, to_block(s[1])))
        elif k == "with":
            out.append((k, bool(s[1]), to_block(s[2])))
        elif k == "try":
            out.append((k, to_block(s[1]), [to_block(h) for h in s[2]], to_block(s[3]), to_block(s[4])))
        else:
            out.append((k,))
    return out


def strip_ids(block):
    out = []
    for s in block:
        k = s[0]
        if k in ("assign", "use"):
            out.append((k, s[1]))
        elif k == "if":
            out.append((k, strip_ids(s[1]), strip_ids(s[2])))
        elif k in ("while", "for"):
            out.append((k, strip_ids(s[1]), strip_ids(s[2])))
        elif k in ("forlit", "fort"):
            out.append((k, s[1], strip_ids(s[-2]), strip_ids(s[-1])))
        elif k == "witht":
            out.append((k, s[1], s[2], strip_ids(s[-1])))
        elif k in ("excbind", "compbind", "compuse", "classuse", "defuse"):
            out.append((k, s[1]))
        elif k == "ifw":
            out.append((k, s[1], strip_ids(s[-2]), strip_ids(s[-1])))
        elif k == "match":
            out.append((k, [strip_ids(b) for b in s[1]], s[2]))
        elif k == "whiletrue":
            out.append((k, strip_ids(s[1])))
        elif k == "with":
            out.append((k, s[1], strip_ids(s[2])))
        elif k == "try":
            out.append((k, strip_ids(s[1]), [strip_ids(h) for h in s[2]], strip_ids(s[3]), strip_ids(s[4])))
        else:
            out.append((k,))
    return out


def small_exhaustive(limit):
    """all blocks of 2-3 statements built from a fixed menu of small shapes (deterministic order)"""
    A, U = ("assign", "x"), ("use", "x")
    menu = [
        [A], [U], [("call",)], [("return",)],
        [("if", [A], [])], [("if", [A], [A])], [("if", [("return",)], [A])],
        [("while", [U, A], [])], [("while", [A, ("if", [("break",)], [])], [A])], [("for", [("if", [("continue",)], []), A], [U])],
        [("whiletrue", [U, A, ("if", [("break",)], [])])], [("whiletrue", [("if", [A, ("break",)], [])])],
        [("with", True, [A, ("call",), A])], [("with", False, [A, ("call",)])], [("with", True, [A, ("return",)])],
        [("try", [A, ("call",), A], [[U]], [], [])], [("try", [A, ("call",)], [[A]], [A], [])],
        [("try", [A, ("call",)], [], [], [U])], [("try", [("call",), A], [[("raise",)]], [], [A])],
        [("while", [("try", [A, ("call",), ("break",)], [[("continue",)]], [], [])], [])],
        [("while", [("with", True, [A, ("break",)]), ("return",)], [])],
        [("try", [("call",)], [], [], [("try", [A, ("call",), A], [[("pass",)]], [], [])])],
    ]
    out = []
    for a in menu:
        for b in menu:
            out.append(a + b + [U])
            if len(out) >= limit:
                return out
    return out


def run(tier: str, replay: str | None = None):
    rep = lib.Report(PROP, tier, "proof")
    rng = random.Random(lib.seed() * 104729 + 9)
    broken_translation = None
    try:
        gen = gen_files()
    except Exception as ex:  # TranslateError or a source file that no longer parses
        broken_translation = f"{type(ex).__name__}: {ex}"
        gen = None
    proof = lib.prove(PROP, gen, thorough=(tier == "thorough"))

    # ---- cases
    blocks = []
    origin = []
    if replay:
        r = json.loads(Path(replay).read_text())
        if "skeleton" in r["input"]:
            blocks.append(to_block(r["input"]["skeleton"]))
            origin.append("replay")
    else:
        for b in load_corpus():
            blocks.append(b)
            origin.append("corpus")
        n_rand, n_tidy, n_small = (700, 700, 220) if tier == "quick" else (7000, 7000, 484)
        n_ext = 240 if tier == "quick" else 2500
        for b in small_exhaustive(n_small):
            blocks.append(b)
            origin.append("small")
        for i in range(n_rand):
            blocks.append(gen_block(rng, rng.choice([1, 2, 2, 3, 3]), False))
            origin.append("random")
        for i in range(n_tidy):
            blocks.append(tidy(gen_block(rng, rng.choice([2, 3, 3, 4]), False, maxlen=4)))
            origin.append("tidy")
        for i in range(n_ext // 4):
            blocks.append(gen_block(rng, rng.choice([2, 3]), False))
            origin.append("global")
        for i in range(n_ext):
            b = gen_block(rng, rng.choice([2, 3, 3]), False)
            if i % 2:
                b = tidy(b)
            blocks.append(extify(b, rng))
            origin.append("ext")
        for i in range(n_ext):
            b = gen_block(rng, rng.choice([2, 3, 3]), False)
            if i % 2:
                b = tidy(b)
            blocks.append(extify(b, rng, "targets"))
            origin.append("targets")
        for i in range(n_ext // 3):
            b = gen_block(rng, rng.choice([2, 3]), False)
            blocks.append(extify(tidy(b) if i % 2 else b, rng, "excas"))
            origin.append("excas")
        for i in range(n_ext // 2):
            b = gen_block(rng, rng.choice([2, 3, 3]), False)
            blocks.append(featurize(tidy(b) if i % 2 else b, rng, False))
            origin.append("syntax2")
        for i in range(n_ext // 2):
            b = gen_block(rng, rng.choice([2, 3]), False)
            b = featurize(tidy(b) if i % 2 else b, rng, True)
            blocks.append([("defuse", rng.choice("xy"))] + b)
            origin.append("nested")

    numbered = []
    funcs = []
    for i, b in enumerate(blocks):
        nb, lines = render(b, f"f{i}", global_x=(origin[i] == "global"))
        if origin[i] == "global":  # the declared-global variable is called gx in the source
            lines = [re.sub(r"\bx\b", "gx", ln) for ln in lines]
        numbered.append(nb)
        funcs.append(lines)

    # ---- implementation
    impl = impl_run(funcs)

    # ---- model (Coq)
    model = None
    model_ok = proof is not None and not any("build failed" in x for x in proof.broken)
    try:
        lib.coq_make(["theories/Scopes/Guards.vo"])
        in_model = [in_model_grammar(nb) and origin[i] != "global" for i, nb in enumerate(numbered)]
        sub = model_run([desugar(nb) for nb, ok in zip(numbered, in_model) if ok])
        it = iter(sub)
        model = [next(it) if ok else None for ok in in_model]
    except RuntimeError as ex:
        rep.violation({"kind": "broken-correspondence", "correspondence": "Scopes.Analysis.analyse vs NameCheckVisitor (reveal_type, undefined_name, possibly_undefined_name)", "detail": str(ex)[-1500:]}, no_failing_input=True)

    # ---- oracle + verdicts
    def payload(i, use, extra):
        d = {"skeleton": strip_ids(numbered[i]), "source": funcs[i], "use_line": use}
        d.update(extra)
        return d

    n_uses = 0
    corr_mismatch = []
    failing = []  # (i, use, kind, observed, expected)
    known_seen = collections.Counter()
    hist = {"origin": collections.Counter(origin), "size": collections.Counter(), "kinds": collections.Counter(), "verdict": collections.Counter(),
            "lower_guard": collections.Counter(), "upper_guard": collections.Counter(), "reported_set_size": collections.Counter()}
    distinct = set()
    spec_errors = []
    exec_pairs_total = 0
    exec_strict_realised = 0
    strict_total = 0
    for i, nb in enumerate(numbered):
        hist["size"][min(size(nb), 20)] += 1
        kinds(nb, hist["kinds"])
        strict = dataflow(nb, "strict")
        liberal = dataflow(nb, "liberal")
        has_model = model is not None and model[i] is not None
        lclass = lower_class(nb)
        if has_model:
            m_uses, lo_ok, up_ok = model[i]
        else:  # outside the model grammar: oracle only, python mirrors of the guards
            m_uses, lo_ok, up_ok = {}, lclass is None, py_upper_ok(desugar(nb))
            hist["verdict"]["use outside the model grammar (bounds only)"] += len(list(all_uses(nb)))
        hist["lower_guard"][str(lo_ok)] += 1
        hist["upper_guard"][str(up_ok)] += 1
        if has_model and bool(up_ok) != py_upper_ok(desugar(nb)):
            rep.harness_error(f"Coq upper_ok={up_ok} but python mirror disagrees on {strip_ids(nb)}")
        if has_model and jumps_last(desugar(nb)) != bool(lo_ok):
            rep.harness_error(f"Coq lower_ok={lo_ok} but python class={lclass} on {strip_ids(nb)}")
        use_lines = [s for s in all_uses(nb)]
        if use_lines and size(nb) >= 3:
            distinct.add(repr(strip_ids(nb)))
        # spec validation by execution (a sample of programs)
        if (i % (4 if tier == "quick" else 2) == 0) and use_lines and origin[i] not in ("global", "nested"):
            try:
                _, seen = executed_pairs(strip_ids(nb), rng, 24)
            except SyntaxError:
                seen = set()
            exec_pairs_total += len(seen)
            for (u, d) in seen:
                if d not in strict.get(u, set()):
                    spec_errors.append(("executed pair not in strict set", i, u, d))
                if d not in liberal.get(u, set()):
                    spec_errors.append(("executed pair not in liberal set", i, u, d))
            for u in use_lines:
                strict_total += len(strict.get(u, ()))
                exec_strict_realised += len([d for d in strict.get(u, ()) if (u, d) in seen])
        var_of = dict(uses_with_vars(nb))
        nested_lines = set(nested_use_lines(nb))
        for u in use_lines:
            n_uses += 1
            rec = impl[i].get(u)
            if origin[i] == "global":
                # `global x` at the top of the function, the module defines x: x is not a local, so no
                # flow-dependent diagnostic may appear for it; y stays an ordinary local but the
                # reference analysis is not run for these functions (bounds checked elsewhere)
                hist["verdict"]["use in a function declaring `global x`"] += 1
                if var_of[u] == "x" and rec is not None and (rec["undef"] or rec["poss"]):
                    failing.append((i, u, "a name declared global (and defined by the module) is reported (possibly) undefined", str(rec.get("text")), "no undefined_name / possibly_undefined_name"))
                continue
            got = impl_set(rec)
            s_ = set(strict.get(u, set()))
            l_ = set(liberal.get(u, set()))
            nested_use = u in nested_lines
            if nested_use:
                # a read of an enclosing variable from a class body or from a nested function (which runs
                # when it is called): the definitions current at those points must be reported; the
                # unbound state is not demanded there (the checker cannot know when the function runs)
                s_.discard(UN)
                hist["verdict"]["read from a class body / nested function"] += 1
            if not s_ <= l_:
                spec_errors.append(("strict not within liberal", i, u, sorted(s_ - l_)))
            if got is None:
                failing.append((i, u, "no reveal_type diagnostic for a use", str(rec), "a reveal_type diagnostic"))
                continue
            hist["reported_set_size"][min(len(got), 6)] += 1
            hist["verdict"]["undefined" if rec["undef"] else "possibly" if rec["poss"] else "defined"] += 1
            # internal consistency of the two observation channels
            if rec["undef"] and rec["defs"]:
                failing.append((i, u, "undefined_name together with definitions", rec["text"], "no literal"))
            if (rec["poss"] or rec["undef"]) != rec["un"]:
                failing.append((i, u, "diagnostic and revealed Any[error] disagree", rec["text"], f"undef={rec['undef']} poss={rec['poss']}"))
            # correspondence
            if has_model:
                mset = m_uses.get(u, set())
                if mset != got:
                    corr_mismatch.append((i, u, sorted(got), sorted(mset)))
            # the property itself on the implementation
            if not s_ <= got and nested_use:
                known_seen["C09-nested-function-read"] += 1
            elif not s_ <= got:
                if lclass is not None and (not has_model or m_uses.get(u, set()) == got):
                    known_seen[lclass] += 1
                else:
                    failing.append((i, u, "lower bound: a definition that reaches the use along a strict path is not reported", sorted(got), {"strict": sorted(s_), "missing": sorted(s_ - got)}))
            if not l_:
                hist["verdict"]["use unreachable even in the liberal CFG (upper bound not applicable)"] += 1
            elif not got <= l_ and nested_use:
                known_seen[UPPER_FINDING[0]] += 1
            elif not got <= l_:
                if up_ok is not None and not up_ok and (not has_model or m_uses.get(u, set()) == got):
                    known_seen[UPPER_FINDING[0]] += 1
                else:
                    failing.append((i, u, "upper bound: a reported definition reaches the use along no liberal path", sorted(got), {"liberal": sorted(l_), "extra": sorted(got - l_)}))

    # ---- nested functions with nonlocal / global declarations (oracle stream, see c09_nested.py)
    nested_progs = []
    if replay:
        r_in = json.loads(Path(replay).read_text())["input"]
        if "nested_program" in r_in:
            nested_progs = [c09_nested.rename(r_in["nested_program"], 0)]
    else:
        cp = lib.VERIF / "harness" / "corpus" / "C09_nested.json"
        if cp.exists():
            for k, pr in enumerate(json.loads(cp.read_text())):
                nested_progs.append(c09_nested.rename(pr, len(nested_progs)))
        n_nested = 110 if tier == "quick" else 1500
        while len(nested_progs) < n_nested:
            pr = c09_nested.gen_program(rng, len(nested_progs))
            if c09_nested.valid(pr, len(nested_progs)):
                nested_progs.append(pr)
    nested_fail, nested_known, nested_uses, nested_src = c09_nested.run_stream(nested_progs, impl_run) if nested_progs else ([], {}, 0, [])
    n_uses += nested_uses
    hist["verdict"]["use in the nested-function / nonlocal / global stream"] = nested_uses
    for fid, n in nested_known.items():
        known_seen[fid] += n
    for (i, ln, what, observed, expected) in nested_fail[:6]:
        rep.violation({"kind": "failing-input", "input": {"nested_program": c09_nested.unname(nested_progs[i], i), "source": nested_src[i], "use_line": ln},
                       "what": what, "observed": observed, "expected": expected, "how_to_run": "./check C09 --replay <this file>",
                       "oracle": "Python's symtable (which variable a name denotes) and execution under CPython for every script of the opaque conditions (harness/c09_nested.py)"})

    # ---- conditions that mention the tracked variable (oracle stream, see c09_cond.py)
    cond_progs = []
    if replay:
        r_in = json.loads(Path(replay).read_text())["input"]
        if "cond_program" in r_in:
            cond_progs = [r_in["cond_program"]]
    else:
        cp = lib.VERIF / "harness" / "corpus" / "C09_cond.json"
        if cp.exists():
            cond_progs += json.loads(cp.read_text())
        n_cond = 130 if tier == "quick" else 1500
        while len(cond_progs) < n_cond:
            cond_progs.append(c09_cond.gen_program(rng))
    cond_fail, cond_uses, cond_src = c09_cond.run_stream(cond_progs, impl_run) if cond_progs else ([], 0, [])
    n_uses += cond_uses
    hist["verdict"]["use in the conditions-on-the-variable stream"] = cond_uses
    for (i, ln, what, observed, expected) in cond_fail[:6]:
        rep.violation({"kind": "failing-input", "input": {"cond_program": cond_progs[i], "source": cond_src[i], "use_line": ln},
                       "what": what, "observed": observed, "expected": expected, "how_to_run": "./check C09 --replay <this file>",
                       "oracle": "execution under CPython for every script of the opaque calls (harness/c09_cond.py)"})

    for (i, u, what, observed, expected) in failing[:10]:
        rep.violation({"kind": "failing-input", "input": payload(i, u, {}), "what": what, "observed": observed, "expected": expected,
                       "how_to_run": "./check C09 --replay <this file>", "oracle": "independent strict/liberal reaching definitions (class Flow in harness/c09.py)"})
    found_input = bool(failing) or bool(nested_fail) or bool(cond_fail)
    if corr_mismatch and not found_input:
        i, u, got, mset = corr_mismatch[0]
        rep.violation({"kind": "broken-correspondence", "correspondence": "Scopes.Analysis.analyse vs NameCheckVisitor (reveal_type, undefined_name, possibly_undefined_name)",
                       "input": payload(i, u, {}), "observed": got, "model": mset}, no_failing_input=True)
    if broken_translation and not found_input:
        rep.violation({"kind": "broken-obligation", "theorem": "Gen/Scopes.v (translator harness/translate/scopes.py)", "detail": broken_translation}, no_failing_input=True)
    if proof is not None and not proof.ok and not found_input:
        rep.violation({"kind": "broken-obligation", "theorem": "; ".join(proof.broken), "log": proof.log[-1500:]}, no_failing_input=True)
    for m in spec_errors[:5]:
        rep.harness_error("spec validation: " + repr(m) + " source=" + json.dumps(funcs[m[1]]))
    for fid, n in sorted(known_seen.items()):
        text = LOWER_FINDINGS.get(fid) or c09_nested.FINDINGS.get(fid) or UPPER_FINDING[1]
        rep.known(fid, f"{text} [{n} uses in this run]")

    samples = []
    for i in range(min(3, len(numbered))):
        j = len(numbered) - 1 - i
        samples.append({"source": funcs[j], "impl": {str(k): sorted(impl_set(v) or []) for k, v in impl[j].items() if v.get("defs") is not None}})
    rep.coverage.update(
        evaluations=n_uses,
        distinct_nontrivial=len(distinct),
        rule="a case is one variable use inside a generated function skeleton (random nestings of assign/use/call/return/raise/break/continue/if/while/for/while True/"
        "with (suppressing or not)/try-except-else-finally, depth <= 4; a guarded stream without dead code; a fixed menu of small shapes); "
        "distinct_nontrivial = distinct skeletons with >= 3 statements and >= 1 use, each compared use by use: model set == implementation set, strict <= implementation <= liberal",
        samples=samples,
        traces_validated_against_impl=n_uses - len(corr_mismatch),
        input_distribution={k: dict(v) for k, v in hist.items()},
        correspondence_mismatches=len(corr_mismatch),
        property_failures=len(failing) + len(nested_fail) + len(cond_fail),
        cond_stream={"programs": len(cond_progs), "uses": cond_uses},
        nested_stream={"programs": len(nested_progs), "uses": nested_uses, "known": dict(nested_known)},
        known_finding_uses=dict(known_seen),
        spec_validation={"executed_pairs": exec_pairs_total, "executed_outside_strict_or_liberal": len(spec_errors),
                         "strict_pairs_checked": strict_total, "strict_pairs_realised_by_execution": exec_strict_realised},
        programs=len(numbered),
        exhaustive=False,
    )
    rep.assumptions = [
        "generated skeletons use two variables, int-literal assignments, opaque call conditions; nested functions, global/nonlocal, del, match, async and comprehension scopes are outside the model",
        "the strict/liberal reference analysis (class Flow) is the property's reading of the CFG; it is validated by executing the skeletons under CPython with scripted conditions",
    ]
    return rep.finish(
        proof,
        "coq_makefile + make theories/Properties/C09.vo; coqc theories/Properties/C09.v (Print Assumptions)" + ("; coqchk -o" if tier == "thorough" else ""),
        ["Coq 8.16.1 kernel (coqc; vm_compute for model evaluation and the witness lemmas)", "correspondence + oracle harness/c09.py", "CPython 3.12 as execution oracle for the path semantics"],
    )


def nested_use_lines(block):
    for s in block:
        if s[0] in ("classuse", "compuse", "defuse"):
            yield s[2]
        for b in subblocks(s):
            yield from nested_use_lines(b)


def uses_with_vars(block):
    for s in block:
        if s[0] in ("use", "compuse", "classuse", "defuse"):
            yield s[2], s[1]
        for b in subblocks(s):
            yield from uses_with_vars(b)


def all_uses(block):
    for s in block:
        if s[0] in ("use", "compuse", "classuse", "defuse"):
            yield s[2]
        for b in subblocks(s):
            yield from all_uses(b)
