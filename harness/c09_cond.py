"""C09 — oracle stream for conditions that mention the tracked variable.

The main streams use opaque conditions only (`if cond():`), so the narrowing machinery
(constraints attached to definitions, `_add_single_constraint`, constraints remembered in a bool
variable) never interacts with the reaching-definitions bookkeeping there.  Here the conditions
are comparisons / isinstance / truthiness / membership tests on the tracked int-literal variables,
used directly (`if x == 1:`) or stored in a flag first (`p = x == 1 ... if p:`), negated and
combined with and/or and with opaque calls, and the variables are reassigned on some paths between
the condition and the use (if branches, while bodies, except handlers).

Reference (no model): execution under CPython for every script of the opaque calls (`cond()`
outcomes, `call()` raising or not); conditions on the variables evaluate for real; an unbound read
raises NameError exactly as in Python.  Demanded per use (lower bound of C09): every value some
execution observes at the use is among the literals the checker reports there; an execution that
finds the name unbound there is reported as undefined / possibly undefined.  Narrowing *precision*
is not demanded (the checker may report more).
"""
from __future__ import annotations

import itertools
import re

UN = 0
VARS = ("x", "y")
FLAGS = ("p", "q")

# stmt := ["assign", v, K] | ["flag", f, COND] | ["use", v] | ["call"] | ["if", COND, B, E]
#       | ["while", COND, B] | ["try", B, H]
# COND := ["cmp", v, op, K] | ["in", v, [K...]] | ["isint", v] | ["truthy", v] | ["flagref", f] | ["opaque"]
#       | ["not", COND] | ["and", COND, COND] | ["or", COND, COND]


def gen_cond(rng, st, depth=1, need_opaque=False):
    if need_opaque:
        inner = gen_cond(rng, st, depth)
        return ["and", inner, ["opaque"]] if inner != ["opaque"] and rng.random() < 0.6 else ["opaque"]
    r = rng.random()
    if depth > 0 and r < 0.25:
        k = rng.choice(["not", "and", "or"])
        if k == "not":
            return ["not", gen_cond(rng, st, depth - 1)]
        return [k, gen_cond(rng, st, depth - 1), gen_cond(rng, st, depth - 1)]
    v = rng.choice(VARS)
    hi = max(2, st["n"] + 1)
    r = rng.random()
    if r < 0.40:
        return ["cmp", v, rng.choice(["==", "!=", "<", ">", "<=", ">=", "=="]), rng.randint(1, hi)]
    if r < 0.48:
        return ["in", v, sorted({rng.randint(1, hi), rng.randint(1, hi)})]
    if r < 0.53:
        return ["isint", v]
    if r < 0.58:
        return ["truthy", v]
    if r < 0.80 and st["flags"]:
        return ["flagref", rng.choice(sorted(st["flags"]))]
    return ["opaque"]


def gen_block(rng, st, depth, in_handler=False):
    out = []
    for _ in range(rng.randint(1, 3)):
        r = rng.random()
        if r < 0.28:
            st["n"] += 1
            out.append(["assign", rng.choice(VARS), st["n"]])
        elif r < 0.42:
            f = rng.choice(FLAGS)
            out.append(["flag", f, gen_cond(rng, st)])
            st["flags"].add(f)
        elif r < 0.60:
            out.append(["use", rng.choice(VARS)])
        elif r < 0.66:
            out.append(["call"])
        elif depth > 0:
            k = rng.choice(["if", "if", "if", "while", "try"])
            if k == "if":
                c = gen_cond(rng, st)
                out.append(["if", c, gen_block(rng, st, depth - 1), gen_block(rng, st, depth - 1) if rng.random() < 0.4 else []])
            elif k == "while":
                out.append(["while", gen_cond(rng, st, need_opaque=True), gen_block(rng, st, depth - 1)])
            else:
                out.append(["try", [["call"]] + gen_block(rng, st, depth - 1), gen_block(rng, st, depth - 1)])
        else:
            out.append(["use", rng.choice(VARS)])
    return out


def gen_motif(rng):
    """the class the narrowing bookkeeping is about: a condition on v (used directly or remembered in a
    flag), then v reassigned on SOME paths, then a use of v that is guarded by the condition"""
    st = {"n": 0, "flags": set()}
    v = rng.choice(VARS)
    w = "y" if v == "x" else "x"
    body = []

    def fresh():
        st["n"] += 1
        return st["n"]

    # 1. bind v (one value, or one of two)
    if rng.random() < 0.5:
        k1 = fresh()
        body.append(["assign", v, k1])
        vals = [k1]
    else:
        k1, k2 = fresh(), fresh()
        body.append(["if", ["opaque"], [["assign", v, k1]], [["assign", v, k2]]])
        vals = [k1, k2]
    if rng.random() < 0.5:
        body.append(["assign", w, fresh()])
    # 2. the condition, true for at least one current value
    k = rng.choice(vals)
    c = rng.choice([["cmp", v, "==", k], ["cmp", v, "<=", k], ["cmp", v, ">=", k], ["in", v, sorted({k, rng.choice(vals)})],
                    ["not", ["cmp", v, "!=", k]], ["isint", v], ["truthy", v], ["cmp", v, "<", max(vals) + 1]])
    stored = rng.random() < 0.7
    f = rng.choice(FLAGS)
    if stored:
        body.append(["flag", f, c])
        guard = ["flagref", f]
    else:
        guard = c
    # 3. reassign v on some paths only
    def partial(depth=1):
        new = ["assign", v, fresh()]
        r = rng.random()
        if r < 0.3:
            return ["if", ["opaque"], [new], []]
        if r < 0.45:
            return ["if", ["opaque"], [], [new]]
        if r < 0.6:
            return ["while", ["opaque"], [new]]
        if r < 0.75:
            return ["try", [["call"]], [new]]
        if r < 0.85 and depth:
            return ["if", ["opaque"], [partial(0)], [["use", v]]]
        return ["if", ["cmp", w, "==", 1], [new], []] if rng.random() < 0.5 else ["try", [["call"], new, ["call"]], []]

    reassign = [partial() for _ in range(rng.choice([1, 1, 2]))]
    use = ["use", v]
    g = rng.random()
    if g < 0.45:
        guarded = ["if", guard, [use], []]
    elif g < 0.6:
        guarded = ["if", ["not", guard], [["call"]], [use]]
    elif g < 0.75:
        guarded = ["if", ["and", guard, ["opaque"]], [use], [["use", v]]]
    elif g < 0.85:
        guarded = ["while", ["and", guard, ["opaque"]], [use]]
    else:
        guarded = ["if", ["or", ["not", guard], ["opaque"]], [["use", v]], [use]]
    if stored or rng.random() < 0.5:
        body += reassign + [guarded]
    else:  # the condition used directly, the partial reassignment inside the guarded region
        body.append(["if", guard, reassign + [use], [["use", v]]])
    body.append(["use", v])
    return body


def gen_program(rng):
    if rng.random() < 0.6:
        return gen_motif(rng)
    st = {"n": 0, "flags": set()}
    body = []
    for v in VARS:  # mostly bound at the start, so that conditions can be evaluated
        if rng.random() < 0.85:
            st["n"] += 1
            body.append(["assign", v, st["n"]])
    body += gen_block(rng, st, 2)
    body += gen_block(rng, st, 2)
    body.append(["use", rng.choice(VARS)])
    return body


def cond_src(c, mode):
    k = c[0]
    if k == "cmp":
        return f"{c[1]} {c[2]} {c[3]}"
    if k == "in":
        return f"{c[1]} in ({', '.join(map(str, c[2]))},)"
    if k == "isint":
        return f"isinstance({c[1]}, int)"
    if k == "truthy":
        return f"{c[1]}"
    if k == "flagref":
        return c[1]
    if k == "opaque":
        return "cond()" if mode == "analysis" else "_cond()"
    if k == "not":
        return f"not ({cond_src(c[1], mode)})"
    return f"({cond_src(c[1], mode)}) {k} ({cond_src(c[2], mode)})"


def render(prog, name, mode="analysis"):
    out = [f"def {name}() -> None:"]
    uses = {}

    def block(b, ind):
        pad = "    " * ind
        if not b:
            out.append(f"{pad}pass")
        for s in b:
            k = s[0]
            if k == "assign":
                out.append(f"{pad}{s[1]} = {s[2]}")
            elif k == "flag":
                out.append(f"{pad}{s[1]} = {cond_src(s[2], mode)}")
            elif k == "use":
                ln = len(out) + 1
                out.append(f"{pad}reveal_type({s[1]})" if mode == "analysis" else f"{pad}_use({ln}, lambda: {s[1]})")
                uses[ln] = s[1]
            elif k == "call":
                out.append(f"{pad}g()" if mode == "analysis" else f"{pad}_call()")
            elif k == "if":
                out.append(f"{pad}if {cond_src(s[1], mode)}:")
                block(s[2], ind + 1)
                if s[3]:
                    out.append(f"{pad}else:")
                    block(s[3], ind + 1)
            elif k == "while":
                out.append(f"{pad}while {cond_src(s[1], mode)}:")
                block(s[2], ind + 1)
            elif k == "try":
                out.append(f"{pad}try:")
                block(s[1], ind + 1)
                out.append(f"{pad}except Exception:")
                block(s[2], ind + 1)

    block(prog, 1)
    return out, uses




EXEC_PRE = """\
def _bit():
    i = _S['i']; _S['i'] = i + 1
    s = _S['script']
    return s[i] if i < len(s) else 0
def _cond(): return bool(_bit())
def _call():
    if _bit(): raise ValueError('scripted')
def _use(line, th):
    try:
        v = th()
    except NameError:
        _S['seen'].add((line, 0))
        raise
    _S['seen'].add((line, v))
"""

SCRIPT_LEN = 7


def observe(prog):
    lines, _ = render(prog, "f", mode="exec")
    code = compile(EXEC_PRE + "\n".join(lines) + "\n", "<c09-cond>", "exec")
    off = EXEC_PRE.count("\n")
    seen = {}
    for script in itertools.product([0, 1], repeat=SCRIPT_LEN):
        state = {"script": script, "i": 0, "seen": set()}
        ns = {"_S": state}
        try:
            exec(code, ns)
            ns["f"]()
        except Exception:
            pass
        for ln, v in state["seen"]:
            seen.setdefault(ln, set()).add(v)
    return seen


def reported(rec):
    """-> (set of int literals in the revealed type, unbound reported?)"""
    if rec is None or rec.get("text") is None:
        return None
    t = re.sub(r"<[^<>]*>", "", rec["text"])
    t = re.sub(r"<[^<>]*>", "", t)
    t = re.sub(r"Any\[\w+\]", "", t)
    return set(int(x) for x in re.findall(r"-?\d+", t)), bool(rec["undef"] or rec["poss"])


def run_stream(progs, impl_run):
    """-> (failures [(i, line, what, observed, expected)], number of uses, sources)"""
    entries = []
    metas = []
    for i, p in enumerate(progs):
        lines, uses = render(p, f"k{i}")
        entries.append(lines)
        metas.append(uses)
    impl = impl_run(entries)
    failures, n_uses = [], 0
    for i, p in enumerate(progs):
        seen = observe(p)
        for ln, v in sorted(metas[i].items()):
            n_uses += 1
            obs = seen.get(ln, set())
            if not obs:
                continue
            rep = reported(impl[i].get(ln))
            if rep is None:
                failures.append((i, ln, "no reveal_type diagnostic for a use that some execution reaches", str(impl[i].get(ln)), sorted(obs)))
                continue
            got, unb = rep
            missing = sorted(d for d in obs if d != UN and d not in got)
            if missing or (UN in obs and not unb):
                failures.append((i, ln, "lower bound (conditions on the variable): a value observed by executing the function is not reported"
                                 + (" (name unbound, no diagnostic)" if UN in obs and not unb else ""),
                                 {"reported": sorted(got), "unbound reported": unb, "text": impl[i][ln].get("text")}, {"observed": sorted(obs), "missing": missing}))
    return failures, n_uses, entries
