"""C09 — oracle stream for nested functions with nonlocal / global declarations.

Programs: a function with one or two levels of nested functions; the same names (a, b) are bound at
several levels; every level may declare a name `nonlocal` or `global`, assign it (possibly under an
opaque condition), read it (`reveal_type`), define its child and call it at explicit points.

Reference (no model): (1) Python's own scoping, from the `symtable` module: which variable (owner
scope, name) every assignment and every use denotes; (2) execution under CPython for every script of
the opaque conditions: the value each use observes (or unbound; the run ends there, as in Python).

Demanded of the checker, per use:
  D1 (name resolution, exact): every literal it reports is an assignment to the variable the use denotes.
  D2 (lower bound): every value some execution observes at the use is reported, and an execution that
     finds the name unbound there is reported as undefined / possibly undefined.
     Not demanded (known findings, attributed only when D1 holds at that use and every missing value
     is an assignment to the right variable):
       - the use reads a variable of an enclosing function (C09-nested-function-read: such reads see the
         definitions current at the def statement and at the end of the owner only; unbound not demanded);
       - the variable is assigned through a nonlocal/global declaration by a nested function
         (C09-nonlocal-write-at-def: the write takes effect where the nested function is defined, not
         where it is called).
     D1 exception (C09-nonlocal-before-owner-assignment): the foreign literals are all assigned under a
     `nonlocal` declaration whose owner assigns the name only after the nested def.
     D1 exception (C09-global-read-sees-enclosing-local): the use denotes a module-level name inside a nested
     function and the foreign literals are assignments to an enclosing function's local of the same name.
     D1 exception (C09-unbound-local-read-falls-back): a read of a nested function's own local that is
     unbound in every execution reaching it, where the foreign literals are assignments to the variable the
     name denotes in the enclosing scope.
"""
from __future__ import annotations

import itertools
import re
import symtable

UN = 0
GLOBAL_INIT = 7000000  # module-level initial value of a name some function declares global

# program := {"names": [a, b], "fn": FN}
# FN := {"decl": {name: "nonlocal"|"global"}, "body": [ITEM...]}
# ITEM := ["assign", name, cond?] | ["use", name] | ["def", FN] | ["call", cond?]


def gen_fn(rng, names, level, maxlevel):
    decl = {}
    for n in names:
        r = rng.random()
        if level >= 1 and r < 0.35:
            decl[n] = "nonlocal"
        elif r < (0.45 if level >= 1 else 0.12):
            decl[n] = "global"
    body = []
    nitems = rng.randint(3, 6)
    child_at = rng.randrange(0, nitems) if level < maxlevel else -1
    defined = False
    for i in range(nitems):
        if i == child_at:
            body.append(["def", gen_fn(rng, names, level + 1, maxlevel)])
            defined = True
            body.append(["call", rng.random() < 0.25])
            continue
        r = rng.random()
        if r < 0.45:
            body.append(["assign", rng.choice(names), rng.random() < 0.3])
        elif r < 0.8 or not defined:
            body.append(["use", rng.choice(names)])
        else:
            body.append(["call", rng.random() < 0.25])
    if rng.random() < 0.7:
        body.append(["use", rng.choice(names)])
    return {"decl": decl, "body": body}


def gen_program(rng, idx):
    names = [f"a{idx}", f"b{idx}"]
    return {"names": names, "fn": gen_fn(rng, names, 0, rng.choice([1, 2, 2]))}


def render(prog, idx, mode="analysis"):
    """-> (source lines, uses: {line: (function path, name)}, assigns: [(function path, name, literal)])"""
    out = []
    uses = {}
    assigns = []
    ctr = [0]
    nconds = [0]

    def fn(f, name, path, ind):
        pad = "    " * ind
        out.append(f"{pad}def {name}() -> None:")
        pad2 = pad + "    "
        for n, d in sorted(f["decl"].items()):
            out.append(f"{pad2}{d} {n}")
        child = None
        for it in f["body"]:
            k = it[0]
            if k == "assign":
                ctr[0] += 1
                lit = idx * 100 + ctr[0]
                if it[2]:
                    out.append(f"{pad2}if {cond()}:")
                    out.append(f"{pad2}    {it[1]} = {lit}")
                else:
                    out.append(f"{pad2}{it[1]} = {lit}")
                assigns.append((path, it[1], lit))
            elif k == "use":
                ln = len(out) + 1
                if mode == "analysis":
                    out.append(f"{pad2}reveal_type({it[1]})")
                else:
                    out.append(f"{pad2}_use({ln}, lambda: {it[1]})")
                uses[ln] = (path, it[1])
            elif k == "def":
                child = f"n{len(path)}"
                fn(it[1], child, path + (child,), ind + 1)
            elif k == "call" and child is not None:
                if it[1]:
                    out.append(f"{pad2}if {cond()}:")
                    out.append(f"{pad2}    {child}()")
                else:
                    out.append(f"{pad2}{child}()")
        if out[-1].endswith(":") or out[-1].strip().startswith(("nonlocal", "global")):
            out.append(f"{pad2}pass")

    def cond():
        nconds[0] += 1
        return "cond()" if mode == "analysis" else f"_cond({nconds[0] - 1})"

    top = f"t{idx}"
    fn(prog["fn"], top, (top,), 0)
    return out, uses, assigns, nconds[0]


def declared_global(prog):
    res = set()

    def walk(f):
        res.update(n for n, d in f["decl"].items() if d == "global")
        for it in f["body"]:
            if it[0] == "def":
                walk(it[1])

    walk(prog["fn"])
    return sorted(res)


def module_prefix(prog, idx):
    return [f"{n} = {GLOBAL_INIT + idx}" for n in declared_global(prog)]


def resolve(src_lines, top):
    """Python's scoping: -> owner(path, name): the function path whose local the name is, or () for the
    module / builtins."""
    st = symtable.symtable("\n".join(src_lines) + "\n", "<c09>", "exec")
    tables = {}

    def walk(t, path):
        tables[path] = t
        for c in t.get_children():
            if c.get_type() == "function" and c.get_name() != "lambda":
                walk(c, path + (c.get_name(),))

    for c in st.get_children():
        if c.get_name() == top:
            walk(c, (top,))

    def owner(path, name):
        t = tables[path]
        try:
            s = t.lookup(name)
        except KeyError:  # not mentioned in this function: whatever the name means in the enclosing one
            return owner(path[:-1], name) if len(path) > 1 else ()
        if s.is_declared_global() or (s.is_global() and not s.is_local()):
            return ()
        if s.is_local():
            return path
        if s.is_free():
            p = path[:-1]
            while p:
                try:
                    s2 = tables[p].lookup(name)
                except KeyError:
                    p = p[:-1]
                    continue
                if s2.is_local():
                    return p
                if s2.is_declared_global():
                    return ()
                p = p[:-1]
        return ()

    return owner


EXEC_PRE = """\
class _Abort(BaseException): pass
def _cond(i): return bool(_S['script'][i])
def _use(line, th):
    try:
        v = th()
    except NameError:
        _S['seen'].add((line, 0))
        raise _Abort()
    _S['seen'].add((line, v))
"""


def observe(prog, idx):
    """execute under every script of the opaque conditions -> {line: set of observed values (0 = unbound)}"""
    lines, uses, assigns, nconds = render(prog, idx, mode="exec")
    src = EXEC_PRE + "\n".join(module_prefix(prog, idx) + lines) + "\n"
    offset = EXEC_PRE.count("\n") + len(module_prefix(prog, idx))
    seen = {}
    for script in itertools.product([0, 1], repeat=min(nconds, 6)):
        script = list(script) + [1] * max(0, nconds - 6)
        state = {"script": script, "seen": set()}
        ns = {"_S": state}
        try:
            exec(compile(src, "<c09-nested>", "exec"), ns)
            ns[f"t{idx}"]()
        except BaseException:
            pass
        for ln, v in state["seen"]:
            seen.setdefault(ln, set()).add(v)
    return seen


def valid(prog, idx):
    lines, _, _, _ = render(prog, idx)
    try:
        compile("\n".join(module_prefix(prog, idx) + lines) + "\n", "<c09-nested>", "exec")
        return True
    except SyntaxError:
        return False


def late_nonlocal_literals(prog, idx, assigns):
    """literals assigned under a `nonlocal name` declaration whose owner assigns name only after the
    statement that defines (an ancestor of) the declaring function -> {name: set(literals)}"""
    late = {}

    def walk(f, path, bound_before):
        # bound_before: {name: True} for names some enclosing function has assigned before this def
        for n, d in f["decl"].items():
            if d == "nonlocal" and not bound_before.get(n, False):
                late.setdefault(n, set()).add(path)
        seen_assign = dict(bound_before)
        for n, d in f["decl"].items():
            if d in ("nonlocal", "global"):
                pass  # an assignment here binds the outer variable, tracked by the caller's dict
        local_seen = {}
        for it in f["body"]:
            if it[0] == "assign" and f["decl"].get(it[1]) is None:
                local_seen[it[1]] = True
            elif it[0] == "def":
                child = f"n{len(path)}"
                inherited = {}
                for n in prog["names"]:
                    if f["decl"].get(n) == "nonlocal":
                        inherited[n] = bound_before.get(n, False)
                    elif f["decl"].get(n) == "global":
                        inherited[n] = False
                    else:
                        # the name is local here if assigned anywhere in this function; then only an
                        # assignment before the def counts; otherwise the enclosing binding is seen through
                        assigned_here = any(x[0] == "assign" and x[1] == n for x in f["body"])
                        inherited[n] = local_seen.get(n, False) if assigned_here else bound_before.get(n, False)
                walk(it[1], path + (child,), inherited)

    walk(prog["fn"], (f"t{idx}",), {})
    res = {}
    for path, name, lit in assigns:
        if path in late.get(name, set()):
            res.setdefault(name, set()).add(lit)
    return res


FINDINGS = {
    "C09-global-read-sees-enclosing-local": "a read of a module-level name (declared `global`) inside a nested function also reveals the assignments an enclosing function makes to its own local of the same name",
    "C09-nonlocal-before-owner-assignment": "`nonlocal v` in a nested function whose owner assigns v only after the nested def: the declaration is not resolved to the owner (it has no definition of v yet when the nested function is first visited), and the writes made under it show up as definitions of another scope's v",
    "C09-nested-function-read": None,  # text lives in c09.LOWER_FINDINGS
    "C09-unbound-local-read-falls-back": "a read of a local variable of a nested function before any of its assignments (always UnboundLocalError at run time) is resolved in the enclosing scopes: the enclosing variable of the same name is revealed and no undefined_name is reported",
    "C09-nonlocal-write-at-def": "a write to an enclosing function's (or a global) variable made through a nonlocal/global declaration in a nested function takes effect where the nested function is defined, not where it is called: uses of that variable between the def and the call, or after a later call, see the wrong definitions",
}


def judge(prog, idx, lines, uses, assigns, impl_rec):
    """-> list of (use line, verdict kind, finding id or None, observed, expected) for one program.
    impl_rec: {line: {"defs": set, "undef": bool, "poss": bool, "text": str}} with lines relative to `lines`."""
    owner = resolve(module_prefix(prog, idx) + lines, f"t{idx}")
    var_of_assign = {}
    for path, name, lit in assigns:
        var_of_assign.setdefault((owner(path, name), name), set()).add(lit)
    for n in declared_global(prog):
        var_of_assign.setdefault(((), n), set()).add(GLOBAL_INIT + idx)
    written_from_nested = set()
    for path, name, lit in assigns:
        ow = owner(path, name)
        if ow != path:
            written_from_nested.add((ow, name))
    seen = observe(prog, idx)
    late_lits = late_nonlocal_literals(prog, idx, assigns)
    out = []
    for ln, (path, name) in sorted(uses.items()):
        rec = impl_rec.get(ln)
        if rec is None or rec.get("defs") is None:
            if ln in seen:  # executed but no diagnostic at all
                out.append((ln, "no reveal_type diagnostic for an executed use", None, str(rec), sorted(seen[ln])))
            continue
        var = (owner(path, name), name)
        allowed = var_of_assign.get(var, set())
        got = set(rec["defs"])
        unbound_reported = rec["undef"] or rec["poss"]
        # D1
        wrong = got - allowed
        obs = seen.get(ln, set())
        if wrong and wrong <= late_lits.get(name, set()):
            out.append((ln, "resolution", "C09-nonlocal-before-owner-assignment", sorted(got), sorted(allowed)))
            continue
        if wrong and var[0] == () and len(path) > 1:
            # a module-level name (declared global here or in an enclosing function) read in a nested
            # function: the lookup passes through the enclosing function scopes
            enclosing = set()
            for k in range(1, len(path)):
                enclosing |= var_of_assign.get((path[:k], name), set())
            if wrong <= enclosing:
                out.append((ln, "resolution", "C09-global-read-sees-enclosing-local", sorted(got), sorted(allowed)))
                continue
        if wrong and var[0] == path and obs <= {UN}:
            # a local that is unbound whenever this use runs (assigned only later in the function): the
            # checker finds no local definition and goes on to the enclosing scopes
            outer_var = ((owner(path[:-1], name) if len(path) > 1 else ()), name)
            reach = set(var_of_assign.get(outer_var, set()))
            if outer_var[0] == ():  # ... where a module-level name also shows the enclosing functions' locals
                for k in range(1, len(path)):
                    reach |= var_of_assign.get((path[:k], name), set())
            if wrong <= reach:
                out.append((ln, "resolution", "C09-unbound-local-read-falls-back", sorted(got), sorted(allowed)))
                continue
        if wrong:
            out.append((ln, "name resolution: a reported literal is an assignment to a different variable", None,
                        sorted(got), {"variable": [list(var[0]), name], "its assignments": sorted(allowed), "foreign": sorted(wrong)}))
            continue
        # D2
        obs = seen.get(ln, set())
        missing = {v for v in obs if v != UN and v not in got}
        miss_un = UN in obs and not unbound_reported
        if not missing and not miss_un:
            continue
        free_read = var[0] != path
        if free_read and missing <= allowed:
            if missing:
                out.append((ln, "lower", "C09-nested-function-read", sorted(got), sorted(obs)))
            continue  # unbound is not demanded at reads of an enclosing function's variable
        if var in written_from_nested and missing <= allowed:
            out.append((ln, "lower", "C09-nonlocal-write-at-def", sorted(got), sorted(obs)))
            continue
        out.append((ln, "lower bound: a value observed by executing the function is not reported" + (" (name unbound, no diagnostic)" if miss_un else ""),
                    None, {"reported": sorted(got), "undefined": rec["undef"], "possibly": rec["poss"]}, {"observed": sorted(obs)}))
    return out


def rename(prog, idx):
    """a corpus / replay program written with the names a, b -> the names of slot idx"""
    m = {"a": f"a{idx}", "b": f"b{idx}"}

    def fn(f):
        return {"decl": {m.get(n, n): d for n, d in f["decl"].items()},
                "body": [[it[0], fn(it[1])] if it[0] == "def" else ([it[0], m.get(it[1], it[1])] + list(it[2:]) if it[0] in ("assign", "use") else list(it)) for it in f["body"]]}

    return {"names": [m["a"], m["b"]], "fn": fn(prog["fn"])}


def unname(prog, idx):
    m = {f"a{idx}": "a", f"b{idx}": "b"}

    def fn(f):
        return {"decl": {m.get(n, n): d for n, d in f["decl"].items()},
                "body": [[it[0], fn(it[1])] if it[0] == "def" else ([it[0], m.get(it[1], it[1])] + list(it[2:]) if it[0] in ("assign", "use") else list(it)) for it in f["body"]]}

    return {"names": ["a", "b"], "fn": fn(prog["fn"])}


def run_stream(progs, impl_run):
    """progs: list of programs (slot i uses the names a<i>, b<i>).  impl_run: c09.impl_run.
    -> (failures [(i, line, what, observed, expected)], known Counter, number of uses, sources)"""
    import collections

    entries, meta = [], []
    for i, p in enumerate(progs):
        lines, uses, assigns, _ = render(p, i)
        pre = module_prefix(p, i)
        entries.append(pre + lines)
        meta.append((lines, uses, assigns, len(pre)))
    impl = impl_run(entries)
    failures, known, n_uses = [], collections.Counter(), 0
    for i, p in enumerate(progs):
        lines, uses, assigns, off = meta[i]
        n_uses += len(uses)
        rec = {ln - off: v for ln, v in impl[i].items()}
        for ln, kind, fid, obs, exp in judge(p, i, lines, uses, assigns, rec):
            if fid is None:
                failures.append((i, ln + off, kind, obs, exp))
            else:
                known[fid] += 1
    return failures, known, n_uses, entries
