"""C10 — diagnostics are deterministic and independent of prior checks.

proof   : Properties/C10.v over Det/SetConsumers.v + Det/Audit.v and the site
          inventory Gen/Sites.v regenerated from the seven anchored files
tie     : translator harness/translate/sites.py (inventory) + correspondence of
          the modelled consumers (unite order, unexpected-keyword listing,
          or-constraint members) with the real functions under several hash seeds
oracle  : the property itself: every generated program is checked by the real
          pyanalyze in fresh processes under several PYTHONHASHSEEDs with
          allocation perturbation, twice in one process, and after histories of
          the other programs with one shared Checker; the rendered diagnostics
          (codes, positions, full text; module name normalised) must be identical
"""
from __future__ import annotations

import concurrent.futures as cf
import json
import random
import re
from pathlib import Path

import lib
from translate import sites as tr_sites
from translate import state as tr_state

PROP = "C10"
CORPUS = Path(__file__).resolve().parent / "corpus" / "C10.json"
MODEL_HEADER = (
    "From Coq Require Import List NArith. Import ListNotations.\n"
    "Require Import PV.Det.SetConsumers."
)


def gen_files():
    return {"Sites.v": tr_sites.translate(str(lib.REPO)), "State.v": tr_state.translate(str(lib.REPO))}


# ---------------------------------------------------------------------------
# configurations: (name, hash seed, perturbation, shared checker, plan kind)

def configs(tier):
    cs = [
        ("alone", 0, 0, False, "isolated"),      # the reference: every program in a forked child, nothing before it
        ("seed0", 0, 0, False, "plain"),
        ("seed1", 1, 0, False, "plain"),
        ("seed2+alloc", 2, 13, False, "plain"),
        ("repeat-shared", 0, 0, True, "twice"),
        ("history-shuffled", 5, 7, True, "shuffled"),
        ("history-reversed", 0, 29, True, "reversed"),
        ("related-shared", 0, 0, True, "related"),    # P right after its related variant H, one Checker
    ]
    if tier == "thorough":
        cs += [
            ("seed3+alloc", 3, 101, False, "plain"),
            ("related-fresh", 6, 0, False, "related"),    # P after its related variant, fresh Checker per check (process-global state)
            ("seed4", 4, 0, False, "plain"),
            ("seed7+alloc", 7, 211, False, "plain"),
            ("seed11", 11, 3, False, "plain"),
            ("history-shuffled2", 9, 0, True, "shuffled2"),
        ]
    return cs


def plan_for(kind, names, rng_seed):
    if kind in ("plain", "isolated"):
        return list(names)
    if kind == "related":
        return [n for name in names for n in ("rel:" + name, name)]
    if kind == "twice":
        return [n for name in names for n in (name, name)]
    if kind == "reversed":
        # the library module the programs import is checked FIRST with the shared
        # checker: whatever it caches must not change what the programs report
        return ["lib:c10lib"] + list(reversed(names))
    r = random.Random(rng_seed * 31 + len(kind))
    p = list(names)
    r.shuffle(p)
    return p


LIBS = {
    "c10lib": (
        "def answer():\n    return 42\n\n"
        "def make_pair(x):\n    return (x, 's')\n\n"
        "def pick(flag):\n    if flag:\n        return 1\n    return 'one'\n\n"
        "class Box:\n    def get(self):\n        return [1, 2]\n"
    )
}


def run_worker(programs, plan, hashseed, perturb, shared, unit_cases=None, timeout=1500, isolate=False):
    req = {"programs": programs, "plan": plan, "perturb": perturb, "shared_checker": shared, "unit_cases": unit_cases or [],
           "libs": LIBS, "isolate": isolate}
    return lib.run_impl_script("c10_worker.py", req, timeout=timeout, extra_env={"PYTHONHASHSEED": str(hashseed)})


# ---------------------------------------------------------------------------
# unit cases for the model correspondence

PARAM_NAMES = ["p", "q", "r"]
EXTRA_NAMES = ["zeta", "alpha", "mid", "omega", "beta", "kappa", "aa"]


def gen_unit_cases(rng, n):
    cases = []
    for _ in range(n):
        k = rng.randrange(3)
        if k == 0:
            groups = [[rng.randrange(10) for _ in range(rng.randrange(1, 5))] for _ in range(rng.randrange(1, 4))]
            cases.append(["unite", groups])
        elif k == 1:
            params = PARAM_NAMES[: rng.randrange(0, 4)]
            kws = params + rng.sample(EXTRA_NAMES, rng.randrange(1, 6))
            rng.shuffle(kws)
            cases.append(["extra_kwargs", [params, kws]])
        else:
            cases.append(["or_constraint", [rng.randrange(8) for _ in range(rng.randrange(2, 7))]])
    return cases


def model_term(case):
    kind, arg = case
    nl = lambda xs: lib.clist([lib.cn(x) for x in xs])  # noqa: E731
    if kind == "unite":
        return "unite " + lib.clist(["(fromkeys " + nl(g) + ")" for g in arg])
    if kind == "extra_kwargs":
        names = PARAM_NAMES + EXTRA_NAMES
        params, kws = arg
        return f"extra_kwargs_new {nl([names.index(k) for k in kws])} {nl([names.index(p) for p in params])}"
    return f"or_apply_new {nl(arg)}"


def decode_impl_unit(case, res):
    if isinstance(res, dict) or res is None:
        return res
    if case[0] == "extra_kwargs":
        names = PARAM_NAMES + EXTRA_NAMES
        return [names.index(x) for x in res]
    return res


# ---------------------------------------------------------------------------


def nontrivial(diags):
    """A program is non-trivial for C10 when some diagnostic shows at least two
    union members or a list of at least two names."""
    for d in diags:
        msg = d[3].split("\nIn <MOD>")[0]
        if " | " in msg or re.search(r"Literal\[[^\]]*, ", msg) or re.search(r"'\w+', '\w+'", msg) or msg.count("\n    ") >= 2:
            return True
    return False


def first_difference(a, b):
    if isinstance(a, dict) or isinstance(b, dict):
        return {"a": a, "b": b}
    for i, (x, y) in enumerate(zip(a, b)):
        if x != y:
            return {"index": i, "a": x, "b": y}
    return {"index": min(len(a), len(b)), "a_len": len(a), "b_len": len(b)}


def run(tier: str, replay: str | None = None):
    rep = lib.Report(PROP, tier, "other")
    rng = random.Random(lib.seed() * 104729 + 10)

    # 1. regenerate the inventory + prove
    broken_translation = None
    proof = None
    try:
        gen = gen_files()
    except tr_sites.TranslateError as ex:
        broken_translation = str(ex)
        gen = None
    if gen is not None:
        proof = lib.prove(PROP, gen, thorough=(tier == "thorough"))
    n_sites = gen["Sites.v"].count("\n  Site ") if gen else 0

    # 2. programs
    programs, feats = {}, {}
    cfgs = configs(tier)
    if replay:
        r = json.loads(Path(replay).read_text())
        inp = r.get("input") or {}
        if "source" in inp:
            programs["replay"] = inp["source"]
            feats["replay"] = ["replay"]
        unit_cases = [inp["unit_case"]] if "unit_case" in inp else []
        if inp.get("history") is not None and inp.get("config"):
            c = inp["config"]
            explicit_plan = []
            for i, h in enumerate(inp["history"]):
                if h.startswith("lib:"):
                    explicit_plan.append(h)
                else:
                    programs[f"rel:h{i}"] = h   # "rel:" = history, not compared
                    explicit_plan.append(f"rel:h{i}")
            explicit_plan.append("replay")
            cfgs = [cfgs[0], (c["name"], c["hashseed"], c["perturb"], c["shared"], "explicit")]
    else:
        import gen_c10

        for i, c in enumerate(json.loads(CORPUS.read_text())["programs"]):
            programs[f"corpus{i}"] = c["source"]
            feats[f"corpus{i}"] = ["corpus:" + c["name"]]
        n_gen = 26 if tier == "quick" else 180
        for i in range(n_gen):
            src, fs = gen_c10.gen_program(rng)
            programs[f"gen{i}"] = src
            feats[f"gen{i}"] = fs
        unit_cases = gen_unit_cases(rng, 150 if tier == "quick" else 1500)
    names = [n for n in programs if not n.startswith("rel:")]
    # related variants: same names, other types / values (history for the "related" configurations)
    import gen_c10 as _g

    rel_rng = random.Random(lib.seed() * 7907 + 3)
    related = {"rel:" + n: _g.related_variant(programs[n], rel_rng) for n in names}
    if replay and (json.loads(Path(replay).read_text()).get("input") or {}).get("related_history"):
        related["rel:replay"] = json.loads(Path(replay).read_text())["input"]["related_history"]
    all_programs = dict(related)
    all_programs.update(programs)

    # 3. implementation under every configuration (fresh process each)
    def job(cfg):
        cname, hs, perturb, shared, kind = cfg
        plan = explicit_plan if kind == "explicit" else plan_for(kind, names, lib.seed())
        out = run_worker(all_programs, plan, hs, perturb, shared, unit_cases if kind == "plain" else None,
                         timeout=600 if tier == "quick" else 2400, isolate=(kind == "isolated"))
        return cname, plan, out

    with cf.ThreadPoolExecutor(max_workers=6) as ex:
        results = list(ex.map(job, cfgs))
    # runs of library modules and of related variants are not compared (they are history, not subjects)
    def subject(p):
        return not p.startswith(("lib:", "rel:"))

    raw_plans = {cname: plan for cname, plan, out in results}
    cfg_by_name = {c[0]: c for c in cfgs}
    results = [
        (cname, [p for p in plan if subject(p)], dict(out, runs=[r for p, r in zip(plan, out["runs"]) if subject(p)]))
        for cname, plan, out in results
    ]

    def history_of(cname, pname, occ):
        """sources checked in that process before the occ-th check of pname"""
        hist, seen = [], 0
        for item in raw_plans[cname]:
            if item == pname:
                if seen == occ:
                    break
                seen += 1
            hist.append(item if item.startswith("lib:") else all_programs[item])
        return hist

    base_name, base_plan, base_out = results[0]
    base = dict(zip(base_plan, base_out["runs"]))
    differing = []  # (program, config, occurrence, diff)
    known_hits = []
    kf = lib.load_known_findings(PROP)["findings"]
    evaluations = 0
    for cname, plan, out in results:
        seen_count = {}
        for pname, diags in zip(plan, out["runs"]):
            evaluations += 1
            occ = seen_count.get(pname, 0)
            seen_count[pname] = occ + 1
            if diags != base[pname]:
                fids = attribute_known(base[pname], diags, cfg_by_name[cname][3], kf)
                if fids:
                    for fid in fids:
                        rep.known(fid, next(f["what"] for f in kf if f["id"] == fid))
                    known_hits.append((pname, cname))
                else:
                    differing.append((pname, cname, occ, first_difference(base[pname], diags)))

    # 4. model correspondence on the unit cases
    unit_fail_inputs, corr_mismatch = [], []
    unit_results = [(cname, out.get("unit")) for (cname, plan, out) in results if out.get("unit") is not None]
    model_vals = None
    model_ok = proof is not None and not any("build failed" in b for b in proof.broken)
    if unit_cases and model_ok:
        try:
            model_vals = lib.coq_eval(MODEL_HEADER, [model_term(c) for c in unit_cases], name="c10")
        except RuntimeError as ex:
            rep.violation({"kind": "broken-correspondence", "correspondence": "Det.SetConsumers vs pyanalyze consumers",
                           "detail": str(ex)[-1500:]}, no_failing_input=True)
    for i, case in enumerate(unit_cases):
        outs = [(cname, decode_impl_unit(case, u[i])) for cname, u in unit_results]
        if any(o != outs[0][1] for _, o in outs):
            unit_fail_inputs.append((case, outs))
        elif model_vals is not None and outs and outs[0][1] != model_vals[i]:
            corr_mismatch.append((case, outs[0][1], model_vals[i]))

    # 5. verdicts
    reported = set()
    for pname, cname, occ, diff in differing:
        if pname in reported:
            continue
        reported.add(pname)
        rep.violation({
            "kind": "failing-input",
            "input": {"source": programs[pname], "features": feats.get(pname, []),
                      "config": {"name": cname, "hashseed": cfg_by_name[cname][1], "perturb": cfg_by_name[cname][2], "shared": cfg_by_name[cname][3]},
                      "history": history_of(cname, pname, occ)},
            "observed": {"config": cname, "occurrence_in_process": occ, "difference": diff},
            "expected": {"config": base_name, "rule": "identical rendered diagnostics in every configuration"},
            "configs": [c[0] for c in cfgs],
            "how_to_run": "./check C10 --replay <this file>",
        })
        if len(reported) >= 5:
            break
    for case, outs in unit_fail_inputs[:3]:
        rep.violation({"kind": "failing-input", "input": {"unit_case": case}, "observed": outs,
                       "expected": "the same member order under every hash seed", "how_to_run": "./check C10 --replay <this file>"})
    found_input = bool(differing or unit_fail_inputs)
    if corr_mismatch and not found_input:
        case, i, m = corr_mismatch[0]
        rep.violation({"kind": "broken-correspondence", "correspondence": f"Det.SetConsumers.{model_term(case).split()[0]} vs pyanalyze ({case[0]})",
                       "input": {"unit_case": case}, "observed": i, "model": m}, no_failing_input=True)
    if broken_translation and not found_input:
        rep.violation({"kind": "broken-obligation", "theorem": "Gen/Sites.v (translator harness/translate/sites.py)",
                       "detail": broken_translation}, no_failing_input=True)
    if proof is not None and not proof.ok and not found_input:
        detail = ""
        if gen is not None:
            detail = {"unclassified_sites": unclassified_sites_hint(gen["Sites.v"])}
            detail.update(unclassified_state_hint(gen["State.v"]))
        rep.violation({"kind": "broken-obligation", "theorem": "; ".join(proof.broken), "log": proof.log[-1500:],
                       "hint": detail}, no_failing_input=True)

    # 6. evidence
    nontriv = [n for n in names if isinstance(base[n], list) and nontrivial(base[n])]
    code_hist, feat_hist = {}, {}
    ndiag = 0
    for n in names:
        for f in feats[n]:
            feat_hist[f] = feat_hist.get(f, 0) + 1
        if isinstance(base[n], list):
            for d in base[n]:
                ndiag += 1
                code_hist[d[0]] = code_hist.get(d[0], 0) + 1
    crashes = sum(1 for n in names if isinstance(base[n], dict))
    sample = None
    for n in nontriv[:1]:
        sample = {"program": programs[n][:1500], "diagnostics_first3": [[d[0], d[1], d[2], d[3].split("\nIn <MOD>")[0][:200]] for d in base[n][:3]]}
    rep.coverage.update(
        explanation="Proof (Coq, closed): sets are lists up to permutation; every consumer kind accepted by the audit is permutation-invariant; "
        "worklist closures are choice-independent; sorted/dict.fromkeys repairs are deterministic refinements; memo caches are history-independent; "
        "the site inventory regenerated from the current source (Gen/Sites.v) is completely classified with exactly three named residual sites. "
        "Exploration (not proof): real pyanalyze on generated programs in fresh processes under several PYTHONHASHSEEDs with allocation perturbation, "
        "repeated in one process, and after histories with one shared Checker -- rendered diagnostics compared for equality.",
        evaluations=evaluations,
        distinct_nontrivial=len(nontriv),
        rule="a case = one program checked under one configuration (hash seed x allocation perturbation x history plan); programs come from harness/gen_c10.py "
        "(branch joins, narrowing, try/with, loops, nested functions, bad calls, protocols, overloads, type variables, TypedDicts, classes, reveal_locals) plus the corpus of past witnesses; "
        "a program is non-trivial when some diagnostic shows >= 2 union members or >= 2 listed names/detail lines; distinct_nontrivial counts such distinct programs",
        samples=[sample] if sample else [{"program": programs[names[0]][:800]}] if names else [],
        traces_validated_against_impl=len(unit_cases) * len(unit_results) - len(corr_mismatch),
        input_distribution={"programs": len(names), "configs": [c[0] for c in cfgs], "features": feat_hist, "diagnostic_codes": code_hist,
                            "diagnostics_per_config": ndiag, "worker_crashes": crashes,
                            "unit_cases": {k: sum(1 for c in unit_cases if c[0] == k) for k in ("unite", "extra_kwargs", "or_constraint")}},
        sites_in_inventory=n_sites,
        differing_programs=len({d[0] for d in differing}),
        known_finding_hits=len(known_hits),
        correspondence_mismatches=len(corr_mismatch),
        exhaustive=False,
    )
    rep.assumptions = [
        "CPython dict / dict.fromkeys / OrderedDict / list iteration is insertion ordered",
        "the site inventory is syntactic: set kind is recognised through literals, set operations, annotations and attribute/return-type facts inside the seven anchored files; sets arriving through untyped parameters or from other modules are covered only by the differential",
        "per-site audit verdicts in Det/Audit.v (which consumer a site feeds) are read off the source by hand",
        "hash seeds / allocation perturbations / histories are sampled, not exhausted",
    ]
    return rep.finish(
        proof,
        "coq_makefile + make theories/Properties/C10.vo; coqc theories/Properties/C10.v (Print Assumptions)" + ("; coqchk -o" if tier == "thorough" else ""),
        ["Coq 8.16.1 kernel (coqc; vm_compute for the inventory obligations and model evaluation)", "translator harness/translate/sites.py",
         "audit table coq/theories/Det/Audit.v", "differential harness/c10.py + c10_worker.py", "CPython insertion-ordered dicts"],
    )


def attribute_known(base, observed, shared_checker, findings):
    """Attribute a difference from the isolated reference to the known findings of the unchanged
    tree; returns the list of finding ids that explain it completely, or [] (= a violation).

    C10-typed-value-str-slot: TypedValue.__str__ prints the TypeObject (suffix
      " (Protocol with members ...)") only when the memo slot _type_object of that shared TypedValue
      was filled by an earlier assignability check: texts differ by exactly such suffixes.
    C10-protocol-positive-cache-key: an `incompatible_*` diagnostic that rests on a protocol member
      disappears (a success recorded for Proto[A] is replayed for Proto[B]): the observed diagnostics
      are the reference minus such diagnostics (what C10_keyed_memo_needs_determining_key predicts).
    The second only under ONE Checker shared by several checks; the two effects may occur together."""
    ids = {f["id"] for f in findings}
    if not isinstance(base, list) or not isinstance(observed, list):
        return []
    # C10-typed-value-str-slot also without a shared Checker: the TypedValues inside the signatures of
    # builtins (collections.abc.Sized in len's) outlive a Checker, so `reveal_type(len)` prints the
    # suffix exactly when an earlier program of the same process made an assignability check against
    # it.  Only the pure case is attributed here (texts equal after deleting such suffixes).
    if "C10-typed-value-str-slot" in ids and not shared_checker and len(base) == len(observed) and base != observed:
        strip0 = lambda ds: [[d[0], d[1], d[2], re.sub(r" \(Protocol with members [^)]*\)", "", d[3])] for d in ds]  # noqa: E731
        if strip0(base) == strip0(observed):
            return ["C10-typed-value-str-slot"]
    if not shared_checker:
        return []
    used = []
    b, o = base, observed
    if "C10-typed-value-str-slot" in ids:
        strip = lambda ds: [[d[0], d[1], d[2], re.sub(r" \(Protocol with members [^)]*\)", "", d[3])] for d in ds]  # noqa: E731
        sb, so = strip(b), strip(o)
        if sb == so and b != o:
            return ["C10-typed-value-str-slot"]
        if sb != b or so != o:
            used.append("C10-typed-value-str-slot")   # suffixes occur; the rest must be explained below
        b, o = sb, so
    if b == o:
        return used
    if "C10-protocol-positive-cache-key" not in ids or len(o) >= len(b):
        return []
    removed, j = [], 0
    for d in b:
        if j < len(o) and o[j] == d:
            j += 1
        else:
            removed.append(d)
    if j != len(o) or not removed:
        return []
    for d in removed:
        if d[0] not in ("incompatible_argument", "incompatible_assignment", "incompatible_return_value") or "protocol member" not in d[3]:
            return []
    return used + ["C10-protocol-positive-cache-key"]


def unclassified_sites_hint(gen_text):
    """Best-effort: name the sites of the inventory that are neither generic nor
    in the audit table (textual comparison, only used to make the replay of a
    broken obligation readable)."""
    audit = (lib.THEORIES / "Det" / "Audit.v").read_text()
    out = []
    for line in gen_text.splitlines():
        line = line.strip().rstrip(";")
        if not line.startswith("Site "):
            continue
        m = re.match(r'Site "((?:[^"]|"")*)" "((?:[^"]|"")*)" "((?:[^"]|"")*)" ', line)
        if not m:
            continue
        ctx = m.group(3)
        if f'String.eqb ctx "{ctx}"' in audit:
            continue
        if "(" + line + "," not in audit:
            out.append(line)
    return out[:10]


def unclassified_state_hint(gen_text):
    """Name what is new in the state inventory: mutated module-/class-level objects and memoised
    functions without an audit entry, cache key sites that are not pinned, and pinned sites
    that disappeared (textual comparison with Det/StateAudit.v; only for the replay text)."""
    audit = (lib.THEORIES / "Det" / "StateAudit.v").read_text()
    new_state, new_keys = [], []
    gen_rows = set()
    for line in gen_text.splitlines():
        line = line.strip().rstrip(";")
        if line.startswith("StateItem ") and line.endswith(" true") and "(" + line + "," not in audit:
            new_state.append(line)
        if line.startswith("CacheKey "):
            gen_rows.add(line)
            if line not in audit and "cache_key := (self_val, other_val)" not in line:
                new_keys.append(line)   # cache key rows and mutation / alias-store rows alike
    gone = []
    for line in audit.splitlines():
        line = line.strip().rstrip(";")
        if line.startswith("CacheKey ") and line not in gen_rows:
            gone.append(line)
    m = re.search(r"Definition resolution_key_fields[^\n]*", gen_text)
    return {"unaudited_state": new_state[:10], "unpinned_cache_keys": new_keys[:10], "pinned_but_gone": gone[:10],
            "resolution_key_fields": m.group(0)[-160:] if m else None}
