"""C10 worker: runs real pyanalyze on a plan of programs inside ONE process and
prints the rendered diagnostics of every step.

stdin  : JSON {"programs": {name: source}, "plan": [name | "lib:<name>", ...], "libs": {module name: source},
               "shared_checker": bool, "perturb": int, "unit_cases": [...],
               "isolate": bool   (each plan item is checked in a forked child: no history at all)}
stdout : last line `@@JSON <doc>`; doc["runs"][i] = rendered diagnostics of plan[i]
         (list of [code, lineno, col, message] in emission order) or {"crash": text}.

The process is started by harness/c10.py with a chosen PYTHONHASHSEED.  `perturb`
allocates (and keeps) that many odd-sized objects before anything is checked so
that addresses -- hence id()-based hashes of AST nodes and constraints -- differ
between processes even for equal hash seeds.
"""
import ast
import json
import linecache
import re
import sys
import types


def make_module(code_str, name, extra_scope):
    from pyanalyze.analysis_lib import _FakeLoader

    filename = f"{name}.py"
    mod = types.ModuleType(name)
    scope = mod.__dict__
    scope["__name__"] = name
    scope["__file__"] = filename
    scope["__loader__"] = _FakeLoader(code_str)
    linecache.lazycache(filename, scope)
    scope.update(extra_scope)
    exec(compile(code_str, filename, "exec"), scope)
    sys.modules[name] = mod
    return mod


_COUNTER = [0]


def check_one(src, checker=None, existing_module=None):
    """Check one source text; returns list of [code, lineno, col, message]."""
    from pyanalyze.error_code import DISABLED_IN_TESTS, ErrorCode
    from pyanalyze.name_check_visitor import ClassAttributeChecker
    from pyanalyze.test_name_check_visitor import ConfiguredNameCheckVisitor

    _COUNTER[0] += 1
    name = f"c10mod_{_COUNTER[0]}"
    tree = ast.parse(src, "<test input>")
    mod = existing_module if existing_module is not None else make_module(src, name, {})
    kwargs = {"settings": {code: code not in DISABLED_IN_TESTS for code in ErrorCode}}
    if checker is not None:
        kwargs["checker"] = checker
    kwargs = ConfiguredNameCheckVisitor.prepare_constructor_kwargs(kwargs)
    with ClassAttributeChecker(enabled=True, options=kwargs["checker"].options) as attribute_checker:
        visitor = ConfiguredNameCheckVisitor(
            mod.__name__, src, tree, module=mod, attribute_checker=attribute_checker, verbosity=0, **kwargs
        )
        result = visitor.check()
        result += visitor.perform_final_checks(kwargs)
    out = []
    for f in result:
        code = f.get("code")
        msg = f.get("message", f.get("description", ""))
        msg = re.sub(r"c10mod_\d+", "<MOD>", msg)
        msg = re.sub(r" at 0x[0-9a-fA-F]+", " at 0x?", msg)
        out.append([getattr(code, "name", str(code)), f.get("lineno"), f.get("col_offset"), msg])
    if existing_module is None:
        del sys.modules[name]
    return out


TYPES = [int, str, bytes, float, list, dict, tuple, set]


def _atoms():
    from pyanalyze.value import KnownValue, TypedValue

    return [KnownValue(1), KnownValue("a"), KnownValue(None), TypedValue(int), TypedValue(str), KnownValue(2.5),
            KnownValue(b"x"), TypedValue(bytes), KnownValue("zz"), TypedValue(float)]


def unit_cases(cases):
    """Direct calls of the modelled consumers (model correspondence).
      ["unite", [[codes], ...]]            -> member codes of unite_values(*[unite_values(*g) for g in groups])
      ["extra_kwargs", [params, keywords]] -> names listed by the unexpected-keyword message, in order
      ["or_constraint", [codes]]           -> member codes of the one_of constraint built by OrConstraint.apply
    """
    out = []
    for kind, arg in cases:
        try:
            if kind == "unite":
                out.append(_unite(arg))
            elif kind == "extra_kwargs":
                out.append(_extra_kwargs(arg[0], arg[1]))
            elif kind == "or_constraint":
                out.append(_or_constraint_order(arg))
            else:
                out.append(None)
        except Exception as ex:  # noqa
            out.append({"crash": f"{type(ex).__name__}: {ex}"[:300]})
    return out


def _unite(groups):
    from pyanalyze.value import MultiValuedValue, unite_values

    atoms = _atoms()
    v = unite_values(*[unite_values(*[atoms[i] for i in g]) for g in groups])
    vals = v.vals if isinstance(v, MultiValuedValue) else [v]
    return [atoms.index(x) for x in vals]


def _extra_kwargs(params, keywords):
    import re

    from pyanalyze.checker import Checker
    from pyanalyze.signature import ActualArguments, ParameterKind, Signature, SigParameter, _CanAssignBasedContext
    from pyanalyze.stacked_scopes import Composite
    from pyanalyze.value import KnownValue

    sig = Signature.make([SigParameter(n, ParameterKind.KEYWORD_ONLY) for n in params])
    errors = []

    class Ctx(_CanAssignBasedContext):
        def on_error(self, message, **kwargs):
            errors.append(message)

    ctx = Ctx(Checker())
    actuals = ActualArguments(
        positionals=[], star_args=None, keywords={n: (True, Composite(KnownValue(1))) for n in keywords},
        star_kwargs=None, kwargs_required=False, pos_or_keyword_params=frozenset(),
    )
    sig.bind_arguments(actuals, ctx)
    if not errors:
        return []
    if "unexpected keyword" not in errors[0]:
        return {"crash": errors[0]}
    return re.findall(r"'(\w+)'", errors[0])


def _or_constraint_order(codes):
    from pyanalyze.stacked_scopes import Constraint, ConstraintType, OrConstraint, VarnameWithOrigin

    vn = VarnameWithOrigin("x")
    objs = {c: Constraint(vn, ConstraintType.is_instance, True, TYPES[c]) for c in set(codes)}
    cons = [objs[c] for c in codes]  # equal code = the very same (identity-hashed) constraint object
    got = list(OrConstraint(tuple(cons)).apply())
    if not got:
        return []
    members = got[0].value
    return [TYPES.index(c.value) for c in members]


def check_isolated(src, checker_factory):
    """Check `src` in a forked child: nothing checked before (or after) it in this
    process can influence the result -- the reference for history independence."""
    import os

    r, w = os.pipe()
    pid = os.fork()
    if pid == 0:
        try:
            os.close(r)
            try:
                import contextlib
                import io

                with contextlib.redirect_stderr(io.StringIO()), contextlib.redirect_stdout(io.StringIO()):
                    out = check_one(src, checker_factory())
            except BaseException as ex:  # noqa
                out = {"crash": f"{type(ex).__name__}: {ex}"[:500]}
            data = json.dumps(out).encode()
            while data:
                n = os.write(w, data)
                data = data[n:]
        finally:
            os._exit(0)
    os.close(w)
    chunks = []
    while True:
        b = os.read(r, 1 << 16)
        if not b:
            break
        chunks.append(b)
    os.close(r)
    os.waitpid(pid, 0)
    try:
        return json.loads(b"".join(chunks).decode())
    except ValueError:
        return {"crash": "isolated child produced no result"}


def main():
    req = json.loads(sys.stdin.read())
    keep = []
    for i in range(int(req.get("perturb", 0))):
        keep.append(ast.parse(f"x{i} = {i}"))
        keep.append(object())
        keep.append([None] * (i % 7))
    doc = {"runs": [], "hashseed": __import__("os").environ.get("PYTHONHASHSEED")}
    checker = None
    if req.get("shared_checker"):
        from pyanalyze.error_code import DISABLED_IN_TESTS, ErrorCode
        from pyanalyze.test_name_check_visitor import ConfiguredNameCheckVisitor

        kw = ConfiguredNameCheckVisitor.prepare_constructor_kwargs(
            {"settings": {code: code not in DISABLED_IN_TESTS for code in ErrorCode}}
        )
        checker = kw["checker"]
    import contextlib
    import io

    libs = {}
    for lname, lsrc in req.get("libs", {}).items():
        libs[lname] = make_module(lsrc, lname, {})  # importable by the programs in every configuration
    for name in req.get("plan", []):
        try:
            with contextlib.redirect_stderr(io.StringIO()), contextlib.redirect_stdout(io.StringIO()):
                if name.startswith("lib:"):
                    lname = name[4:]
                    doc["runs"].append(check_one(req["libs"][lname], checker, existing_module=libs[lname]))
                elif req.get("isolate"):
                    doc["runs"].append(check_isolated(req["programs"][name], lambda: checker))
                else:
                    doc["runs"].append(check_one(req["programs"][name], checker))
        except BaseException as ex:  # noqa
            doc["runs"].append({"crash": f"{type(ex).__name__}: {ex}"[:500]})
    if req.get("unit_cases"):
        doc["unit"] = unit_cases(req["unit_cases"])
    sys.stdout.write("\n@@JSON " + json.dumps(doc) + "\n")
    sys.stdout.flush()
    keep.clear()


if __name__ == "__main__":
    main()
