"""C11 — suppression and enabling are a pure projection of the diagnostics.

proof  : Properties/C11.v over Lines/Suppress.v + Gen/Codes.v, Gen/SuppressGen.v (translated)
tie    : translator (constants + the small line functions) and a differential check:
         the model (extracted to OCaml) is fed the file text, the settings and the *raw stream*
         (every show_error call outside catch_errors, recorded by a subclass in lines_impl.py)
         of each run of the real checker and must reproduce all_failures exactly (code, line, col, order);
         the character-level predicates are compared with Python's re/str on a line stream
oracle : the property itself, on the implementation only: D(P, disable S) == {d in D(P): code(d) not in S};
         D(P + comments) == D(P) minus the targeted diagnostics (+ unused_ignore / bare_ignore)
"""
from __future__ import annotations

import collections
import json
import random
import re
from pathlib import Path

import lib
import lines_impl
from translate import lines as tr_lines

PROP = "C11"
IGNORE = "# static analysis: ignore"

# ---------------------------------------------------------------------------
# program generator
#
# A program is a list of physical lines.  Every line gets a tag saying which
# comment placements are syntactically possible on / before it:
#   "t" trailing comment allowed, "o" an own-line comment may be inserted before it.

PREAMBLE = ["import os", "def takes_int(x: int) -> None: pass"]
# constructs whose diagnostics are decided under catch_errors() (operator resolution, `in`, overloads,
# union receivers): whether they are reported depends on errors *recorded* during a trial
TYPED_PREAMBLE = [
    "from typing import overload, Union",
    "@overload",
    "def ov(a: int) -> int: ...",
    "@overload",
    "def ov(a: str) -> str: ...",
    "def ov(a): return a",
    "class R1:",
    "    def meth(self, a: int) -> int: return a",
    "class R2:",
    "    def meth(self, a: str) -> str: return a",
]
TYPED_PARAMS = ", xi: int = 0, ys: str = '', un: Union[R1, R2] = R1(), fl: float = 0.5"
TYPED_TEMPLATES = [
    (["print(xi + ys)"], ["to"]),
    (["print(ys * ys)"], ["to"]),
    (["xi += ys"], ["to"]),
    (["print(1 in xi)"], ["to"]),
    (["print(ov(fl))"], ["to"]),
    (["print(un.meth(fl))"], ["to"]),
    (["print(xi + ys, undef_{k})"], ["to"]),
    (["print(-ys)"], ["to"]),
    (["print(xi < ys)"], ["to"]),
    (["print(", "    xi + ys,", "    ov(fl),", ")"], ["to", "to", "to", "to"]),
]
# codes that are raised inside such trials even when no diagnostic of that code is finally reported
HIDDEN_CODES = ["incompatible_argument", "incompatible_call", "unsupported_operation", "undefined_attribute", "not_callable"]

# (lines relative to the body indentation, per-line tags)
TEMPLATES = [
    (["print(undef_{k})"], ["to"]),
    (["print(1 + 'a')"], ["to"]),
    (["print(undef_{k}, 1 + 'a')"], ["to"]),
    (["takes_int('s')"], ["to"]),
    (["takes_int(1, 2)"], ["to"]),
    (["print(os.nope_{k})"], ["to"]),
    (["print({{1: 1, 1: 2}})"], ["to"]),
    (["print(undef_{k}, undef_{k}b)"], ["to"]),
    (["print(undef_{k}, takes_int('s'), 1 + 'a')"], ["to"]),
    (["print(", "    undef_{k},", "    1 + 'a',", ")"], ["to", "to", "to", "to"]),
    (["y{k} = [", "    undef_{k},", "]"], ["to", "to", "to"]),
    (["x{k} = 1"], ["to"]),
    (["x{k} = 2"], ["to"]),
    ([""], ["o"]),
    (["# plain comment {k}"], ["o"]),
    (["if x{k}_cond:", "    print(undef_{k})"], ["to", "to"]),
    (["s{k} = '''text", "  inside a string", "'''"], ["o", "", "t"]),
    (["z{k} = 1 + \\", "    undef_{k}"], ["o", "t"]),
]
# broader shapes: nested functions and classes (bodies run only when the outer function is called),
# decorators, multi-line strings followed by code, non-ASCII identifiers and string contents
TEMPLATES += [
    (["def inner{k}(a=undef_{k}):", "    return a + undef_{k}b"], ["to", "to"]),
    (["@takes_int", "def deco{k}(): return undef_{k}"], ["to", "to"]),
    (["@staticmethod", "def sm{k}(a: int = 'x'): return a"], ["to", "to"]),
    (["class C{k}:", "    attr{k} = undef_{k}", "    def m{k}(self): return undef_{k}b + 1 + 'a'"], ["to", "to", "to"]),
    (["lam{k} = lambda: undef_{k}"], ["to"]),
    (["s{k} = \'\'\'line", "still string\'\'\' + undef_{k}"], ["o", "t"]),
    (["print(undéf_{k})"], ["to"]),
    (["print('ünï → ☃', undef_{k}, 1 + 'é')"], ["to"]),
    (["ß{k} = takes_int('ß')"], ["to"]),
    (["print(takes_int(", "    's'),", "    undef_{k})"], ["to", "to", "to"]),
    (["async def co{k}():", "    return undef_{k}"], ["to", "to"]),
    (["try:", "    print(undef_{k})", "except ValueError:", "    print(undef_{k}b)", "finally:", "    print(1 + 'a')"], ["to", "to", "to", "to", "to", "to"]),
    (["with open(os.devnull) as fh{k}:", "    print(fh{k}.nope_{k}, undef_{k})"], ["to", "to"]),
]

FIRST_LINE_ERRORS = [
    "def first_{k}(): return undef_first_{k}",
    "def first_{k}(): return undef_first_{k}, 1 + 'a'",
    "xfirst_{k}: int = 'a'",
]


def gen_program(rng, size=None):
    """-> (lines, tags)"""
    lines, tags = [], []
    k = [0]

    def fresh():
        k[0] += 1
        return k[0]

    head = rng.choice(["none", "err1", "err1", "comments", "comments", "docstring"])
    if head == "err1":
        lines.append(rng.choice(FIRST_LINE_ERRORS).format(k=fresh()))
        tags.append("to")
    elif head == "comments":
        for _ in range(rng.choice([1, 2, 3])):
            lines.append(f"# header {fresh()}")
            tags.append("o")
    elif head == "docstring":
        lines.append('"""module docstring"""')
        tags.append("to")
    typed = rng.random() < 0.6
    for l in PREAMBLE + (TYPED_PREAMBLE if typed else []):
        lines.append(l)
        tags.append("to")
    templates = TEMPLATES + (TYPED_TEMPLATES * 2 if typed else [])
    params = TYPED_PARAMS if typed else ""
    nfun = size or rng.choice([1, 2, 2, 3])
    for fi in range(nfun):
        ind = 0
        if rng.random() < 0.3:
            lines.append(f"class K{fresh()}:")
            tags.append("to")
            ind = 4
            lines.append(" " * ind + f"def m{fresh()}(self, x{k[0]}_cond=None{params}):")
        else:
            lines.append(" " * ind + f"def f{fresh()}(x{k[0]}_cond=None{params}):")
        tags.append("to")
        body = ind + 4
        use_tabs = ind == 0 and rng.random() < 0.12
        nst = rng.choice([1, 2, 3, 4, 5])
        for _ in range(nst):
            tl, tt = rng.choice(templates)
            kk = fresh()
            if use_tabs and any("\'\'\'" in a for a in tl):
                continue
            for a, b in zip(tl, tt):
                a = a.format(k=kk).replace(f"x{kk}_cond", "True")
                if use_tabs and a:
                    n_lead = len(a) - len(a.lstrip(" "))
                    lines.append("\t" + "\t" * (n_lead // 4) + a.lstrip(" "))
                else:
                    lines.append((" " * body + a) if a else "")
                tags.append(b)
        if use_tabs:
            body = 1  # what follows in this function is indented with one tab
            if not lines[-1].strip() or lines[-1].lstrip().startswith("#") or lines[-1].rstrip().endswith(":"):
                lines.append("\tpass")
                tags.append("to")
            continue
        # a function body must end in a statement
        if not lines[-1].strip() or lines[-1].lstrip().startswith("#"):
            lines.append(" " * body + "pass")
            tags.append("to")
    if rng.random() < 0.5:
        # make sure the last physical line carries a diagnostic in half of the programs
        lines.append(("\t" if use_tabs else " " * body) + f"print(undef_last_{fresh()})")
        tags.append("to")
    return lines, tags


# ---------------------------------------------------------------------------
# comment edits

def py_split(text):
    """node_visitor._split_lines without the re-added newline: the lines of the model's file."""
    parts = re.split(r"\r\n|\r|\n", text)
    if parts and parts[-1] == "":
        parts.pop()
    return parts


def render(lines, style):
    """style: (eol, final_newline).  CPython compiles all of them to the same line numbering."""
    eol, final = style
    return eol.join(lines) + (eol if final else "")


def style_for(bi):
    return [("\n", True), ("\n", True), ("\r\n", True), ("\n", False), ("\n", True), ("\r\n", False)][bi % 6]


def comment_text(tc):
    return IGNORE if tc is None else f"{IGNORE}[{tc}]"


def apply_edits(lines, edits):
    """edits: list of ("trail", k, tc) | ("own", k, tc, indent) with k a 1-based line of
    `lines` (k == len+1 for "own": after the last line).  At most one trailing edit per line.
    -> (new_lines, newpos: old line -> new line, comments: [{"line": p, "form", "tc"}])"""
    own_before = collections.defaultdict(list)
    trail = {}
    for e in edits:
        if e[0] == "trail":
            trail[e[1]] = e[2]
        else:
            own_before[e[1]].append(e)
    new, newpos, comments = [], {}, []
    for i, l in enumerate(lines, 1):
        for e in own_before.get(i, ()):
            new.append(" " * e[3] + comment_text(e[2]))
            comments.append({"line": len(new), "form": "own", "tc": e[2], "indent": e[3]})
        if i in trail:
            new.append(l + "  " + comment_text(trail[i]))
            comments.append({"line": len(new), "form": "trail", "tc": trail[i]})
        else:
            new.append(l)
        newpos[i] = len(new)
    for e in own_before.get(len(lines) + 1, ()):
        new.append(" " * e[3] + comment_text(e[2]))
        comments.append({"line": len(new), "form": "own", "tc": e[2], "indent": e[3]})
    # an own-line comment at column 0 inside the leading block of '#' lines is a file-level comment
    for c in comments:
        if c["form"] == "own" and c["indent"] == 0 and all(x.startswith("#") for x in new[: c["line"] - 1]):
            c["form"] = "file"
    return new, newpos, comments


# ---------------------------------------------------------------------------
# the property's own oracle (implementation only)

def expected_after_comments(d0, newpos, comments, enabled):
    """d0: baseline diagnostics [(code, line, col)] of the comment-free program under the same
    configuration.  Returns (must: Counter, may: Counter) of expected diagnostics of the edited
    program: `must` have to be reported, `may` are allowed in addition (a comment that shares
    every diagnostic it covers with another comment may or may not be reported unused)."""
    def matches(c, code):
        return c["tc"] is None or c["tc"] == code

    if any(c["form"] == "file" and c["tc"] is None for c in comments):
        return collections.Counter(), collections.Counter()
    shifted = [(code, newpos[line] if line else 0, col) for code, line, col in d0]
    covers = []
    for code, line, col in shifted:
        cv = []
        for j, c in enumerate(comments):
            if not matches(c, code):
                continue
            if c["form"] == "file" or (c["form"] == "trail" and c["line"] == line) or (c["form"] == "own" and c["line"] + 1 == line):
                cv.append(j)
        covers.append(cv)
    must = collections.Counter(d for d, cv in zip(shifted, covers) if not cv)
    may = collections.Counter()
    file_tc = {c["tc"] for c in comments if c["form"] == "file"}
    for j, c in enumerate(comments):
        col = (c.get("indent", 0) if c["form"] != "trail" else None)
        pos = (c["line"], col)
        covered = [cv for cv in covers if j in cv]
        if "unused_ignore" in enabled and "unused_ignore" not in file_tc:
            if not covered:
                must[("unused_ignore", c["line"], col)] += 1
            elif not any(cv == [j] for cv in covered):
                may[("unused_ignore", c["line"], col)] += 1
        if c["tc"] is None and c["form"] != "file" and "bare_ignore" in enabled and "bare_ignore" not in file_tc:
            must[("bare_ignore", c["line"], col)] += 1
    return must, may


def norm_out(out, comments):
    """Counter of (code, line, col) with col wildcarded (None) for trailing-comment reports,
    whose column the oracle does not predict."""
    trail_lines = {c["line"] for c in comments if c["form"] == "trail"}
    cnt = collections.Counter()
    for code, line, col in out:
        if code in ("unused_ignore", "bare_ignore") and line in trail_lines:
            cnt[(code, line, None)] += 1
        else:
            cnt[(code, line, col)] += 1
    return cnt


def oracle_verdict(d0, out, newpos, comments, enabled):
    must, may = expected_after_comments(d0, newpos, comments, enabled)
    got = norm_out(out, comments)
    missing = must - got
    extra = got - must - may
    if missing or extra:
        return {"missing": sorted(map(list, missing.elements()), key=str), "unexpected": sorted(map(list, extra.elements()), key=str)}
    return None


# ---------------------------------------------------------------------------
# model side

def enc_line(s):
    return f"{len(s)} " + " ".join(str(ord(c)) for c in s) if s else "0"


def enc_emit(enabled_idx, lines, raw, code_idx):
    parts = ["E", str(len(enabled_idx)), *map(str, enabled_idx), str(len(lines))]
    parts += [enc_line(l) for l in lines]
    parts.append(str(len(raw)))
    for node, code, line, col, obey in raw:
        parts += [str(node), str(code_idx[code]), str(line), str(col), str(obey)]
    return " ".join(parts)


def reported_col(lines, lineno, col):
    """show_error (since 2913974) reports the column in characters: it treats the node's col_offset
    as a UTF-8 byte offset into the line and converts it (also for the _FakeNode columns of the final
    passes, which already are character indexes).  The model carries the offset through unchanged;
    the conversion is applied here to the model's output."""
    if 1 <= lineno <= len(lines):
        return len((lines[lineno - 1] + "\n").encode("utf-8")[:col].decode("utf-8", "ignore"))
    return col


def dec_emit(s, names, lines=None):
    left = s.split("|")[0].split()
    out = []
    for t in left:
        c, l, col = t.split(":")
        out.append([names[int(c)], int(l), int(col) if lines is None else reported_col(lines, int(l), int(col))])
    return out


def py_features(line, code_name):
    """What node_visitor computes on a line, with Python's own re / str."""
    tag = f"{IGNORE}[{code_name}]"
    st = line.strip()
    lstr = line.lstrip()
    return [
        int(line.startswith("#")),
        int(st == IGNORE),
        int(st == tag),
        int(bool(re.search(f"{re.escape(IGNORE)}(?!\\[)", line))),
        int(tag in line),
        int(IGNORE in line),
        int(IGNORE + "[" in line),
        line.index(IGNORE) if IGNORE in line else len(line),
        0 if len(lstr) == 0 else len(line) - len(lstr),
        [ord(c) for c in st],
    ]


def dec_features(s):
    t = s.split(" ")
    strip = [int(x) for x in t[9].split(",")] if len(t) > 9 and t[9] else []
    return [int(x) for x in t[:9]] + [strip]


def mutate_line(rng, line, names):
    """Lines that stress the character-level predicates."""
    frag = rng.choice([IGNORE, IGNORE + "[", IGNORE + "[" + rng.choice(names) + "]", IGNORE[:-1], IGNORE + "d", "#",
                       "# static analysis: ignore[]", IGNORE + "[" + rng.choice(names), IGNORE + " [" + rng.choice(names) + "]",
                       IGNORE + "[" + rng.choice(names) + "]" + IGNORE, IGNORE + IGNORE + "[x]", "]", "["])
    ws = rng.choice(["", " ", "  ", "\t", "\x0c", "\xa0", " ", " \t ", "\x1f", "　", "\x85"])
    pos = rng.randrange(len(line) + 1)
    kind = rng.random()
    if kind < 0.4:
        return ws + frag + rng.choice(["", " ", ws, " x"])
    if kind < 0.7:
        return line[:pos] + frag + line[pos:]
    return line + ws + frag + ws


# ---------------------------------------------------------------------------
# known-finding streams: metamorphic pairs (variant, neutral) whose diagnostics must be equal

SEPARATORS = ["\x0c", "\x1c", "\x1d", "\x1e", "\x85", "\u2028"]


def guard_text_outside_comment(text):
    """Decidable guard of C11-ignore-text-in-string: the ignore text occurs outside a COMMENT token."""
    import io
    import tokenize

    comment_spans = collections.defaultdict(list)
    try:
        for tok in tokenize.generate_tokens(io.StringIO(text).readline):
            if tok.type == tokenize.COMMENT:
                comment_spans[tok.start[0]].append((tok.start[1], tok.end[1]))
    except (tokenize.TokenError, SyntaxError, IndentationError):
        return False
    for i, l in enumerate(text.split("\n"), 1):
        for m in re.finditer(re.escape(IGNORE), l):
            if not any(a <= m.start() and m.end() <= b for a, b in comment_spans.get(i, ())):
                return True
    return False


def guard_splitlines_mismatch(text):
    """Decidable guard of C11-splitlines-vs-tokenizer: str.splitlines() splits inside a physical line."""
    return any(any(sep in l for sep in SEPARATORS + ["\x0b", "\u2029", "\r"]) for l in text.split("\n"))


def special_pairs(rng, n):
    """-> [(finding id, variant text, neutral text)]"""
    out = []
    for i in range(n):
        k = rng.randrange(1000)
        pre = "".join(rng.choice(["import os\n", "# header\n", ""]) for _ in range(2))
        kind = i % 4
        if kind == 0:  # ignore text inside a one-line string literal, next to a diagnostic
            tc = rng.choice(["", "[undefined_name]", "[bad_unpack]"])
            body = f"    s{k} = '{{}}'; print(undef_{k}, s{k})\n"
            out.append(("C11-ignore-text-in-string", pre + f"def f{k}():\n" + body.format(IGNORE + tc) + "    return 1\n",
                        pre + f"def f{k}():\n" + body.format("# static analysis: ignorf" + tc) + "    return 1\n"))
        elif kind == 1:  # ignore text on its own line inside a triple-quoted string, before a diagnostic
            body = "    s{k} = \'\'\'\n    {t}\n\'\'\'\n    print(undef_{k}, s{k})\n"
            out.append(("C11-ignore-text-in-string", pre + f"def f{k}():\n" + body.format(k=k, t=IGNORE),
                        pre + f"def f{k}():\n" + body.format(k=k, t="# static analysis: ignorf")))
        else:  # a separator that only str.splitlines() honours, inside a string literal, before a used comment
            sep = rng.choice(SEPARATORS)
            form = rng.choice(["trail", "own"])
            tc = rng.choice(["", "[undefined_name]"])
            use = (f"    print(undef_{k})  {IGNORE}{tc}\n" if form == "trail" else f"    {IGNORE}{tc}\n    print(undef_{k})\n")
            body = f"    s{k} = 'a{{}}b'\n" + use + f"    return s{k}\n"
            out.append(("C11-splitlines-vs-tokenizer", pre + f"def f{k}():\n" + body.format(sep), pre + f"def f{k}():\n" + body.format("-")))
    return out


# ---------------------------------------------------------------------------
# multi-module runs through the command-line path: per-module overrides covering a strict subset of the
# modules must leave every uncovered module's diagnostics alone — also the diagnostics produced by the
# run-wide final checks (attribute_is_never_set comes from the ClassAttributeChecker after all files)

MULTI_BLOCKS = [
    "class Capy{k}:\n    def __init__(self) -> None:\n        self.size = 1\n\n    def grow(self) -> int:\n        return self.sise{k}\n",
    "class Kero{k}:\n    name = 'k'\n\n    def m(self):\n        return self.nmae{k}, undefined_{k}\n",
    "def show{k}() -> None:\n    print(undefined_thing{k}, 1 + 'a')\n",
    "def call{k}(x: int) -> None:\n    call{k}('s')\n    call{k}(1, 2)\n",
    "def dup{k}():\n    return {{1: 1, 1: 2}}, undefined_d{k}\n",
    "def quiet{k}():\n    return 1\n",
]
MULTI_CODES = ["attribute_is_never_set", "undefined_name", "undefined_attribute", "unsupported_operation", "incompatible_argument", "incompatible_call", "duplicate_dict_key"]


def gen_multi_case(rng, ci):
    """-> (modules {name: text}, list of (description, toml, settings_off, covered modules, codes))"""
    tag = f"c11m{ci}_{rng.randrange(10**6)}"
    names = [f"{tag}_a", f"{tag}_b", f"{tag}_ab"][: rng.choice([2, 3, 3])]
    modules = {}
    for n in names:
        blocks = rng.sample(MULTI_BLOCKS, rng.choice([2, 3, 4]))
        if rng.random() < 0.8 and MULTI_BLOCKS[0] not in blocks and MULTI_BLOCKS[1] not in blocks:
            blocks[0] = MULTI_BLOCKS[rng.choice([0, 1])]
        modules[n] = "\n\n".join(b.format(k=i) for i, b in enumerate(blocks))
    return names, modules


def multi_toml(overrides, top_off=()):
    lines = ["[tool.pyanalyze]"] + [f"{c} = false" for c in top_off]
    for mod, codes in overrides:
        lines += ["", "[[tool.pyanalyze.overrides]]", f'module = "{mod}"'] + [f"{c} = false" for c in codes]
    return "\n".join(lines) + "\n"


def multi_configs(rng, names, codes):
    """Configurations whose expected effect is: remove code c from exactly the covered modules."""
    out = []
    a = names[0]
    for c in codes:
        out.append((f"override {a} only", multi_toml([(a, [c])]), [], [a], [c]))
    c2 = codes[: 2] if len(codes) > 1 else codes
    out.append(("override first module, several codes", multi_toml([(a, c2)]), [], [a], c2))
    if len(names) > 2:
        out.append(("two override sections", multi_toml([(names[0], [codes[0]]), (names[1], [codes[0]])]), [], names[:2], [codes[0]]))
    out.append(("override for an unrelated module name", multi_toml([(a + "_zz", codes[:1]), ("zz_" + a, codes[:1])]), [], [], codes[:1]))
    for c in codes[:3]:
        out.append(("top level", multi_toml([], [c]), [], list(names), [c]))
        out.append(("command line", multi_toml([]), [c], list(names), [c]))
    return out


GUARDS = {"C11-ignore-text-in-string": guard_text_outside_comment, "C11-splitlines-vs-tokenizer": guard_splitlines_mismatch}


# ---------------------------------------------------------------------------

def gen_files():
    # Properties/C11.v composes with C18's lookup: Gen/Options.v is regenerated too
    from translate import options as tr_options

    g = tr_lines.gen_files(str(lib.REPO))
    g["Options.v"] = tr_options.translate(str(lib.REPO))
    return g


TRACKED_CFG_ROUTES = ["cli", "top", "override", "override_prefix"]
# overrides for *other* modules must change nothing — including near misses: module names that share
# a string prefix with the checked module's dotted name without being it or one of its parent packages
# (the checked module is pa.pb, or pa.pbb / pa.pb_x / pab.pb for an override of pa.pb / pa)
NEAR_MISS_ROUTES = ["override_other", "near_str_prefix", "near_short", "near_sibling", "near_sibling2", "near_parent_sibling", "near_longer"]


def raw_independent(raw0, raw1, enabled):
    """raw0: stream with everything enabled, raw1: stream under the disabling configuration; both
    restricted to the codes enabled under that configuration must be the same list of
    (code, line, col, obey) with the same which-calls-share-a-node pattern."""
    def canon(raw):
        ids, out = {}, []
        for node, code, line, col, obey in raw:
            if code in enabled:
                out.append((ids.setdefault(node, len(ids)), code, line, col, obey))
        return out
    return canon(raw0) == canon(raw1)


def make_cfg(route, S, extra_on=("unused_ignore", "bare_ignore")):
    cfg = {"cli_on": list(extra_on), "cli_off": [], "top_off": [], "override": None, "module": "pa.pb"}
    S = sorted(S)
    if route == "cli":
        cfg["cli_off"] = S
    elif route == "top":
        cfg["top_off"] = S
    elif route == "override":
        cfg["override"] = ["pa.pb", S]
    elif route == "override_prefix":
        cfg["override"] = ["pa", S]
    elif route == "override_other":  # an override for another module must change nothing
        cfg["override"] = ["pc", S]
    elif route == "near_str_prefix":  # "pa.p" is a string prefix of "pa.pb", not a package of it
        cfg["override"] = ["pa.p", S]
    elif route == "near_short":  # "p" is a string prefix of "pa"
        cfg["override"] = ["p", S]
    elif route == "near_sibling":  # the override names pa.pb, the checked module is pa.pbb
        cfg["override"] = ["pa.pb", S]
        cfg["module"] = "pa.pbb"
    elif route == "near_sibling2":
        cfg["override"] = ["pa.pb", S]
        cfg["module"] = "pa.pb_x.sub"
    elif route == "near_parent_sibling":  # the override names pa, the checked module is pab.pb
        cfg["override"] = ["pa", S]
        cfg["module"] = "pab.pb"
    elif route == "near_longer":  # the override names a submodule of the checked module
        cfg["override"] = ["pa.pb.sub", S]
    return cfg


def enabled_names(cfg, all_names, disabled_in_tests, route_applies=True):
    """The documented precedence: command line > applicable override of the main file > main file top level
    > extended file > the test defaults (which the harness passes as command-line settings for every code the
    configuration files do not mention)."""
    en = set(all_names) - set(disabled_in_tests)
    en -= set(cfg.get("ext_off", ()))
    en |= set(cfg.get("ext_on", ()))
    en -= set(cfg.get("top_off", ()))
    en |= set(cfg.get("top_on", ()))
    ov = cfg.get("override")
    if ov:
        mp = cfg.get("module", "pa.pb").split(".")
        pre = ov[0].split(".")
        if mp[: len(pre)] == pre:
            en -= set(ov[1])
        else:
            # the main file's top level says `true` for the codes of a non-applicable override (see lines_impl)
            en |= set(ov[1]) - set(cfg.get("top_off", ()))
    en |= set(cfg.get("cli_on", ()))
    en -= set(cfg.get("cli_off", ()))
    return en


def layered_cfgs(present, bi):
    """A command-line entry on top of a config layer that sets the same code the other way (top level,
    applicable override, extended file) — and the other way round for default-off codes."""
    out = []
    if not present:
        return out
    c = present[bi % len(present)]
    for layer in ("top_off", "ext_off"):
        cfg = make_cfg("cli", [])
        cfg[layer] = [c]
        cfg["cli_on"] = cfg["cli_on"] + [c]          # -e c on top of `c = false`: everything is reported again
        out.append(cfg)
    cfg = make_cfg("override", [c])
    cfg["cli_on"] = cfg["cli_on"] + [c]
    out.append(cfg)
    cfg = make_cfg("cli", [c])                        # -d c on top of `c = true` in the file
    cfg["top_on"] = [c]
    out.append(cfg)
    cfg = make_cfg("cli", [])                         # layers without a command-line entry: main beats extended
    cfg["ext_off"] = [c]
    cfg["top_on"] = [c]
    out.append(cfg)
    cfg = make_cfg("cli", [])
    cfg["ext_off"] = [c]
    out.append(cfg)
    return out


def single_edits(rng, lines, tags, d0, names, exhaustive):
    """All (or a sample of) single comment placements."""
    by_line = collections.defaultdict(list)
    for code, line, col in d0:
        by_line[line].append(code)
    present = sorted({c for c, _, _ in d0})
    edits = []
    n = len(lines)
    for k in range(1, n + 2):
        codes_here = by_line.get(k, [])
        tcs = [None]
        if codes_here:
            tcs += sorted(set(codes_here))
        other = [c for c in present + ["undefined_name", "bad_unpack"] if c not in codes_here]
        tcs.append(rng.choice(other))
        ind_here = (len(lines[k - 1]) - len(lines[k - 1].lstrip())) if k <= n else 0
        for tc in tcs:
            if k <= n and "t" in tags[k - 1]:
                edits.append([("trail", k, tc)])
            if k == n + 1 or "o" in tags[k - 1]:
                for ind in sorted({ind_here, 0, 2}):
                    edits.append([("own", k, tc, ind)])
    if exhaustive:
        return edits
    # sample, but always keep the boundary placements and the lines with diagnostics
    keep = []
    for e in edits:
        k = e[0][1]
        w = 1.0 if (k in (1, 2, n, n + 1)) else (0.8 if by_line.get(k) else 0.15)
        if by_line.get(k) and e[0][0] == "own" and e[0][3] == 2:
            w = 0.3
        if rng.random() < w * 0.5:
            keep.append(e)
    return keep


def multi_edits(rng, lines, tags, d0, n_variants):
    by_line = collections.defaultdict(list)
    for code, line, col in d0:
        by_line[line].append(code)
    err_lines = sorted(by_line)
    out = []
    for _ in range(n_variants):
        es, used_trail, used_own = [], set(), set()
        for _ in range(rng.choice([2, 2, 3, 4])):
            if err_lines and rng.random() < 0.75:
                k = rng.choice(err_lines)
            else:
                k = rng.randrange(1, len(lines) + 2)
            codes = by_line.get(k, [])
            tc = rng.choice([None] + codes + codes + ["bad_unpack"])
            form = rng.choice(["trail", "own", "own"])
            if form == "trail" and k <= len(lines) and "t" in tags[k - 1] and k not in used_trail:
                used_trail.add(k)
                es.append(("trail", k, tc))
            elif (k == len(lines) + 1 or "o" in tags[k - 1]) and k not in used_own:
                # one own-line comment per position: two stacked comments are the
                # "each pushes the other out" situation of C16, exercised there
                used_own.add(k)
                ind = (len(lines[k - 1]) - len(lines[k - 1].lstrip())) if k <= len(lines) else 0
                es.append(("own", k, tc, rng.choice([ind, ind, 0])))
        if es:
            out.append(es)
    return out


def run(tier: str, replay: str | None = None):
    rep = lib.Report(PROP, tier, "proof")
    rng = random.Random(lib.seed() * 7907 + 11)

    # 1. regenerate + prove
    broken_translation = None
    proof = None
    try:
        gen = gen_files()
    except Exception as ex:  # TranslateError of either translator
        broken_translation = str(ex)
        gen = None
    if gen is not None:
        proof = lib.prove(PROP, gen, thorough=(tier == "thorough"))
    model_ok = proof is not None and not any("build failed" in b for b in proof.broken)
    exe = None
    if model_ok:
        try:
            exe = lib.ocaml_build("c11", "theories/Extract/ExtractC11.v", "c11_driver.ml")
        except RuntimeError as ex:
            rep.violation({"kind": "broken-obligation", "theorem": "extraction of the C11 model", "detail": str(ex)[-1500:]}, no_failing_input=True)

    names = lines_impl.code_names()
    static_names = tr_lines.read_codes(str(lib.REPO))[1] if gen is not None else names
    code_idx = {n: i for i, n in enumerate(static_names)}
    dit = tr_lines.read_codes(str(lib.REPO))[2]["DISABLED_IN_TESTS"] if gen is not None else []

    # 2. cases: (base_lines, tags, cfg, edits)
    corpus_path = lib.VERIF / "harness" / "corpus" / f"{PROP}.json"
    corpus = json.loads(corpus_path.read_text()) if corpus_path.exists() else []
    variants = []  # dicts: base (index into bases), cfg, edits
    bases = []  # (lines, tags)

    def add_base(lines, tags):
        bases.append((lines, tags))
        return len(bases) - 1

    specials = []
    if replay and "special" in json.loads(Path(replay).read_text())["input"]:
        specials = [tuple(json.loads(Path(replay).read_text())["input"]["special"])]
    elif replay and "multi" in json.loads(Path(replay).read_text())["input"]:
        pass  # handled by the multi-module stream below
    elif replay:
        r = json.loads(Path(replay).read_text())
        c = r["input"]
        b = add_base(c["base_lines"], c.get("tags") or ["to"] * len(c["base_lines"]))
        variants.append({"base": b, "cfg": c["cfg"], "edits": [tuple(e) for e in c["edits"]], "baseline_cfg": c.get("baseline_cfg")})
    else:
        for c in corpus:
            if "multi" in c:
                continue  # multi-module corpus entries are run by the multi-module stream
            b = add_base(c["base_lines"], c.get("tags") or ["to"] * len(c["base_lines"]))
            variants.append({"base": b, "cfg": c["cfg"], "edits": [tuple(e) for e in c["edits"]], "baseline_cfg": c.get("baseline_cfg")})
        n_prog = 18 if tier == "quick" else 80
        specials = special_pairs(rng, 8 if tier == "quick" else 48)
        for pi in range(n_prog):
            lines, tags = gen_program(rng, size=1 if pi < 6 else None)
            add_base(lines, tags)

    # 3. baselines first (they decide which edits / code subsets make sense)
    base_cfg = make_cfg("cli", [])
    base_jobs = [(render(l, style_for(bi)), base_cfg) for bi, (l, _) in enumerate(bases)]
    base_res = lines_impl.pool_map(base_jobs)
    harness_problems = []
    d0s = []
    for bi, r in enumerate(base_res):
        if r["error"]:
            harness_problems.append(f"baseline {bi}: {r['error'][:300]}")
        d0s.append([tuple(x) for x in r["out"]])
    if not replay:
        for bi, (lines, tags) in enumerate(bases):
            if bi < len(corpus):
                continue
            d0 = d0s[bi]
            if base_res[bi]["error"]:
                continue
            exhaustive = tier == "thorough" and bi % 5 == 0
            for es in single_edits(rng, lines, tags, d0, names, exhaustive):
                variants.append({"base": bi, "cfg": base_cfg, "edits": es})
            for es in multi_edits(rng, lines, tags, d0, 4 if tier == "quick" else 10):
                variants.append({"base": bi, "cfg": base_cfg, "edits": es})
            present = sorted({c for c, _, _ in d0 if c not in ("unused_ignore", "bare_ignore")})
            if present:
                # every single code (reported ones and the ones only raised inside catch_errors trials),
                # rotating through the disabling routes; then random subsets
                singles = sorted(set(present) | set(HIDDEN_CODES))
                if tier == "quick":
                    singles = sorted(set(present[:]) | set(HIDDEN_CODES[:3])) if bi % 2 else singles
                for ci, c in enumerate(singles):
                    route = TRACKED_CFG_ROUTES[(bi + ci) % len(TRACKED_CFG_ROUTES)]
                    variants.append({"base": bi, "cfg": make_cfg(route, [c]), "edits": []})
                for cfg in layered_cfgs(present, bi):
                    variants.append({"base": bi, "cfg": cfg, "edits": []})
                # every near-miss override, for the codes the program reports: nothing may change
                for ri, route in enumerate(NEAR_MISS_ROUTES):
                    variants.append({"base": bi, "cfg": make_cfg(route, present if ri % 2 else [present[(bi + ri) % len(present)]]), "edits": []})
                n_sub = 3 if tier == "quick" else 8
                for si in range(n_sub):
                    S = [c for c in singles if rng.random() < 0.4] or [rng.choice(present)]
                    if si == 0:
                        S = S + [rng.choice(["bad_unpack", "unused_ignore"])]
                    route = rng.choice(TRACKED_CFG_ROUTES + NEAR_MISS_ROUTES) if si else "cli"
                    cfg = make_cfg(route, S)
                    variants.append({"base": bi, "cfg": cfg, "edits": []})
                    # comments under a disabling configuration
                    # a file-level comment for a disabled code suppresses nothing: it must be reported unused
                    if si < 2 and "o" in tags[0] or "t" in tags[0]:
                        variants.append({"base": bi, "cfg": cfg, "edits": [("own", 1, rng.choice(S), 0)]})
                    cand = single_edits(rng, lines, tags, d0, names, False)
                    for es in rng.sample(cand, min(2, len(cand))):
                        variants.append({"base": bi, "cfg": cfg, "edits": es})

    # every variant needs the baseline of its base under its own configuration
    need = {}
    for v in variants:
        key = (v["base"], json.dumps(v["cfg"], sort_keys=True))
        if v["cfg"] != base_cfg:
            need[key] = None
    jobs, job_meta = [], []
    for (bi, cj) in need:
        jobs.append((render(bases[bi][0], style_for(bi)), json.loads(cj)))
        job_meta.append(("baseline", (bi, cj)))
    for vi, v in enumerate(variants):
        new, newpos, comments = apply_edits(bases[v["base"]][0], v["edits"])
        v["new_lines"], v["newpos"], v["comments"] = new, newpos, comments
        jobs.append((render(new, style_for(v["base"])), v["cfg"]))
        job_meta.append(("variant", vi))
    for si, (fid, vt, nt) in enumerate(specials):
        jobs.append((vt, base_cfg))
        job_meta.append(("special_v", si))
        jobs.append((nt, base_cfg))
        job_meta.append(("special_n", si))
    results = lines_impl.pool_map(jobs)
    special_res = {}
    cfg_base_out = {}
    for (kind, ref), r in zip(job_meta, results):
        if kind == "baseline":
            cfg_base_out[ref] = r
        elif kind == "variant":
            variants[ref]["res"] = r
        else:
            special_res[(kind, ref)] = r

    # 4. verdicts: oracle (property on the implementation)
    failing = []
    hist = collections.Counter()
    distinct = set()
    n_oracle = 0
    model_lines, model_meta = [], []
    out_of_fragment = 0
    raw_dep = []
    n_raw_hyp = 0

    def queue_model(tag, lines, cfg, r):
        nonlocal out_of_fragment
        if exe is None or r["error"]:
            return
        if any(x[1] not in code_idx for x in r["raw"]) or any(x[2] > len(lines) for x in r["raw"]):
            out_of_fragment += 1
            return
        en = enabled_names(cfg, names, dit)
        en_idx = sorted(code_idx[n] for n in en if n in code_idx)
        model_lines.append(enc_emit(en_idx, lines, r["raw"], code_idx))
        model_meta.append((tag, lines, cfg, r))

    for bi, r in enumerate(base_res):
        queue_model(("base", bi), bases[bi][0], base_cfg, r)
    for (bi, cj), r in cfg_base_out.items():
        cfg = json.loads(cj)
        queue_model(("cfgbase", bi), bases[bi][0], cfg, r)
        if r["error"] or base_res[bi]["error"]:
            continue
        # hypothesis of C11_disable_end_to_end, checked per program: the raw stream, restricted to the codes
        # still enabled, does not depend on which codes are disabled (same calls, same order, same node pattern)
        en = enabled_names(cfg, names, dit)
        n_raw_hyp += 1
        if not raw_independent(base_res[bi]["raw"], r["raw"], en):
            raw_dep.append({"kind": "failing-input", "what": "the raw stream of show_error calls depends on which codes are disabled (hypothesis raw_indep of C11_disable_end_to_end fails)",
                            "input": {"base_lines": bases[bi][0], "tags": bases[bi][1], "cfg": cfg, "edits": [], "baseline_cfg": base_cfg},
                            "observed": [x[1:4] for x in r["raw"] if x[1] in en], "expected": [x[1:4] for x in base_res[bi]["raw"] if x[1] in en]})
        # D(P, disable S) == {d in D(P): code(d) not in S}
        want = collections.Counter(d for d in d0s[bi] if d[0] in en)
        got = collections.Counter(tuple(x) for x in r["out"])
        n_oracle += 1
        hist["disable_" + ("layered" if (cfg.get("top_on") or cfg.get("ext_off") or (cfg.get("cli_on") and set(cfg["cli_on"]) - {"unused_ignore", "bare_ignore"})) else "cli" if cfg["cli_off"] else "top" if cfg["top_off"] else ("override" if set(en) != set(enabled_names(base_cfg, names, dit)) else "override_near_miss"))] += 1
        distinct.add(("disable", bi, cj))
        if want != got:
            failing.append({"kind": "failing-input", "what": "disable is not a projection",
                            "input": {"base_lines": bases[bi][0], "tags": bases[bi][1], "cfg": cfg, "edits": [], "baseline_cfg": base_cfg},
                            "observed": sorted(map(list, got.elements()), key=str), "expected": sorted(map(list, want.elements()), key=str)})
    for v in variants:
        r = v["res"]
        bi = v["base"]
        queue_model(("variant", bi), v["new_lines"], v["cfg"], r)
        if r["error"]:
            harness_problems.append(f"variant of base {bi} {v['edits']}: {r['error'][:300]}")
            continue
        if v["cfg"] == base_cfg:
            d0 = d0s[bi]
        else:
            br = cfg_base_out[(bi, json.dumps(v["cfg"], sort_keys=True))]
            if br["error"]:
                continue
            d0 = [tuple(x) for x in br["out"]]
        if not v["edits"]:
            continue
        en = enabled_names(v["cfg"], names, dit)
        bad = oracle_verdict(d0, [tuple(x) for x in r["out"]], v["newpos"], v["comments"], en)
        n_oracle += 1
        forms = "+".join(sorted(c["form"] + ("" if c["tc"] is None else "[c]") for c in v["comments"]))
        hist["edit_" + (forms if len(v["comments"]) == 1 else f"multi{len(v['comments'])}")] += 1
        if any(c["line"] == 1 for c in v["comments"]):
            hist["comment_on_line_1"] += 1
        if any(c["line"] == len(v["new_lines"]) for c in v["comments"]):
            hist["comment_on_last_line"] += 1
        if len(r["out"]) != len(d0):
            hist["verdict_changed_count"] += 1
        else:
            hist["verdict_same_count"] += 1
        if d0:
            distinct.add((bi, json.dumps(v["edits"]), json.dumps(v["cfg"], sort_keys=True)))
        if bad:
            failing.append({"kind": "failing-input", "what": "comment placement does not suppress exactly its target",
                            "input": {"base_lines": bases[bi][0], "tags": bases[bi][1], "cfg": v["cfg"], "edits": [list(e) for e in v["edits"]]},
                            "text": v["new_lines"], "baseline": [list(d) for d in d0], "observed": r["out"], **bad})

    for si, (fid, vt, nt) in enumerate(specials):
        queue_model(("special", si), py_split(vt), base_cfg, special_res[("special_v", si)])

    # 5. correspondence: model vs implementation on the recorded raw streams
    corr_mismatch = []
    special_model_agrees = {}
    n_model = 0
    if exe is not None and model_lines:
        try:
            outs = lib.ocaml_run(exe, model_lines)
            for (tag, lines, cfg, r), o in zip(model_meta, outs):
                n_model += 1
                m = dec_emit(o, static_names, lines)
                if tag[0] == "special":
                    special_model_agrees[tag[1]] = (m == r["out"])
                if m != r["out"]:
                    corr_mismatch.append({"tag": list(tag), "text": lines, "cfg": cfg, "impl": r["out"], "model": m, "raw": r["raw"]})
        except RuntimeError as ex:
            rep.violation({"kind": "broken-correspondence", "correspondence": "Suppress.emit vs NameCheckVisitor.check", "detail": str(ex)[-1500:]}, no_failing_input=True)

    # character-level predicates vs re / str
    feat_mismatch = []
    n_feat = 0
    if exe is not None:
        stream = []
        pool = [l for v in variants for l in v["new_lines"]] or [IGNORE]
        n_lines = 1500 if tier == "quick" else 12000
        for i in range(n_lines):
            base = rng.choice(pool)
            l = base if i % 3 == 0 else mutate_line(rng, base, static_names)
            c = rng.choice(static_names)
            m = re.search(r"ignore\[([a-z_]+)\]", l)
            if m and m.group(1) in code_idx and rng.random() < 0.7:
                c = m.group(1)
            stream.append((l, c))
        try:
            outs = lib.ocaml_run(exe, [f"F {enc_line(l)} {code_idx[c]}" for l, c in stream])
            for (l, c), o in zip(stream, outs):
                n_feat += 1
                if dec_features(o) != py_features(l, c):
                    feat_mismatch.append({"line": l, "code": c, "model": dec_features(o), "python": py_features(l, c)})
            cps = list(range(0, 0x3100)) + [0xFEFF, 0x1D7FF]
            outs = lib.ocaml_run(exe, [f"S {n}" for n in cps])
            for n, o in zip(cps, outs):
                if (o == "1") != chr(n).isspace():
                    feat_mismatch.append({"codepoint": n, "model": o, "python": chr(n).isspace()})
        except RuntimeError as ex:
            rep.violation({"kind": "broken-correspondence", "correspondence": "Text.* vs re/str", "detail": str(ex)[-1500:]}, no_failing_input=True)

    # known-finding streams: the diagnostics of variant and neutral text must be equal
    known_ids = {k["id"]: k for k in lib.load_known_findings(PROP)["findings"]}
    for si, (fid, vt, nt) in enumerate(specials):
        rv, rn = special_res[("special_v", si)], special_res[("special_n", si)]
        if rv["error"] or rn["error"]:
            harness_problems.append(f"special {fid}: {(rv['error'] or rn['error'])[:300]}")
            continue
        n_oracle += 1
        if collections.Counter(map(tuple, rv["out"])) == collections.Counter(map(tuple, rn["out"])):
            hist["special_equal"] += 1
            continue
        hist["special_differs_" + fid] += 1
        in_class = fid in known_ids and GUARDS[fid](vt) and not GUARDS[fid](nt)
        if in_class and special_model_agrees.get(si):
            rep.known(fid, known_ids[fid]["what"])
        elif in_class and si not in special_model_agrees:
            # the model could not be built (translator / proof broken): the case is in a known class but the
            # second half of the attribution test cannot be made; the broken obligation is reported instead
            hist["special_unattributable_model_unavailable"] += 1
        else:
            failing.append({"kind": "failing-input", "what": "diagnostics change when only the content of a string literal changes",
                            "input": {"special": [fid, vt, nt], "cfg": base_cfg}, "observed": rv["out"], "expected": rn["out"],
                            "guard_holds": bool(GUARDS[fid](vt)), "model_agrees_with_impl": special_model_agrees.get(si)})

    # multi-module runs through the CLI path
    multi_cases = []
    if replay and "multi" in json.loads(Path(replay).read_text())["input"]:
        mi = json.loads(Path(replay).read_text())["input"]["multi"]
        multi_cases.append((mi["names"], mi["modules"], [tuple(mi["config"])]))
    elif not replay:
        for c in corpus:
            if "multi" in c:
                multi_cases.append((c["multi"]["names"], c["multi"]["modules"], [tuple(c["multi"]["config"])]))
        for ci in range(3 if tier == "quick" else 14):
            names_m, modules_m = gen_multi_case(rng, ci)
            multi_cases.append((names_m, modules_m, None))
    multi_jobs = [{"modules": m, "toml": multi_toml([])} for _, m, _ in multi_cases]
    multi_base = lines_impl.pool_map_fn(lines_impl.run_multi, multi_jobs) if multi_jobs else []
    mjobs, mmeta = [], []
    for (names_m, modules_m, cfgs), b in zip(multi_cases, multi_base):
        if b["error"]:
            harness_problems.append("multi-module baseline: " + b["error"][:300])
            continue
        present_m = sorted({d[1] for d in b["out"] if d[1]})
        codes_m = [c for c in MULTI_CODES if c in present_m] + [c for c in present_m if c not in MULTI_CODES]
        if "attribute_is_never_set" not in codes_m:
            codes_m.append("attribute_is_never_set")  # disabling a code nobody reports must change nothing either
        for cfg_m in (cfgs or multi_configs(rng, names_m, codes_m)):
            mjobs.append({"modules": modules_m, "toml": cfg_m[1], "settings_off": list(cfg_m[2])})
            mmeta.append((names_m, modules_m, cfg_m, b["out"]))
    mres = lines_impl.pool_map_fn(lines_impl.run_multi, mjobs) if mjobs else []
    n_multi = 0
    for (names_m, modules_m, cfg_m, base_out), r in zip(mmeta, mres):
        if r["error"]:
            harness_problems.append("multi-module run: " + r["error"][:300])
            continue
        n_multi += 1
        n_oracle += 1
        desc, toml_m, soff, covered, codes_c = cfg_m
        want = collections.Counter(tuple(d) for d in base_out if not (d[0] in covered and d[1] in codes_c))
        got = collections.Counter(tuple(d) for d in r["out"])
        hist["multi_" + desc.split()[0]] += 1
        distinct.add(("multi", toml_m, tuple(sorted(modules_m))))
        if want != got:
            failing.append({"kind": "failing-input", "what": "multi-module run through the CLI path: disabling a code for some modules changed other diagnostics (" + desc + ")",
                            "input": {"multi": {"names": names_m, "modules": modules_m, "config": list(cfg_m)}},
                            "missing": sorted(map(list, (want - got).elements()), key=str), "unexpected": sorted(map(list, (got - want).elements()), key=str)})

    # 6. report
    failing = failing + [x for x in raw_dep if not failing][:3] if not failing else failing + raw_dep[:2]
    for f in failing[:10]:
        f["how_to_run"] = "./check C11 --replay <this file>"
        rep.violation(f)
    found_input = bool(failing)
    if corr_mismatch and not found_input:
        m = corr_mismatch[0]
        rep.violation({"kind": "broken-correspondence", "correspondence": "Suppress.emit (extracted) vs NameCheckVisitor.check all_failures",
                       "input": {"base_lines": m["text"], "cfg": m["cfg"], "edits": []}, "observed": m["impl"], "model": m["model"], "raw_stream": m["raw"]},
                      no_failing_input=True)
    if feat_mismatch and not found_input:
        rep.violation({"kind": "broken-correspondence", "correspondence": "Lines/Text.v predicates vs Python re/str", "input": feat_mismatch[0]}, no_failing_input=True)
    if broken_translation and not found_input:
        rep.violation({"kind": "broken-obligation", "theorem": "Gen/Codes.v, Gen/SuppressGen.v (translator)", "detail": broken_translation}, no_failing_input=True)
    if proof is not None and not proof.ok and not found_input:
        rep.violation({"kind": "broken-obligation", "theorem": "; ".join(proof.broken), "log": proof.log[-1500:]}, no_failing_input=True)
    for p in harness_problems[:5]:
        rep.harness_error(p)

    sizes = collections.Counter(min(len(l) // 5 * 5, 40) for l, _ in bases)
    ndiag = collections.Counter(min(len(d), 12) for d in d0s)
    codes_seen = collections.Counter(c for d in d0s for c, _, _ in d)
    sample = []
    for v in variants[:: max(1, len(variants) // 3)][:3]:
        sample.append({"text": v["new_lines"], "cfg": v["cfg"], "impl": v["res"]["out"]})
    rep.coverage.update(
        evaluations=n_oracle + n_model + n_feat,
        distinct_nontrivial=len(distinct),
        rule="a case = (generated program with a non-empty diagnostic set, configuration, set of comment edits); counted when the "
             "program has at least one diagnostic and the case is a distinct (program, edits, configuration); programs mix one-line, "
             "multi-line, multi-code-per-line statements, errors on line 1 and on the last line, leading comment blocks, classes",
        samples=sample,
        traces_validated_against_impl=n_model - len(corr_mismatch),
        oracle_cases=n_oracle,
        multi_module_runs=n_multi,
        raw_independence_checked=n_raw_hyp,
        raw_independence_failures=len(raw_dep),
        model_runs=n_model,
        feature_lines=n_feat,
        out_of_fragment_runs=out_of_fragment,
        correspondence_mismatches=len(corr_mismatch),
        feature_mismatches=len(feat_mismatch),
        oracle_failures=len(failing),
        input_distribution={"program_lines": dict(sizes), "diagnostics_per_program": dict(ndiag), "codes": dict(codes_seen),
                            "cases": dict(hist), "programs": len(bases), "variants": len(variants)},
    )
    rep.assumptions = [
        "the raw stream (show_error calls outside catch_errors) does not depend on the ignore comments or on which codes are disabled — checked only by the oracle on generated programs",
        "str.splitlines() agrees with the tokenizer's line numbering on the generated programs (no \\f, \\x1c.. separators inside lines)",
        "translator harness/translate/lines.py",
    ]
    return rep.finish(
        proof,
        "coq_makefile + make theories/Properties/C11.vo; coqc theories/Properties/C11.v (Print Assumptions)" + ("; coqchk -o" if tier == "thorough" else ""),
        ["Coq 8.16.1 kernel (coqc; vm_compute in Examples and table obligations)", "translator harness/translate/lines.py",
         "extraction (ExtrOcamlBasic) + ocaml/c11_driver.ml", "harness/lines_impl.py raw-stream recorder (subclass of NameCheckVisitor)",
         "CPython re/str as reference for the character-level predicates"],
    )
