"""C12 — the checker is total: no crash, no internal error, well-formed output.

proof   : Properties/C12.v over Total/{Emit,Dispatch,Ops}.v and Gen/Total.v
          (error-code registry, Value class hierarchy, boolability isinstance
          chain, annotation visitor methods -- regenerated from the source)
tie     : translator harness/translate/total.py + correspondence of
          (a) Total.Emit.emit with BaseNodeVisitor.show_error on generated
              (file length, line number, column) triples, incl. out-of-range ones,
          (b) the dispatch models with get_boolability on an instance of every
              Value class and with a string annotation of every expression kind
oracle  : the property itself on the real checker: a grammar-based program
          stream under several enabled-code configurations (no exception, no
          internal_error, registered + enabled code, line inside the file,
          column inside the line, non-empty message) and a Value-API stream
          (can_assign, is_assignable, unite_values, substitute_typevars, ... on
          pairs of generated values must return instead of raising)
"""
from __future__ import annotations

import concurrent.futures as cf
import hashlib
import json
import random
import re
from pathlib import Path

import lib
from translate import total as tr_total

PROP = "C12"
CORPUS = Path(__file__).resolve().parent / "corpus" / "C12.json"
MODEL_HEADER = (
    "From Coq Require Import List ZArith String. Import ListNotations.\n"
    "Require Import PV.Total.Emit PV.Total.Dispatch PV.Gen.Total PV.Proofs.TotalGen."
)


def gen_files():
    return {"Total.v": tr_total.translate(str(lib.REPO))}


def run_worker(req, timeout=1500):
    return lib.run_impl_script("c12_worker.py", req, timeout=timeout)


# ---------------------------------------------------------------------------
# known findings: attribution by guard clause


def attribute(problem, source, findings):
    """Return the id of the known finding this problem falls under, or None.
    A problem is attributed only when it matches the finding's guard clause AND
    the implementation behaves as recorded (same `what`)."""
    for f in findings:
        g = f.get("guard", {})
        if g.get("what") != problem["what"]:
            continue
        if g.get("code") and g["code"] != problem.get("code"):
            continue
        if g.get("text_re") and not re.search(g["text_re"], (problem.get("exc_type") or "") + " " + (problem.get("exc_head") or "") + " " + (problem.get("text") or "")):
            continue
        if g.get("source_re") and not re.search(g["source_re"], source):
            continue
        if g.get("nonascii_byte_offset") and not (problem.get("line_nonascii") and problem.get("col_is_byte_offset")):
            continue  # outside the guard, or the implementation no longer behaves as the model predicts
        return f["id"]
    return None


# ---------------------------------------------------------------------------


def emit_cases(rng, n, exhaustive_upto):
    cases = []
    for nl in range(1, exhaustive_upto + 1):
        for ln in range(-nl - 2, nl + 3):
            cases.append([nl, ln, 0 if (ln + nl) % 2 else None])
    for _ in range(n):
        nl = rng.randrange(1, 30)
        ln = rng.choice([rng.randrange(1, nl + 1), rng.randrange(-nl - 3, nl + 4)])
        cases.append([nl, ln, rng.choice([None, 0, 1, rng.randrange(0, 8)])])
    return cases


def emit_term(case):
    nl, ln, col = case
    lines = "(repeat 0%nat " + str(nl) + ")"
    c = "None" if col is None else f"(Some ({col})%Z)"
    return f"emit_p show_error_params {lines} (Some ({ln})%Z) {c}"


def decode_emit(res):
    """model term -> same shape as the worker's answer"""
    if res == "Crash":
        return "crash"
    # ("Emitted", ("Some", ln), col, [ (i, b), ... ])
    _, ln, _col, ctx = res
    return {"lineno": ln[1] if isinstance(ln, tuple) else None, "ctx": [[i, bool(b)] for (i, b) in ctx]}


def run(tier: str, replay: str | None = None):
    rep = lib.Report(PROP, tier, "other")
    rng = random.Random(lib.seed() * 15485863 + 12)
    kf = lib.load_known_findings(PROP)["findings"]

    # 1. regenerate + prove
    broken_translation, proof, gen = None, None, None
    try:
        gen = gen_files()
    except tr_total.TranslateError as ex:
        broken_translation = str(ex)
    if gen is not None:
        proof = lib.prove(PROP, gen, thorough=(tier == "thorough"))
    try:
        all_codes = tr_total.error_codes(str(lib.REPO))
    except tr_total.TranslateError:
        all_codes = ["internal_error"]

    # 2. cases
    programs = []
    feats = {}
    value_pairs = 0
    ecases = []
    ccases = []
    do_dispatch = False
    if replay:
        r = json.loads(Path(replay).read_text())
        inp = r.get("input") or {}
        if "source" in inp:
            programs.append({"name": "replay", "source": inp["source"], "enabled": inp.get("enabled")})
            feats["replay"] = ["replay"]
        if "value_seed" in inp:
            value_pairs = inp["value_pairs"]
            vseed = inp["value_seed"]
            replay_matrix = inp.get("value_matrix", False)
        if "emit_case" in inp:
            ecases = [inp["emit_case"]]
        if "column_case" in inp:
            ccases = [inp["column_case"]]
        do_dispatch = "dispatch" in inp
    else:
        import gen_c12

        for i, c in enumerate(json.loads(CORPUS.read_text())["programs"]):
            programs.append({"name": f"corpus{i}", "source": c["source"], "enabled": c.get("enabled")})
            feats[f"corpus{i}"] = ["corpus:" + c["name"]]
        n_gen = 300 if tier == "quick" else 4000
        for i in range(n_gen):
            src, fs = gen_c12.gen_program(rng)
            programs.append({"name": f"gen{i}", "source": src, "enabled": gen_c12.gen_enabled(rng, all_codes)})
            feats[f"gen{i}"] = fs
        value_pairs = 8000 if tier == "quick" else 120000
        ecases = emit_cases(rng, 150 if tier == "quick" else 1500, 4 if tier == "quick" else 7)
        alphabet = ["a", "Z", " ", "0", "\u00e4", "\u00df", "\u65e5", "\u20ac", "\U0001f600", "\u0416"]
        ccases = ["".join(rng.choice(alphabet) for _ in range(rng.randrange(0, 12))) for _ in range(60 if tier == "quick" else 600)]
        do_dispatch = True
    vseed = locals().get("vseed", lib.seed() * 7 + 1)

    # per-construct counts of the program stream (the constructs the property text names)
    import ast as _ast

    construct_counts = {k: 0 for k in ("decorator", "class", "comprehension", "lambda", "star_expression", "f_string", "walrus",
                                       "match", "async", "string_annotation", "ill_typed_call")}
    programs_with = dict.fromkeys(construct_counts, 0)
    for p_ in programs:
        try:
            tree_ = _ast.parse(p_["source"])
        except SyntaxError:
            continue
        c_ = dict.fromkeys(construct_counts, 0)
        for n_ in _ast.walk(tree_):
            if isinstance(n_, (_ast.FunctionDef, _ast.AsyncFunctionDef, _ast.ClassDef)) and n_.decorator_list:
                c_["decorator"] += len(n_.decorator_list)
            if isinstance(n_, _ast.ClassDef):
                c_["class"] += 1
            if isinstance(n_, (_ast.ListComp, _ast.SetComp, _ast.DictComp, _ast.GeneratorExp)):
                c_["comprehension"] += 1
            if isinstance(n_, _ast.Lambda):
                c_["lambda"] += 1
            if isinstance(n_, _ast.Starred) or (isinstance(n_, _ast.keyword) and n_.arg is None) \
                    or (isinstance(n_, _ast.Dict) and any(k is None for k in n_.keys)):
                c_["star_expression"] += 1
            if isinstance(n_, _ast.JoinedStr):
                c_["f_string"] += 1
            if isinstance(n_, _ast.NamedExpr):
                c_["walrus"] += 1
            if isinstance(n_, _ast.Match):
                c_["match"] += 1
            if isinstance(n_, (_ast.AsyncFunctionDef, _ast.Await, _ast.AsyncFor, _ast.AsyncWith)) \
                    or (isinstance(n_, _ast.comprehension) and n_.is_async):
                c_["async"] += 1
            if isinstance(n_, _ast.arg) and isinstance(n_.annotation, _ast.Constant) and isinstance(n_.annotation.value, str):
                c_["string_annotation"] += 1
            if isinstance(n_, _ast.Call) and isinstance(n_.func, _ast.Name) and n_.func.id.startswith(("target", "helper", "take", "ps", "gen")):
                c_["ill_typed_call"] += 1
        for k_, v_ in c_.items():
            construct_counts[k_] += v_
            programs_with[k_] += 1 if v_ else 0
    if not replay:
        thin = sorted(k for k, v in programs_with.items() if v < 20)
        if thin:
            rep.harness_error(f"program stream too thin: fewer than 20 programs contain {thin} (counts {programs_with})")

    # 3. implementation (sharded over processes)
    nshards = 6
    shards = [programs[i::nshards] for i in range(nshards)]
    reqs = []
    for k, sh in enumerate(shards):
        req = {"programs": sh}
        if value_pairs:
            req["value_seed"] = vseed if replay else vseed * 100 + k
            req["value_pairs"] = value_pairs // nshards if not replay else (value_pairs if k == 0 else 0)
        if k == 0:
            req["value_matrix"] = bool(value_pairs) and (not replay or bool(locals().get("replay_matrix")))
            req["emit_cases"] = ecases
            req["column_cases"] = ccases
            req["dispatch"] = do_dispatch
        reqs.append(req)
    with cf.ThreadPoolExecutor(max_workers=6) as ex:
        outs = list(ex.map(lambda q: run_worker(q, timeout=600 if tier == "quick" else 2400), reqs))

    # 4. oracle verdicts on the program stream
    by_name = {p["name"]: p for p in programs}
    n_diag, code_hist, feat_hist, problem_hist = 0, {}, {}, {}
    failing = []  # (program, problem)
    nontrivial = set()
    for out in outs:
        for e in out["programs"]:
            n_diag += e["n"]
            for c, k in e["codes"].items():
                code_hist[str(c)] = code_hist.get(str(c), 0) + k
            if e["n"] >= 3 and len(e["codes"]) >= 2:
                nontrivial.add(hashlib.sha1(by_name[e["name"]]["source"].encode()).hexdigest())
            for pb in e["problems"]:
                problem_hist[pb["what"]] = problem_hist.get(pb["what"], 0) + 1
                fid = attribute(pb, by_name[e["name"]]["source"], kf)
                if fid:
                    rep.known(fid, next(f["what"] for f in kf if f["id"] == fid))
                else:
                    failing.append((e["name"], pb))
    for n in by_name:
        for f in feats.get(n, []):
            feat_hist[f] = feat_hist.get(f, 0) + 1
    seen_kinds = set()
    for name, pb in failing:
        key = (pb["what"], pb.get("code"), (pb.get("text") or "").strip().splitlines()[-1][:80] if pb.get("text") else "")
        if key in seen_kinds:
            continue
        seen_kinds.add(key)
        p = by_name[name]
        rep.violation({"kind": "failing-input", "input": {"source": p["source"], "enabled": p["enabled"]},
                       "observed": pb, "expected": "no exception, no internal_error, registered+enabled code, line inside the file, column inside the line, non-empty message",
                       "how_to_run": "./check C12 --replay <this file>"})
        if len(seen_kinds) >= 8:
            break

    for k, out in enumerate(outs):
        for se in out.get("section_errors", []):
            rep.violation({"kind": "failing-input", "input": {kk: vv for kk, vv in reqs[k].items() if kk != "programs"},
                           "observed": {"what": "exception", "section": se["section"], "text": se["text"]},
                           "expected": "the operation returns a result for well-formed inputs"})
            failing.append(("<section>", se))

    # 5. Value-API stream
    vops, vverdicts, vkinds, vproblems = 0, {}, {}, []
    for k, out in enumerate(outs):
        v = out.get("values")
        if not v:
            continue
        vops += v["ops"]
        for a, b in v["verdicts"].items():
            vverdicts[a] = vverdicts.get(a, 0) + b
        for a, b in v["kinds"].items():
            vkinds[a] = vkinds.get(a, 0) + b
        for pb in v["problems"]:
            vproblems.append((reqs[k]["value_seed"], reqs[k]["value_pairs"], pb))
    seen_v = set()
    for vs, vp, pb in vproblems:
        key = (pb.get("op"), (pb.get("exc") or "")[:60])
        if key in seen_v:
            continue
        seen_v.add(key)
        fid = attribute({"what": pb["what"], "code": pb.get("op"), "text": pb.get("exc")}, " ".join(pb.get("values", [])), kf)
        if fid:
            rep.known(fid, next(f["what"] for f in kf if f["id"] == fid))
            continue
        rep.violation({"kind": "failing-input", "input": {"value_seed": vs, "value_pairs": vp, "value_matrix": vs % 100 == 0}, "observed": pb,
                       "expected": "the operation returns a result for well-formed values", "how_to_run": "./check C12 --replay <this file>"})
        if len(seen_v) >= 5:
            break
    found_input = bool(failing or [1 for _ in seen_v if rep.violations])

    # 6. correspondence: emit model and dispatch models
    corr = []
    model_ok = proof is not None and not any("build failed" in b for b in proof.broken)
    impl_emit = outs[0].get("emit") or []
    impl_disp = outs[0].get("dispatch")
    n_corr = 0
    if model_ok:
        try:
            if ecases:
                mv = lib.coq_eval(MODEL_HEADER, [emit_term(c) for c in ecases], name="c12e")
                for c, m, i in zip(ecases, mv, impl_emit):
                    n_corr += 1
                    if decode_emit(m) != i:
                        corr.append(("Total.Emit.emit vs BaseNodeVisitor.show_error", {"emit_case": c}, i, decode_emit(m)))
            impl_cols = outs[0].get("columns") or []
            if ccases and impl_cols:
                # the name follows "('" + text + "', " : 2 ASCII characters, the text, 3 ASCII characters
                def widths(text):
                    return [1, 1] + [len(ch.encode("utf-8")) for ch in text] + [1, 1, 1]
                mv = lib.coq_eval("From Coq Require Import List. Import ListNotations.\nRequire Import PV.Total.Column PV.Gen.Total.",
                                  [f"reported_col_gen column_converted {lib.clist([str(w) + '%nat' for w in widths(t)])} {len(t) + 5}%nat" for t in ccases], name="c12c")
                for t, m, i in zip(ccases, mv, impl_cols):
                    n_corr += 1
                    if m != i:
                        corr.append(("Total.Column.reported_col_gen column_converted vs the column reported by show_error", {"column_case": t}, i, m))
            if impl_disp:
                classes = sorted(impl_disp["boolability"])
                kinds = sorted(impl_disp["annotation"])
                mv = lib.coq_eval(MODEL_HEADER, [f'boolab_crashes "{c}"' for c in classes] + [f'annotation_crashes "{k}"' for k in kinds], name="c12d")
                for c, m in zip(classes, mv[: len(classes)]):
                    n_corr += 1
                    if impl_disp["boolability"][c] != m:
                        corr.append(("TotalGen.boolab_crashes vs boolability.get_boolability", {"dispatch": "boolability", "class": c}, impl_disp["boolability"][c], m))
                for k, m in zip(kinds, mv[len(classes):]):
                    n_corr += 1
                    if impl_disp["annotation"][k] != m:
                        corr.append(("TotalGen.annotation_crashes vs annotations._Visitor", {"dispatch": "annotation", "kind": k}, impl_disp["annotation"][k], m))
        except RuntimeError as ex:
            rep.violation({"kind": "broken-correspondence", "correspondence": "Total models vs pyanalyze", "detail": str(ex)[-1500:]}, no_failing_input=True)
    # a crash of show_error / of a dispatch on the real code that the property forbids is a failing input by itself
    for name, inp, i, m in corr:
        if "emit_case" in inp:
            nl, ln, _ = inp["emit_case"]
            if i == "crash" and 1 <= ln <= nl:
                rep.violation({"kind": "failing-input", "input": inp, "observed": i, "expected": m})
                found_input = True
    if corr and not found_input:
        name, inp, i, m = corr[0]
        rep.violation({"kind": "broken-correspondence", "correspondence": name, "input": inp, "observed": i, "model": m}, no_failing_input=True)
    if broken_translation and not found_input:
        rep.violation({"kind": "broken-obligation", "theorem": "Gen/Total.v (translator harness/translate/total.py)", "detail": broken_translation}, no_failing_input=True)
    if proof is not None and not proof.ok and not found_input:
        rep.violation({"kind": "broken-obligation", "theorem": "; ".join(proof.broken), "log": proof.log[-1500:]}, no_failing_input=True)

    # 7. evidence
    sample = None
    for p in programs:
        if p["name"].startswith("gen"):
            sample = {"program": p["source"][:1600], "enabled": "test default" if p["enabled"] is None else f"{len(p['enabled'])} codes"}
            break
    rep.coverage.update(
        explanation="Proof (Coq, closed): show_error's location/context rendering raises exactly when the line number is not a valid subscript and renders inside the file for 1 <= lineno <= len(lines); "
        "isinstance-chain dispatch with a crashing fall-through is total exactly on the subclasses of its targets, instantiated on the Value class hierarchy and the boolability chain regenerated from the source "
        "(total outside a named guard of 7 classes) and on the annotation visitor (no expression kind raises); constraint construction never yields an Or/And with < 2 members, so apply cannot fail to unpack; "
        "max()/next(iter()) guards; the error-code registry is duplicate-free. Exploration (not proof): whole-checker totality and well-formedness on a generated program stream under several enabled-code "
        "configurations, and the public Value API on generated pairs of values.",
        evaluations=len(programs) + vops + n_corr,
        distinct_nontrivial=len(nontrivial),
        rule="program stream: harness/gen_c12.py (flow, calls, protocols, overloads, type variables, TypedDicts, classes, decorators, comprehensions, lambdas, star-expressions, f-strings, walrus, match, async, odd and string annotations, "
        "ParamSpec, PEP 695 aliases, wrong arities, bad operands) x an enabled-code configuration (test default / all / random subsets); a program is non-trivial when it yields >= 3 diagnostics of >= 2 codes; distinct by source hash. "
        "Value stream: pairs of values of depth <= 3 over ~55 atoms; each pair is put through can_assign both ways, is_assignable, unite_values, substitute_typevars, str, simplify, get_type_value, ==/hash.",
        samples=[sample] if sample else [],
        traces_validated_against_impl=n_corr - len(corr),
        input_distribution={"programs": len(programs), "diagnostics": n_diag, "features": feat_hist, "diagnostic_codes": code_hist,
                            "construct_occurrences": construct_counts, "programs_containing_construct": programs_with,
                            "enabled_configs": {"default": sum(1 for p in programs if p["enabled"] is None), "explicit": sum(1 for p in programs if p["enabled"] is not None)},
                            "oracle_problems": problem_hist, "value_ops": vops, "value_verdicts": vverdicts, "value_kinds": vkinds,
                            "emit_cases": len(ecases), "emit_crashes_predicted": sum(1 for x in impl_emit if x == "crash")},
        correspondence_mismatches=len(corr),
        exhaustive=False,
    )
    rep.assumptions = [
        "programs must import (exec) cleanly, as the property states; generated programs that do not are regenerated",
        "diagnostics without a line number are counted as ill-formed (the property asks for a line inside the file)",
        "the Value generator produces only well-formed values (valid signatures, real CustomCheck objects)",
        "translator harness/translate/total.py; the instance table of c12_worker.dispatch_cases",
    ]
    return rep.finish(
        proof,
        "coq_makefile + make theories/Properties/C12.vo; coqc theories/Properties/C12.v (Print Assumptions)" + ("; coqchk -o" if tier == "thorough" else ""),
        ["Coq 8.16.1 kernel (coqc; vm_compute for the generated-data obligations and model evaluation)", "translator harness/translate/total.py",
         "differential harness/c12.py + c12_worker.py + gen_c12.py", "CPython ast module (expression kinds)"],
    )
