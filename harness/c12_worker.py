"""C12 worker: real pyanalyze in one process.

stdin : JSON {
  "programs": [{"name":.., "source":.., "enabled": null | [code names]}],   # program stream
  "value_seed": int, "value_pairs": int,                                     # Value-API stream
  "emit_cases": [[nlines, lineno, col|null], ...],                           # show_error correspondence
  "dispatch": bool,                                                          # boolability / annotation-visitor correspondence
}
stdout: last line `@@JSON <doc>`.

For every program the oracle of the property is evaluated here: no exception,
no internal_error, registered code, line inside the file, column inside the
line, non-empty message.
"""
import ast
import itertools
import contextlib
import io
import json
import random
import re
import sys

sys.path.insert(0, __import__("os").path.dirname(__file__))
from c10_worker import make_module  # noqa: E402

_COUNTER = [0]


def check_program(src, enabled):
    from pyanalyze.error_code import DISABLED_IN_TESTS, ErrorCode
    from pyanalyze.name_check_visitor import ClassAttributeChecker
    from pyanalyze.test_name_check_visitor import ConfiguredNameCheckVisitor

    _COUNTER[0] += 1
    name = f"c12mod_{_COUNTER[0]}"
    tree = ast.parse(src, "<test input>")
    mod = make_module(src, name, {})
    if enabled is None:
        settings = {code: code not in DISABLED_IN_TESTS for code in ErrorCode}
    else:
        settings = {code: code.name in enabled for code in ErrorCode}
    kwargs = ConfiguredNameCheckVisitor.prepare_constructor_kwargs({"settings": settings})
    with ClassAttributeChecker(enabled=True, options=kwargs["checker"].options) as attribute_checker:
        visitor = ConfiguredNameCheckVisitor(
            mod.__name__, src, tree, module=mod, attribute_checker=attribute_checker, verbosity=0, **kwargs
        )
        result = visitor.check()
        result += visitor.perform_final_checks(kwargs)
    sys.modules.pop(name, None)
    return result, settings


def judge(src, result, settings):
    """-> (problems, stats).  problem = {"what":.., "code":.., "lineno":.., "col":.., "text":..}"""
    from pyanalyze.error_code import ErrorCode

    registered = {e.name for e in ErrorCode}
    # lines as the tokenizer numbers them (and as node_visitor._split_lines does since /repo 4b967d1):
    # only \n, \r\n and \r end a line -- str.splitlines() would also split at form feeds etc.
    lines = re.split(r"\r\n|\r|\n", src)
    if lines and lines[-1] == "":
        lines.pop()
    problems = []
    codes = {}
    for f in result:
        code = f.get("code")
        cname = getattr(code, "name", None)
        codes[cname] = codes.get(cname, 0) + 1
        msg = f.get("message") or ""
        desc = f.get("description") or ""
        lineno = f.get("lineno")
        col = f.get("col_offset")

        def bad(what):
            pb = {"what": what, "code": cname, "lineno": lineno, "col": col,
                  "text": re.sub(r"0x[0-9a-f]+", "0x?", desc)[-600:]}
            if what == "internal_error":
                m = re.search(r"Internal error: (\w+)", desc)
                pb["exc_type"] = m.group(1) if m else ""
                # the beginning of the exception text (the tail alone may be cut inside a long repr)
                pb["exc_head"] = re.sub(r"0x[0-9a-f]+", "0x?", desc[m.start():m.start() + 240]) if m else ""
            if what == "column-outside-line":
                ln = lines[lineno - 1]
                raw = ln.encode("utf-8")
                pb["line_nonascii"] = any(ord(ch) > 127 for ch in ln)
                try:
                    raw[:col].decode("utf-8")
                    pb["col_is_byte_offset"] = col <= len(raw)
                except UnicodeDecodeError:
                    pb["col_is_byte_offset"] = False
            problems.append(pb)

        if cname == "internal_error":
            bad("internal_error")
            continue
        if code is None or cname not in registered:
            bad("unregistered-code")
        elif not settings.get(code, True):
            bad("disabled-code-reported")
        if not desc.strip() or not msg.strip():
            bad("empty-message")
        if lineno is None:
            bad("no-line-number")
        elif not (1 <= lineno <= len(lines)):
            bad("line-outside-file")
        elif col is None:
            bad("no-column")
        elif not (0 <= col <= len(lines[lineno - 1])):
            bad("column-outside-line")
    return problems, codes


# ---------------------------------------------------------------------------
# Value API stream


def value_universe(rng):
    import collections.abc
    from typing import NewType, TypeVar

    from typing_extensions import ParamSpec

    from pyanalyze import value as V
    from pyanalyze.extensions import CustomCheck
    from pyanalyze.signature import ParameterKind, Signature, SigParameter
    from pyanalyze.value import (
        NO_RETURN_VALUE, UNINITIALIZED_VALUE, VOID, AnnotatedValue, AnySource, AnyValue, CallableValue, CustomCheckExtension,
        DictIncompleteValue, GenericValue, KnownValue, KVPair, MultiValuedValue, NewTypeValue, SequenceValue, SubclassValue,
        TypedDictEntry, TypedDictValue, TypedValue, TypeVarValue, UnpackedValue,
    )

    T = TypeVar("T")
    U = TypeVar("U", bound=int)
    W = TypeVar("W", int, str)
    P = ParamSpec("P")
    NT = NewType("NT", int)

    class A:
        pass

    class B(A):
        def __bool__(self):
            return False

    import enum

    class E(enum.Enum):
        a = 1
        b = 2

    atoms = [
        AnyValue(AnySource.explicit), AnyValue(AnySource.unannotated), KnownValue(None), KnownValue(1), KnownValue(True), KnownValue("a"),
        KnownValue(b"x"), KnownValue(2.5), KnownValue((1, "a")), KnownValue([1, 2]), KnownValue({"k": 1}), KnownValue({1, 2}),
        KnownValue(int), KnownValue(len), KnownValue(E.a), KnownValue(A()), KnownValue(NotImplemented), KnownValue(...),
        TypedValue(int), TypedValue(str), TypedValue(float), TypedValue(bool), TypedValue(object), TypedValue(list), TypedValue(dict),
        TypedValue(tuple), TypedValue(type), TypedValue(A), TypedValue(B), TypedValue(E), TypedValue(type(None)),
        TypedValue(collections.abc.Sequence), TypedValue(collections.abc.Callable), TypedValue(collections.abc.Hashable),
        TypedValue("_typeshed.SupportsKeysAndGetItem"),
        NewTypeValue(NT), SubclassValue(TypedValue(int)), SubclassValue(TypedValue(A), exactly=True),
        TypeVarValue(T), TypeVarValue(U, bound=TypedValue(int)), TypeVarValue(W, constraints=(TypedValue(int), TypedValue(str))),
        TypeVarValue(P, is_paramspec=True), V.ParamSpecArgsValue(P), V.ParamSpecKwargsValue(P),
        NO_RETURN_VALUE, UNINITIALIZED_VALUE, VOID, MultiValuedValue([]),
        CallableValue(Signature.make([SigParameter("x", ParameterKind.POSITIONAL_ONLY, annotation=TypedValue(int))], TypedValue(str))),
        CallableValue(__import__("pyanalyze.signature").signature.ANY_SIGNATURE),
        TypedDictValue({"a": TypedDictEntry(TypedValue(int)), "b": TypedDictEntry(TypedValue(str), required=False)}),
        TypedDictValue({}, extra_keys=TypedValue(int)),
        DictIncompleteValue(dict, [KVPair(KnownValue("k"), TypedValue(int)), KVPair(TypedValue(str), TypedValue(str), is_many=True)]),
        DictIncompleteValue(dict, []),
        SequenceValue(tuple, []), SequenceValue(list, [(True, TypedValue(int))]),
        # large literal unions (>= 10 members switch MultiValuedValue to its hashed fast path)
        MultiValuedValue([KnownValue(i) for i in range(12)]),
        MultiValuedValue([KnownValue(c) for c in "abcdefghijkl"]),
        MultiValuedValue([KnownValue(x) for x in (None, 0, 1, "a", "b", b"x", 2.5, True, False, (), (1,), "zz", 7)]),
        MultiValuedValue([KnownValue(i) for i in range(10)] + [TypedValue(str)]),
        MultiValuedValue([KnownValue(i) for i in range(11)] + [KnownValue([1])]),
        # unhashable literals
        KnownValue([]), KnownValue({}), KnownValue(set()), KnownValue([[1], {2: 3}]), KnownValue(bytearray(b"x")), KnownValue(({}, [])),
    ]
    # the remaining Value classes (the ones get_boolability has no branch for, and the rarer ones)
    from pyanalyze.signature import ActualArguments
    from pyanalyze.stacked_scopes import Composite

    alias = V.TypeAlias(lambda: TypedValue(int), lambda: ())
    galias = V.TypeAlias(lambda: GenericValue(list, [TypeVarValue(T)]), lambda: (T,))
    atoms += [
        V.TypeAliasValue("IntAlias", "mod", alias), V.TypeAliasValue("ListAlias", "mod", galias, (TypedValue(str),)),
        V.SyntheticModuleValue(("collections", "abc")), V.SyntheticModuleValue(()),
        V.UnboundMethodValue("append", Composite(TypedValue(list))), V.UnboundMethodValue("keys", Composite(KnownValue({})), "asynq"),
        V.CallValue(ActualArguments(positionals=[(True, Composite(TypedValue(int)))], star_args=None, keywords={"k": (True, Composite(KnownValue(1)))},
                                    star_kwargs=None, kwargs_required=False, pos_or_keyword_params=frozenset())),
        V.KnownValueWithTypeVars(len, {T: TypedValue(int)}), V.VariableNameValue(["uid"]),
        V.AsyncTaskIncompleteValue(__import__("asynq").AsyncTask, TypedValue(int)),
        UnpackedValue(SequenceValue(tuple, [(True, TypedValue(int))])),
        AnnotatedValue(TypedValue(int), [V.TypeIsExtension(TypedValue(bool)), V.TypeGuardExtension(TypedValue(str))]),
        SubclassValue(TypeVarValue(T)), GenericValue(dict, [TypeVarValue(T), TypeVarValue(U, bound=TypedValue(int))]),
    ]

    def gen(depth):
        r = rng.random()
        if depth <= 0 or r < 0.45:
            return rng.choice(atoms)
        k = rng.randrange(8)
        if k == 0:
            return MultiValuedValue([gen(depth - 1) for _ in range(rng.randrange(0, 4))])
        if k == 1:
            return GenericValue(rng.choice([list, set, frozenset, collections.abc.Sequence, collections.abc.Iterable]), [gen(depth - 1)])
        if k == 2:
            return GenericValue(rng.choice([dict, collections.abc.Mapping]), [gen(depth - 1), gen(depth - 1)])
        if k == 3:
            return SequenceValue(rng.choice([tuple, list]), [(rng.random() < 0.25, gen(depth - 1)) for _ in range(rng.randrange(0, 4))])
        if k == 4:
            return AnnotatedValue(gen(depth - 1), [CustomCheckExtension(CustomCheck())] if rng.random() < 0.5 else [])
        if k == 5:
            return SubclassValue(gen(depth - 1)) if rng.random() < 0.5 else GenericValue(tuple, [gen(depth - 1)])
        if k == 6:
            return UnpackedValue(gen(depth - 1)) if rng.random() < 0.2 else GenericValue(list, [gen(depth - 1), gen(depth - 1)])
        kind = rng.choice([ParameterKind.POSITIONAL_ONLY, ParameterKind.POSITIONAL_OR_KEYWORD, ParameterKind.KEYWORD_ONLY])
        return CallableValue(Signature.make(
            [SigParameter(f"p{i}", kind, annotation=gen(depth - 1)) for i in range(rng.randrange(0, 3))],
            gen(depth - 1)))

    gen.atoms = atoms
    tvmaps = [{}, {T: TypedValue(int)}, {T: KnownValue(1), U: TypedValue(bool)}, {T: MultiValuedValue([]), W: TypedValue(str)},
              {P: AnyValue(AnySource.explicit)}, {T: TypeVarValue(U)}]
    return gen, tvmaps


def value_stream(seed, npairs, matrix_too=True):
    from pyanalyze.checker import Checker
    from pyanalyze.value import CanAssignError, Value, unite_values

    rng = random.Random(seed)
    gen, tvmaps = value_universe(rng)
    ctx = Checker()
    problems, ops, verdicts = [], 0, {"assignable": 0, "error": 0}
    kinds = {}

    def attempt(opname, fn, *vals):
        nonlocal ops
        ops += 1
        try:
            return fn()
        except RecursionError:
            return None
        except Exception as ex:  # noqa
            if len(problems) < 40:
                problems.append({"what": "value-api-raises", "op": opname, "exc": f"{type(ex).__name__}: {ex}"[:300],
                                 "values": [re.sub(r"0x[0-9a-f]+", "0x?", repr(v))[:400] for v in vals]})
            return None

    atoms = gen.atoms
    matrix = [(a, b) for a in atoms for b in atoms] if matrix_too else []
    pairs = itertools.chain(matrix, ((gen(3), gen(3)) for _ in range(npairs)))
    for a, b in pairs:
        kinds[type(a).__name__] = kinds.get(type(a).__name__, 0) + 1
        r = attempt("can_assign", lambda: a.can_assign(b, ctx), a, b)
        if r is not None:
            verdicts["error" if isinstance(r, CanAssignError) else "assignable"] += 1
            if isinstance(r, CanAssignError):
                attempt("CanAssignError.display", lambda: str(r), a, b)
        attempt("can_assign", lambda: b.can_assign(a, ctx), b, a)
        attempt("is_assignable", lambda: a.is_assignable(b, ctx), a, b)
        u = attempt("unite_values", lambda: unite_values(a, b), a, b)
        if u is not None and not isinstance(u, Value):
            problems.append({"what": "value-api-non-value", "op": "unite_values", "values": [repr(a)[:300], repr(b)[:300]]})
        tv = rng.choice(tvmaps)
        s = attempt("substitute_typevars", lambda: a.substitute_typevars(tv), a)
        if s is not None and not isinstance(s, Value):
            problems.append({"what": "value-api-non-value", "op": "substitute_typevars", "values": [repr(a)[:300]]})
        attempt("str", lambda: str(a), a)
        attempt("simplify", lambda: a.simplify(), a)
        attempt("get_type_value", lambda: a.get_type_value(), a)
        attempt("hash-eq", lambda: (a == b, hash(a) if _hashable(a) else 0), a, b)
    return {"problems": problems, "ops": ops, "verdicts": verdicts, "kinds": kinds}


def _hashable(v):
    try:
        hash(v)
        return True
    except TypeError:
        return False


# ---------------------------------------------------------------------------
# show_error correspondence


def emit_cases(cases):
    from pyanalyze.error_code import ErrorCode
    from pyanalyze.node_visitor import _FakeNode
    from pyanalyze.test_name_check_visitor import ConfiguredNameCheckVisitor

    out = []
    kwargs = ConfiguredNameCheckVisitor.prepare_constructor_kwargs({})
    visitors = {}
    for nlines, lineno, col in cases:
        if nlines not in visitors:
            src = "".join(f"v{i} = {i}\n" for i in range(nlines))
            visitors[nlines] = (src, ast.parse(src))
        src, tree = visitors[nlines]
        try:
            v = ConfiguredNameCheckVisitor("<emit>", src, tree, module=ast, **kwargs)
        except Exception as ex:  # noqa
            out.append({"other": f"constructor: {type(ex).__name__}: {ex}"[:200]})
            continue

        class N:
            pass

        node = N()
        node.lineno = lineno
        if col is not None:
            node.col_offset = col
        else:
            node.col_offset = None
        try:
            f = v.show_error(node, "message", ErrorCode.bad_star_import)
        except IndexError:
            out.append("crash")
            continue
        except Exception as ex:  # noqa
            out.append({"other": f"{type(ex).__name__}: {ex}"[:200]})
            continue
        ctx = (f or {}).get("context", "")
        entries = []
        for line in ctx.splitlines():
            m = re.match(r"^\s*(\d+): ", line)
            if m:
                entries.append([int(m.group(1)), False])
            elif line.strip() == "^" and entries:
                entries[-1][1] = True
        out.append({"lineno": (f or {}).get("lineno"), "ctx": entries})
    return out


# ---------------------------------------------------------------------------
# column correspondence: what col_offset does the real parser + show_error report for a
# name that follows a given string of characters?


def column_cases(cases):
    from pyanalyze.error_code import ErrorCode
    from pyanalyze.test_name_check_visitor import ConfiguredNameCheckVisitor

    out = []
    kwargs = ConfiguredNameCheckVisitor.prepare_constructor_kwargs({})
    for text in cases:
        src = "(" + repr(text)[1:-1].join("''") + ", zz_name)\n" if False else "('" + text + "', zz_name)\n"
        tree = ast.parse(src)
        name = [n for n in ast.walk(tree) if isinstance(n, ast.Name)][0]
        try:
            v = ConfiguredNameCheckVisitor("<col>", src, tree, module=ast, **kwargs)
            f = v.show_error(name, "message", ErrorCode.bad_star_import)
            out.append((f or {}).get("col_offset"))
        except Exception as ex:  # noqa
            out.append({"other": f"{type(ex).__name__}: {ex}"[:200]})
    return out


# ---------------------------------------------------------------------------
# dispatch correspondence


def dispatch_cases():
    """-> {"boolability": {class name: crashes?}, "annotation": {expr kind: internal_error?}}"""
    from typing import TypeVar

    from typing_extensions import ParamSpec

    from pyanalyze import value as V
    from pyanalyze.boolability import get_boolability
    from pyanalyze.signature import Signature
    from pyanalyze.stacked_scopes import Composite
    from pyanalyze.value import AnySource, AnyValue, KnownValue, TypedValue

    T = TypeVar("T")
    P = ParamSpec("P")
    alias = V.TypeAlias(lambda: TypedValue(int), lambda: ())
    inst = {
        "AnyValue": AnyValue(AnySource.explicit), "VoidValue": V.VOID, "TypeAliasValue": V.TypeAliasValue("X", "m", alias),
        "UninitializedValue": V.UNINITIALIZED_VALUE, "KnownValue": KnownValue(1), "KnownValueWithTypeVars": V.KnownValueWithTypeVars(len, {}),
        "SyntheticModuleValue": V.SyntheticModuleValue(("a",)), "UnboundMethodValue": V.UnboundMethodValue("append", Composite(TypedValue(list))),
        "TypedValue": TypedValue(int), "GenericValue": V.GenericValue(list, [TypedValue(int)]),
        "SequenceValue": V.SequenceValue(tuple, [(False, KnownValue(1))]), "DictIncompleteValue": V.DictIncompleteValue(dict, []),
        "TypedDictValue": V.TypedDictValue({"a": V.TypedDictEntry(TypedValue(int))}),
        "CallableValue": V.CallableValue(Signature.make([])), "SubclassValue": V.SubclassValue(TypedValue(int)),
        "TypeVarValue": V.TypeVarValue(T), "ParamSpecArgsValue": V.ParamSpecArgsValue(P), "ParamSpecKwargsValue": V.ParamSpecKwargsValue(P),
        "AnnotatedValue": V.AnnotatedValue(TypedValue(int), []), "UnpackedValue": V.UnpackedValue(TypedValue(tuple)),
        "VariableNameValue": V.VariableNameValue(["uid"]), "MultiValuedValue": V.MultiValuedValue([KnownValue(1), KnownValue(None)]),
    }
    bool_out = {}
    for k, v in inst.items():
        try:
            get_boolability(v)
            bool_out[k] = False
        except AssertionError:
            bool_out[k] = True
        except Exception as ex:  # noqa
            bool_out[k] = f"{type(ex).__name__}: {ex}"[:200]
    exprs = {
        "Attribute": "typing.List", "Await": None, "BinOp": "int | str", "BoolOp": "int and str", "Call": "print(1)", "Compare": "1 < 2",
        "Constant": "None", "Dict": "{'a': int}", "DictComp": "{k: k for k in ()}", "FormattedValue": None, "GeneratorExp": "(k for k in ())",
        "IfExp": "int if True else str", "JoinedStr": "f'{int}'", "Lambda": "lambda: 1", "List": "[int]", "ListComp": "[k for k in ()]",
        "Name": "int", "NamedExpr": "(k := int)", "Set": "{int}", "SetComp": "{k for k in ()}", "Slice": "int[1:2]",
        "Starred": "tuple[int, *tuple[str, ...]]", "Subscript": "list[int]", "Tuple": "(int, str)", "UnaryOp": "-1", "Yield": None, "YieldFrom": None,
    }
    ann_out = {}
    for kind, text in exprs.items():
        if text is None:
            continue
        src = "import typing\ndef f(x: " + repr(text) + "): pass\n"
        try:
            with contextlib.redirect_stderr(io.StringIO()), contextlib.redirect_stdout(io.StringIO()):
                result, _ = check_program(src, None)
            ann_out[kind] = any(getattr(f.get("code"), "name", None) == "internal_error" for f in result)
        except Exception as ex:  # noqa
            ann_out[kind] = f"raises {type(ex).__name__}"
    return {"boolability": bool_out, "annotation": ann_out}


def main():
    req = json.loads(sys.stdin.read())
    doc = {"programs": []}
    for p in req.get("programs", []):
        entry = {"name": p["name"]}
        try:
            with contextlib.redirect_stderr(io.StringIO()), contextlib.redirect_stdout(io.StringIO()):
                result, settings = check_program(p["source"], p.get("enabled"))
            problems, codes = judge(p["source"], result, settings)
            entry.update(problems=problems, codes=codes, n=len(result))
        except BaseException as ex:  # noqa
            import traceback

            entry.update(problems=[{"what": "exception", "text": (f"{type(ex).__name__}: {ex}\n" + traceback.format_exc())[-900:]}], codes={}, n=0)
        doc["programs"].append(entry)
    import traceback

    doc["section_errors"] = []
    for key, cond, fn in (
        ("values", req.get("value_pairs"), lambda: value_stream(req.get("value_seed", 0), req["value_pairs"], bool(req.get("value_matrix")))),
        ("emit", req.get("emit_cases"), lambda: emit_cases(req["emit_cases"])),
        ("columns", req.get("column_cases"), lambda: column_cases(req["column_cases"])),
        ("dispatch", req.get("dispatch"), dispatch_cases),
    ):
        if not cond:
            continue
        try:
            doc[key] = fn()
        except BaseException as ex:  # noqa
            doc["section_errors"].append({"section": key, "text": (f"{type(ex).__name__}: {ex}\n" + traceback.format_exc())[-900:]})
    sys.stdout.write("\n@@JSON " + json.dumps(doc) + "\n")


if __name__ == "__main__":
    main()
