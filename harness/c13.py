"""C13 — static and runtime views of declarations agree.

proof      : Properties/C13.v over Annot/Routes.v + Annot/DefSig.v
tie        : correspondence of route_ast / route_runtime / route_visitor with
             type_from_ast, type_from_runtime("E"), type_from_runtime(eval(E)) and a
             parameter annotated E / "E" in a checked module; sig_from_def / sig_from_runtime
             with a nested def (compute_parameters) and ArgSpecCache.get_argspec(function)
oracle     : the property itself on the real code: the five routes must give the same
             type; both signature builders the same parameters; the same call placed in
             a nested scope, in the defining module and in an importing module must get
             the same diagnostics
"""
from __future__ import annotations

import ast
import contextlib
import importlib
import io
import json
import random
import re
import shutil
import sys
import tempfile
import warnings
from pathlib import Path

import lib
from translate import annot as tr_annot

PROP = "C13"
CORPUS = lib.VERIF / "harness" / "corpus" / "C13.json"

PRELUDE = """import typing, collections.abc
from typing import Any, Optional, Union, List, Dict, Tuple, Type, Callable, Literal, Annotated, Final, ClassVar, Sequence, Set, Iterable, Mapping
from typing import NewType, TypedDict, Protocol, TypeVar, ParamSpec, Concatenate
from typing_extensions import Unpack
class A: pass
class B(A): pass
class filter: pass          # a module-level class that shadows a builtin
NT = NewType("NT", int)
class TD(TypedDict):
    a: int
class P(Protocol):
    def m(self) -> int: ...
T = TypeVar("T")
P2 = ParamSpec("P2")
type IntOrStr = int | str
type LA[X] = list[X]
"""

# forms outside the model's vocabulary: evaluated through all five routes and compared with each
# other (the oracle), never with the model; counted as "excluded" in the evidence
EXCLUDED_FORMS = [
    "IntOrStr", "LA[int]", "list[IntOrStr]", "Optional[LA[str]]", "tuple[IntOrStr, ...]", "type[IntOrStr]", "IntOrStr | None",
    '"IntOrStr"', '"LA[int]"', 'list["IntOrStr"]', "dict[str, LA[IntOrStr]]",
    "Annotated[int, 'meta']", "Annotated[int, {'k': 1}]", "Annotated[Optional[A], 'x', 2]", 'Annotated["A", "m"]',
    "Callable[P2, int]", "Callable[Concatenate[int, P2], str]", "list[Callable[P2, T]]",
    "List", "Dict", "Tuple", "Callable", "Type", "type", "tuple", "Sequence",
    '"Annotated[()]"', 'list["Annotated[()]"]',
    # deliberately unsupported syntax inside string annotations: every route must report it, and the checked-module
    # routes must report it *at the annotation* (positions inside the parsed string are not positions in the file)
    '"int if A else str"', '"lambda: int"', 'list["int < str"]', '"[int for _ in ()]"', 'Optional["f\'{int}\'"]',
]

# class codes shared with the Coq model
CLASSES = {"int": 1, "str": 1002, "bytes": 3, "float": 4, "A": 5, "B": 6, "object": 7, "filter": 9, "NT": 30, "TD": 31, "P": 32, "T": 33}
GENERICS = {  # code -> (arity, spellings)
    20: (1, ["list", "List"]),
    22: (1, ["set", "Set"]),
    24: (1, ["Sequence", "collections.abc.Sequence"]),
    25: (1, ["Iterable"]),
    1001: (2, ["dict", "Dict"]),
    26: (2, ["Mapping"]),
}
CODE_OF_TYPE = {"filter": 9, "P": 32, "int": 1, "str": 1002, "bytes": 3, "float": 4, "A": 5, "B": 6, "object": 7, "list": 20, "set": 22, "Sequence": 24,
                "Iterable": 25, "dict": 1001, "Mapping": 26, "tuple": 1000, "type": 8}
LITS = {0: "0", 1: "1", 2: "2", -1: "-1", 10: '"a"', 11: '"b"', 20: "True", 30: 'b"x"'}
LIT_OBJ = {0: 0, 1: 1, 2: 2, -1: -1, 10: "a", 11: "b", 20: True, 30: b"x"}

# ---------------------------------------------------------------------------
# annotation expressions: tuples mirroring the Coq constructors


def gen_expr(rng, depth, exotic=0.12):
    if depth <= 0 or rng.random() < 0.25:
        r = rng.random()
        if r < 0.6:
            return ("EClass", rng.choice(list(CLASSES.values())))
        if r < 0.75:
            return ("ENone",)
        if r < 0.85:
            return ("EAny",)
        if r < 0.93:
            return ("ELiteral", rng.sample(list(LITS), rng.choice([1, 1, 2, 3])))
        if r < 0.97:
            return ("EAlias", 40)
        return ("ETupleEmpty",)
    sub = lambda: gen_expr(rng, depth - 1, exotic)
    subs = lambda lo, hi: [sub() for _ in range(rng.randint(lo, hi))]
    if rng.random() < exotic:
        k = rng.choice(["EStarTuple", "ELitNested", "EFinal", "EClassVar"])
        if k == "EStarTuple":
            return (k, subs(0, 2), sub())
        if k == "ELitNested":
            return (k, rng.sample(list(LITS), rng.choice([1, 2])), rng.sample(list(LITS), rng.choice([0, 1, 2])))
        return (k, sub())
    k = rng.choice(["EOptional", "EUnion", "EOr", "EGeneric", "EGeneric", "ETupleVar", "ETupleFixed", "EUnpackTuple", "EType", "ECallableAny",
                    "ECallable", "EAnnotated", "EStr", "EStr", "EAliasApp"])
    if k == "EAliasApp":
        return (k, 41, [sub()])
    if k == "EUnion":
        return (k, subs(1, 3))
    if k == "EOr":
        return (k, sub(), sub())
    if k == "EGeneric":
        c = rng.choice(list(GENERICS))
        return (k, c, [sub() for _ in range(GENERICS[c][0])])
    if k == "ETupleFixed":
        return (k, subs(1, 3))
    if k == "EUnpackTuple":
        return (k, subs(0, 2), sub())
    if k == "ECallable":
        return (k, subs(0, 2), sub())
    if k == "EAnnotated":
        return (k, sub(), rng.choice([1, 2]))
    return (k, sub())


def to_list(e):
    return [to_list(x) if isinstance(x, (tuple, list)) and x and isinstance(x[0], str) else ([to_list(y) for y in x] if isinstance(x, (list, tuple)) else x) for x in e]


def norm_expr(e):
    """JSON form -> tuple form"""
    k = e[0]
    if k in ("EClass", "EAlias"):
        return (k, int(e[1]))
    if k == "EAliasApp":
        return (k, int(e[1]), [norm_expr(x) for x in e[2]])
    if k in ("ENone", "EAny", "ETupleEmpty"):
        return (k,)
    if k in ("EOptional", "ETupleVar", "EType", "ECallableAny", "EFinal", "EClassVar", "EStr"):
        return (k, norm_expr(e[1]))
    if k in ("EUnion", "ETupleFixed"):
        return (k, [norm_expr(x) for x in e[1]])
    if k == "EOr":
        return (k, norm_expr(e[1]), norm_expr(e[2]))
    if k == "EGeneric":
        return (k, int(e[1]), [norm_expr(x) for x in e[2]])
    if k in ("EStarTuple", "EUnpackTuple", "ECallable"):
        return (k, [norm_expr(x) for x in e[1]], norm_expr(e[2]))
    if k == "ELiteral":
        return (k, [int(x) for x in e[1]])
    if k == "ELitNested":
        return (k, [int(x) for x in e[1]], [int(x) for x in e[2]])
    if k == "EAnnotated":
        return (k, norm_expr(e[1]), int(e[2]))
    if k == "EBareUnpack":
        return (k, e[1], [norm_expr(x) for x in e[2]])
    raise ValueError(e)


NAME_OF_CLASS = {v: k for k, v in CLASSES.items()}
ALIASES = {40: "IntOrStr", 41: "LA"}          # PEP 695: type IntOrStr = int | str; type LA[X] = list[X]
CODE_OF_ALIAS = {v: k for k, v in ALIASES.items()}


def render(e, rng):
    k = e[0]
    r = lambda x: render(x, rng)
    if k == "EClass":
        return NAME_OF_CLASS[e[1]]
    if k == "EAlias":
        return ALIASES[e[1]]
    if k == "EAliasApp":
        return ALIASES[e[1]] + "[" + ", ".join(r(x) for x in e[2]) + "]"
    if k == "ENone":
        return "None"
    if k == "EAny":
        return "Any"
    if k == "EOptional":
        return f"Optional[{r(e[1])}]"
    if k == "EUnion":
        return "Union[" + ", ".join(r(x) for x in e[1]) + "]"
    if k == "EOr":
        return f"{r(e[1])} | {r(e[2])}"
    if k == "EGeneric":
        return rng.choice(GENERICS[e[1]][1]) + "[" + ", ".join(r(x) for x in e[2]) + "]"
    if k == "ETupleVar":
        return rng.choice(["tuple", "Tuple"]) + f"[{r(e[1])}, ...]"
    if k == "ETupleFixed":
        return rng.choice(["tuple", "Tuple"]) + "[" + ", ".join(r(x) for x in e[1]) + "]"
    if k == "ETupleEmpty":
        return rng.choice(["tuple", "Tuple"]) + "[()]"
    if k == "EStarTuple":
        return "tuple[" + ", ".join([r(x) for x in e[1]] + [f"*tuple[{r(e[2])}, ...]"]) + "]"
    if k == "EUnpackTuple":
        return "Tuple[" + ", ".join([r(x) for x in e[1]] + [f"Unpack[Tuple[{r(e[2])}, ...]]"]) + "]"
    if k == "ELiteral":
        return "Literal[" + ", ".join(LITS[x] for x in e[1]) + "]"
    if k == "ELitNested":
        return "Literal[" + ", ".join(["Literal[" + ", ".join(LITS[x] for x in e[1]) + "]"] + [LITS[x] for x in e[2]]) + "]"
    if k == "EType":
        return rng.choice(["type", "Type"]) + f"[{r(e[1])}]"
    if k == "ECallableAny":
        return f"Callable[..., {r(e[1])}]"
    if k == "ECallable":
        return "Callable[[" + ", ".join(r(x) for x in e[1]) + f"], {r(e[2])}]"
    if k == "EAnnotated":
        return f"Annotated[{r(e[1])}, {e[2]}]"
    if k == "EFinal":
        return f"Final[{r(e[1])}]"
    if k == "EClassVar":
        return f"ClassVar[{r(e[1])}]"
    if k == "EStr":
        return repr(r(e[1]))
    if k == "EBareUnpack":   # only as the annotation of *args; outside the Coq model
        inner = ", ".join(r(x) for x in e[2])
        if e[1] == "star":
            return f"*tuple[{inner}]"
        return f"Unpack[Tuple[{inner}{', ...' if e[1] == 'var' else ''}]]"
    raise ValueError(e)


def coq_expr(e):
    k = e[0]
    c = coq_expr
    L = lambda xs: lib.clist([c(x) for x in xs])
    Z = lambda xs: lib.clist([lib.cz(x) for x in xs])
    if k == "EClass":
        return f"(EClass {lib.cn(e[1])})"
    if k == "EAlias":
        return f"(EAlias {lib.cn(e[1])})"
    if k == "EAliasApp":
        return f"(EAliasApp {lib.cn(e[1])} {L(e[2])})"
    if k in ("ENone", "EAny", "ETupleEmpty"):
        return k
    if k in ("EOptional", "ETupleVar", "EType", "ECallableAny", "EFinal", "EClassVar", "EStr"):
        return f"({k} {c(e[1])})"
    if k in ("EUnion", "ETupleFixed"):
        return f"({k} {L(e[1])})"
    if k == "EOr":
        return f"(EOr {c(e[1])} {c(e[2])})"
    if k == "EGeneric":
        return f"(EGeneric {lib.cn(e[1])} {L(e[2])})"
    if k in ("EStarTuple", "EUnpackTuple", "ECallable"):
        return f"({k} {L(e[1])} {c(e[2])})"
    if k == "ELiteral":
        return f"(ELiteral {Z(e[1])})"
    if k == "ELitNested":
        return f"(ELitNested {Z(e[1])} {Z(e[2])})"
    if k == "EAnnotated":
        return f"(EAnnotated {c(e[1])} {lib.cn(e[2])})"
    raise ValueError(e)


def walk(e):
    yield e
    for x in e[1:]:
        if isinstance(x, tuple):
            yield from walk(x)
        elif isinstance(x, list):
            for y in x:
                if isinstance(y, tuple):
                    yield from walk(y)


def guard_clauses(e):
    """no guard clause is left for the routes on the repaired tree (the three divergent classes were repaired)"""
    return []


def form_tags(e):
    """forms that used to diverge before the repairs of the AST route (kept in the histogram)"""
    ks = {x[0] for x in walk(e)}
    return [t for t, c in (("star", "EStarTuple" in ks), ("nested_literal", "ELitNested" in ks), ("final_classvar", bool(ks & {"EFinal", "EClassVar"}))) if c]


def evaluable(e):
    """does the expression evaluate under CPython?  (`"A" | int` and friends do not)"""
    for x in walk(e):
        if x[0] == "EOr" and any(y[0] in ("EStr", "ENone") and all(z[0] in ("EStr", "ENone") for z in (x[1], x[2])) or y[0] == "EStr" for y in (x[1], x[2])):
            return False
    return True


# ---------------------------------------------------------------------------
# canonical values (shared by the model decoder and the implementation encoder)
#   ("any",) ("err",) ("crash",) ("never",) ("none",) ("typed", c) ("generic", c, [..]) ("seq", [(many, v)])
#   ("union", has_none, frozenset(members)) ("lit", repr) ("sub", v) ("callany", r) ("call", [..], r) ("annot", v, m)


def mk_union(has_none, members):
    ms = []
    for m in members:
        if m[0] == "union":
            has_none = has_none or m[1]
            ms.extend(m[2])
        elif m[0] == "none":
            has_none = True
        elif m[0] == "never":
            pass
        else:
            ms.append(m)
    ms = sorted(set(ms), key=repr)
    if not ms:
        return ("none",) if has_none else ("never",)
    if len(ms) == 1 and not has_none:
        return ms[0]
    return ("union", has_none, tuple(ms))


def push_annot(v, m):
    """m: tuple of metadata; Annotated distributes over unions and nested Annotated merge (representation)"""
    if v[0] == "union":
        return mk_union(False, [push_annot(x, m) for x in v[2]] + ([("annot", ("none",), tuple(sorted(set(m))))] if v[1] else []))
    if v[0] == "annot":
        return ("annot", v[1], tuple(sorted(set(v[2]) | set(m))))
    return ("annot", v, tuple(sorted(set(m))))


def contains(c, tag):
    if isinstance(c, tuple):
        return (len(c) == 1 and c[0] == tag) or any(contains(x, tag) for x in c)
    return False


def decode_model(t):
    """parsed Coq tval -> canonical; an exception propagates to the whole expression, and an
    invalid_annotation error anywhere makes the whole route 'err' (that is how the routes are observed)"""
    c = decode_model1(t)
    if contains(c, "crash"):
        return ("crash",)
    if contains(c, "err"):
        return ("err",)
    return c


def decode_model1(t):
    if isinstance(t, lib.Sym):
        t = t.name
    if isinstance(t, str):
        return {"TAny": ("any",), "TErr": ("err",), "TCrash": ("crash",), "TNever": ("never",), "TNone": ("none",)}[t]
    k = t[0]
    if k == "TTyped":
        return ("typed", t[1])
    if k == "TGeneric":
        return ("generic", t[1], tuple(decode_model1(x) for x in t[2]))
    if k == "TSeq":
        return ("seq", tuple((bool(m), decode_model1(v)) for m, v in t[1]))
    if k == "TUnion":
        return mk_union(bool(t[1]), [decode_model1(x) for x in t[2]])
    if k == "TLit":
        return ("lit", repr(LIT_OBJ[t[1]]))
    if k == "TSub":
        return ("sub", decode_model1(t[1]))
    if k == "TCallAny":
        return ("callany", decode_model1(t[1]))
    if k == "TCall":
        return ("call", tuple(decode_model1(x) for x in t[1]), decode_model1(t[2]))
    if k == "TAnnot":
        return push_annot(decode_model1(t[1]), (t[2],))
    if k == "TAlias":
        return ("alias", t[1], tuple(decode_model1(x) for x in t[2]))
    raise ValueError(t)


def encode_value(v):
    """pyanalyze Value -> canonical; fail-closed ('other', text)"""
    from pyanalyze.signature import ANY_SIGNATURE, ParameterKind
    from pyanalyze.value import (AnnotatedValue, AnyValue, CallableValue, GenericValue, KnownValue, MultiValuedValue, SequenceValue,
                                 SubclassValue, TypedValue)

    def cls_code(t):
        n = getattr(t, "__name__", str(t))
        if n == "filter" and getattr(t, "__module__", "") == "builtins":
            return 990  # the builtin, not the module's own class
        return CODE_OF_TYPE.get(n)

    from pyanalyze.value import NewTypeValue, TypeAliasValue, TypedDictValue, TypeVarValue

    if isinstance(v, TypeAliasValue):
        # outside the model (has_other), but with a canonical text so that the routes can be compared
        if v.name in CODE_OF_ALIAS:
            return ("alias", CODE_OF_ALIAS[v.name], tuple(encode_value(a) for a in v.type_arguments))
        return ("other", "alias", v.name, tuple(encode_value(a) for a in v.type_arguments))

    if isinstance(v, NewTypeValue):
        return ("typed", 30) if v.name == "NT" else ("other", "newtype:" + v.name)
    if isinstance(v, TypedDictValue):
        if list(v.items) == ["a"] and encode_value(v.items["a"].typ) == ("typed", 1) and v.items["a"].required:
            return ("typed", 31)
        return ("other", "typeddict:" + str(v)[:50])
    if isinstance(v, TypeVarValue):
        return ("typed", 33) if getattr(v.typevar, "__name__", "") == "T" and not v.is_paramspec else ("other", "typevar:" + str(v)[:40])

    if isinstance(v, AnyValue):
        # Any[error] is what an annotation that was reported as invalid evaluates to
        return ("err",) if v.source.name == "error" else ("any",)
    if isinstance(v, KnownValue):
        if v.val is None:
            return ("none",)
        if type(v.val) in (int, str, bool, bytes):
            return ("lit", repr(v.val))
        return ("other", "known:" + repr(v.val)[:40])
    if isinstance(v, MultiValuedValue):
        if not v.vals:
            return ("never",)
        return mk_union(False, [encode_value(x) for x in v.vals])
    if isinstance(v, AnnotatedValue):
        inner = encode_value(v.value)
        ms = [m for m in v.metadata]
        # only int metadata is in the model's vocabulary; other metadata (strings, dicts, objects)
        # does not change the type and is ignored by the comparison (counted in IGNORED_METADATA)
        ints = tuple(m.val for m in ms if isinstance(m, KnownValue) and type(m.val) is int)
        if len(ints) != len(ms):
            IGNORED_METADATA[0] += 1
        return push_annot(inner, ints) if ints else inner
    if isinstance(v, SequenceValue):
        if v.typ is tuple:
            return ("seq", tuple((bool(m), encode_value(x)) for m, x in v.members))
        return ("other", str(v)[:60])
    if isinstance(v, GenericValue):
        c = cls_code(v.typ)
        if c is None:
            return ("other", str(v)[:60])
        return ("generic", c, tuple(encode_value(x) for x in v.args))
    if isinstance(v, CallableValue):
        sig = v.signature
        if sig is ANY_SIGNATURE:
            return ("other", "callable-any-signature")
        ps = list(sig.parameters.values())
        if len(ps) == 1 and ps[0].kind is ParameterKind.ELLIPSIS:
            return ("callany", encode_value(sig.return_value))
        if all(p.kind is ParameterKind.POSITIONAL_ONLY for p in ps):
            return ("call", tuple(encode_value(p.annotation) for p in ps), encode_value(sig.return_value))
        return ("other", "callable:" + str(sig)[:60])
    if isinstance(v, SubclassValue):
        return ("sub", encode_value(v.typ))
    if isinstance(v, TypedValue):
        c = cls_code(v.typ)
        if c is None or v.literal_only:
            return ("other", str(v)[:60])
        return ("typed", c)
    return ("other", type(v).__name__ + ":" + re.sub(r"(<test input [0-9a-f]+>|c13_prelude)\.", "", str(v))[:80])


def seal(c):
    """an error anywhere is a diagnostic of the whole annotation"""
    return ("err",) if contains(c, "err") else c


IGNORED_METADATA = [0]
LOCATION_ERRORS = []


def has_other(c):
    if isinstance(c, tuple):
        if c and c[0] == "other":
            return True
        return any(has_other(x) for x in c)
    return False


# ---------------------------------------------------------------------------
# running the real code


def run_visitor(code):
    from pyanalyze.analysis_lib import make_module
    from pyanalyze.error_code import ErrorCode
    from pyanalyze.name_check_visitor import ClassAttributeChecker, NameCheckVisitor

    tree = ast.parse(code)
    mod = make_module(code)
    kwargs = NameCheckVisitor.prepare_constructor_kwargs({})
    with ClassAttributeChecker(enabled=True, options=kwargs["checker"].options) as ac:
        v = NameCheckVisitor("", code, tree, module=mod, settings={c: True for c in ErrorCode}, attribute_checker=ac,
                             annotate=True, fail_after_first=False, **kwargs)
        with contextlib.redirect_stderr(io.StringIO()), contextlib.redirect_stdout(io.StringIO()):
            errors = v.check_for_test()
    return tree, errors, mod


LINT = {"unused_variable", "missing_parameter_annotation", "missing_return_annotation", "suggested_parameter_type", "suggested_return_type",
        "unused_assignment", "missing_generic_parameters", "implicit_any", "missing_return"}


def impl_routes(exprs_src):
    """-> per expression {route: canonical}"""
    from pyanalyze.annotations import _DefaultContext, type_from_ast, type_from_runtime

    class Ctx(_DefaultContext):
        def __init__(self, g):
            super().__init__(None, None, g)
            self.errors = []

        def show_error(self, message, error_code=None, node=None):
            self.errors.append(message)

    ns = {"__name__": "c13_prelude"}  # otherwise classes defined by exec() claim to live in `builtins`
    exec(PRELUDE, ns)
    out = []

    def guarded(f):
        c = Ctx(ns)
        try:
            v = f(c)
        except Exception:
            return ("crash",)
        if c.errors:
            return ("err",)
        return seal(encode_value(v))

    for src in exprs_src:
        r = {}
        r["ast"] = guarded(lambda c: type_from_ast(ast.parse(src, mode="eval").body, ctx=c))
        r["str"] = guarded(lambda c: type_from_runtime(src, ctx=c))
        try:
            with warnings.catch_warnings():
                warnings.simplefilter("ignore")
                obj = eval(src, ns)
        except Exception as ex:
            r["rt"] = ("evalfail", type(ex).__name__)
        else:
            r["rt"] = guarded(lambda c: type_from_runtime(obj, ctx=c))
        out.append(r)
    # visitor routes, many functions per module
    ok = [i for i, r in enumerate(out) if r["rt"][0] != "evalfail"]
    for tag, quote in (("vis", False), ("visstr", True)):
        for k in range(0, len(ok), 120):
            idx = ok[k : k + 120]
            code = PRELUDE + "".join(f"def f{i}(x: {repr(exprs_src[i]) if quote else exprs_src[i]}):\n    _v = x\n" for i in idx)
            tree, errors, mod = run_visitor(code)
            by_line = {}
            fns = {n.name: n for n in tree.body if isinstance(n, ast.FunctionDef)}
            ann_pos = {fn.lineno: fn.args.args[0].annotation.col_offset for fn in fns.values() if fn.name.startswith("f") and fn.args.args}
            ann_is_str = {fn.lineno: isinstance(fn.args.args[0].annotation, ast.Constant) for fn in fns.values() if fn.name.startswith("f") and fn.args.args}
            for e in errors:
                if e["code"].name not in LINT:
                    by_line.setdefault(e["lineno"], []).append(e["code"].name)
                    # every diagnostic about an annotation must be shown inside the annotation of its def line:
                    # the annotation node's own line, at or after its column (fix d534a5b: also for string annotations,
                    # whose parsed nodes carry positions relative to the string)
                    if e["code"].name in ("invalid_annotation", "undefined_name", "internal_error"):
                        col = e.get("col_offset")
                        if e["lineno"] not in ann_pos:
                            LOCATION_ERRORS.append({"route": tag, "lineno": e["lineno"], "col_offset": col, "message": str(e.get("description"))[:120],
                                                    "why": "no annotation on that line"})
                        elif ann_is_str.get(e["lineno"]) and col != ann_pos[e["lineno"]]:
                            LOCATION_ERRORS.append({"route": tag, "lineno": e["lineno"], "col_offset": col, "expected_col": ann_pos[e["lineno"]],
                                                    "source": code.splitlines()[e["lineno"] - 1], "why": "not at the string annotation node"})
            for i in idx:
                fn = fns[f"f{i}"]
                codes = by_line.get(fn.lineno, [])
                v = getattr(fn.body[0].value, "inferred_value", None)
                if "internal_error" in codes or v is None:
                    out[i][tag] = ("crash",)
                elif codes:
                    out[i][tag] = ("err",)
                else:
                    out[i][tag] = seal(encode_value(v))
    # an error found while evaluating a *string* annotation is reported at the position inside the
    # string (line 1 of the module), so it cannot be attributed by line: re-run such cases alone
    for i in ok:
        if "*" in exprs_src[i] and out[i]["visstr"] != ("err",):
            code = PRELUDE + f"def f(x: {exprs_src[i]!r}):\n    _v = x\n"
            tree, errors, mod = run_visitor(code)
            if any(e["code"].name in ("invalid_annotation", "internal_error") for e in errors):
                out[i]["visstr"] = ("err",)
    return out


# ---- signatures -------------------------------------------------------------

KINDS = ["PosOnly", "PosOrKw", "VarPos", "KwOnly", "VarKw"]
PK = {"POSITIONAL_ONLY": "PosOnly", "POSITIONAL_OR_KEYWORD": "PosOrKw", "VAR_POSITIONAL": "VarPos", "KEYWORD_ONLY": "KwOnly", "VAR_KEYWORD": "VarKw"}
NAMES = ["a", "b", "c", "d", "e", "__p", "__q", "_u", "__d__"]


def unmodelled_header(h):
    """headers whose *args carries a bare Unpack[...] / *tuple[...]: Signature.make's expansion is not in the Coq model"""
    return any(p is not None and p[3] is not None and p[3][0] == "EBareUnpack" for p in h[0])


def star_args_header(h):
    return any(p is not None and p[3] is not None and p[3][0] == "EBareUnpack" and p[3][1] == "star" for p in h[0])


def is_private(n):
    return n.startswith("__") and not n.endswith("__")


def gen_header(rng, private_rate=0.2):
    """-> (params [(name, kind, has_default, annot-or-None)], return annot-or-None)"""
    names = [n for n in NAMES if rng.random() < (private_rate if is_private(n) else 0.55)]
    rng.shuffle(names)
    names = names[:5]
    n = len(names)
    cuts = sorted(rng.sample(range(n + 1), 2)) if n else [0, 0]
    posonly, normal, kwonly = names[: cuts[0]], names[cuts[0] : cuts[1]], names[cuts[1] :]
    if rng.random() < 0.5:
        normal += posonly
        posonly = []
    ps = []
    seen_default = False
    for nm in posonly + normal:
        d = seen_default or rng.random() < 0.3
        seen_default = d
        ps.append([nm, "PosOnly" if nm in posonly else "PosOrKw", d])
    has_var = rng.random() < 0.35
    if has_var:
        ps.append(["args", "VarPos", False])
    if not has_var and kwonly:
        ps.append(None)  # bare *
    for nm in kwonly:
        ps.append([nm, "KwOnly", rng.random() < 0.4])
    if rng.random() < 0.3:
        ps.append(["kw", "VarKw", False])
    out = []
    for p in ps:
        if p is None:
            out.append(None)
            continue
        ann = None
        if p[1] == "VarPos" and rng.random() < 0.3:
            mode = rng.choice(["fixed", "fixed", "var", "star"])
            n_el = 1 if mode == "var" else rng.choice([1, 2, 3])
            els = []
            while len(els) < n_el:
                e1 = gen_expr(rng, rng.choice([0, 0, 1]), exotic=0.0)
                if evaluable(e1):
                    els.append(e1)
            ann = ("EBareUnpack", mode, els)
        elif rng.random() < 0.7:
            ann = gen_expr(rng, rng.choice([0, 1, 1, 2]), exotic=0.03)
            if not evaluable(ann):
                ann = ("EClass", 1)
        out.append((p[0], p[1], p[2], ann))
    ret = gen_expr(rng, 1, exotic=0.0) if rng.random() < 0.6 else None
    if ret is not None and not evaluable(ret):
        ret = None
    return out, ret


def render_header(h, rng):
    ps, ret = h
    parts = []
    posonly_open = False
    for p in ps:
        if p is None:
            if posonly_open:
                parts.append("/")
                posonly_open = False
            parts.append("*")
            continue
        nm, kind, d, ann = p
        if kind != "PosOnly" and posonly_open:
            parts.append("/")
            posonly_open = False
        if kind == "PosOnly":
            posonly_open = True
        s = {"VarPos": "*", "VarKw": "**"}.get(kind, "") + nm
        if ann is not None:
            s += ": " + render(ann, rng)
        if d:
            s += " = None" if ann is None else " = ..."
        parts.append(s)
    if posonly_open:
        parts.append("/")
    return ", ".join(parts), ("" if ret is None else " -> " + render(ret, rng))


def fdef(name, h, r):
    """`def name[T](params) -> ret` from a header source whose parameter text may start with a PEP 695 "[T]" prefix"""
    tp = ""
    if h.startswith("[T]"):
        tp, h = "[T]", h[3:]
    return f"def {name}{tp}({h}){r}"


def encode_sig(sig):
    from pyanalyze.signature import Signature

    if not isinstance(sig, Signature):
        return None
    ps = []
    for p in sig.parameters.values():
        k = PK.get(p.kind.name)
        if k is None:
            return None
        ps.append((p.name, k, p.default is not None, norm_param_type(k, encode_value(p.annotation))))
    return ps, encode_value(sig.return_value)


def norm_param_type(kind, t):
    """the representation differences named in DefSig.norm_sparam / def_param"""
    if t == ("err",):
        t = ("any",)  # the diagnostic is not part of the signature: the parameter type is Any[error]
    if t[0] == "union" and any(m == ("any",) for m in t[2]):
        t = ("any",)  # Any | default
    if t == ("any",):
        if kind == "VarPos":
            return ("generic", 1000, (("any",),))
        if kind == "VarKw":
            return ("generic", 1001, (("typed", 1002), ("any",)))
    return t


def impl_signatures(headers_src, future=False):
    """future: the module starts with `from __future__ import annotations`, so every annotation of the function
    objects is a string while the def nodes still hold expressions"""
    from pyanalyze.checker import Checker
    from pyanalyze.value import CallableValue

    code = ("from __future__ import annotations\n" if future else "") + PRELUDE
    for j, (h, r) in enumerate(headers_src):
        code += fdef(f"m{j}", h, r) + ":\n    raise NotImplementedError\n"
    code += "def outer():\n"
    for j, (h, r) in enumerate(headers_src):
        code += "    " + fdef(f"n{j}", h, r) + f":\n        raise NotImplementedError\n    _v{j} = n{j}\n"
    tree, errors, mod = run_visitor(code)
    outer = [n for n in tree.body if isinstance(n, ast.FunctionDef) and n.name == "outer"][0]
    vals = {}
    for st in outer.body:
        if isinstance(st, ast.Assign):
            vals[int(st.targets[0].id[2:])] = getattr(st.value, "inferred_value", None)
    checker = Checker()
    out = []
    for j in range(len(headers_src)):
        v = vals.get(j)
        d = encode_sig(v.signature) if isinstance(v, CallableValue) else None
        try:
            r = encode_sig(checker.arg_spec_cache.get_argspec(getattr(mod, f"m{j}")))
        except Exception as ex:
            r = "crash:" + type(ex).__name__
        out.append({"def": d, "rt": r})
    return out


def sparam_term(p):
    nm, kind, d, ann = p
    a = "None" if ann is None else f"(Some {coq_expr(ann)})"
    return f"(mkParam {lib.cn(NAMES_CODE(nm))} {kind} {lib.cbool(d)} {a} {lib.cbool(is_private(nm))})"


ALLNAMES = NAMES + ["args", "kw"]


def NAMES_CODE(nm):
    return ALLNAMES.index(nm) + 1


def decode_sparams(t):
    out = []
    for s in t:
        # mkSParam name kind default type -> printed as a record {| s_name := ..|}; parse_term gives ('mkSParam', ...) only with Unset Printing Records
        raise NotImplementedError
    return out


# ---- function kinds -----------------------------------------------------------
# The two views of a declaration for every KIND of function: plain, coroutine, generator, async generator
# (def node vs function object: parameters and return type must be equal), and decorated / derived callables
# (functools.wraps, contextmanager, lru_cache, staticmethod / classmethod, lambda, functools.partial), for which
# the call is compared between the defining and an importing module.

KIND_PRELUDE = "import functools, contextlib\nfrom typing import Iterator, AsyncIterator, Generator, Optional, Any\n"
KIND_TEMPLATES = {
    "plain": "def {n}({h}){r}:\n{i}    return {v}\n",
    "async": "async def {n}({h}){r}:\n{i}    return {v}\n",
    "gen": "def {n}({h}){r}:\n{i}    yield {v}\n",
    "asyncgen": "async def {n}({h}){r}:\n{i}    yield {v}\n",
    "async_await": "async def {n}({h}){r}:\n{i}    import asyncio\n{i}    await asyncio.sleep(0)\n{i}    return {v}\n",
    "wraps": "def {n}_inner({h}){r}:\n{i}    return {v}\n{i}@functools.wraps({n}_inner)\n{i}def {n}(*args, **kwargs):\n{i}    return {n}_inner(*args, **kwargs)\n",
    "ctx": "@contextlib.contextmanager\n{i}def {n}({h}){r}:\n{i}    yield {v}\n",
    "lru": "@functools.lru_cache()\n{i}def {n}({h}){r}:\n{i}    return {v}\n",
    "lambda": "{n} = lambda a, b=2: {v}\n",
    "partial": "def {n}_base(z: int, {h}){r}:\n{i}    return {v}\n{i}{n} = functools.partial({n}_base, 1)\n",
}
UNDECORATED = ("plain", "async", "gen", "asyncgen", "async_await")
KIND_RETS = {"plain": ["", " -> int", " -> Optional[str]"], "async": ["", " -> int", " -> Optional[str]", " -> None"], "gen": ["", " -> Iterator[int]", " -> Generator[int, None, str]"],
             "asyncgen": ["", " -> AsyncIterator[int]"], "async_await": ["", " -> int"], "wraps": ["", " -> int"], "ctx": ["", " -> Iterator[int]"], "lru": ["", " -> int"],
             "lambda": [""], "partial": ["", " -> int"]}
KIND_HEADERS = ["a: int", "a: int, b: str = 'x'", "a, /, b=1, *args, c: int = 2, **kw", "a: int, *, b: Optional[int] = None", "*args: int", "a"]
KIND_CALLS = ["{n}(1)", "{n}('x')", "{n}()", "{n}(1, b=2)"]


def plain_text(v):
    """a value / signature as text, without module names and without the provenance of Any"""
    t = re.sub(r"(<test input [0-9a-f]+>|c13kind_[0-9a-z_]+)\.", "", str(v))
    return re.sub(r"Any\[[a-z_]+\]", "Any", t)


def outer_shape(v):
    from pyanalyze.value import AnyValue, GenericValue, TypedValue

    if isinstance(v, AnyValue) or v is None:
        return "Any"
    if isinstance(v, (GenericValue, TypedValue)):
        return getattr(v.typ, "__name__", str(v.typ))
    return type(v).__name__


def impl_kinds(rng, d: Path, tag, quick):
    from pyanalyze.checker import Checker
    from pyanalyze.signature import Signature
    from pyanalyze.value import CallableValue

    items = []
    for kind, rets in KIND_RETS.items():
        for r in rets:
            hs = KIND_HEADERS if kind in UNDECORATED else KIND_HEADERS[:2]
            for h in (rng.sample(hs, 3) if quick and len(hs) > 3 else hs):
                items.append((kind, r, h, rng.choice(["1", "'s'", "None", "a" if "a" in h.split(":")[0].split(",")[0] else "0"])))
    body = KIND_PRELUDE
    for j, (k, r, h, v) in enumerate(items):
        body += KIND_TEMPLATES[k].format(n=f"m{j}", h=h, r=r, v=v, i="")
    modname = f"c13kind_{tag}"
    (d / f"{modname}.py").write_text(body)
    nested = KIND_PRELUDE + "def outer():\n"
    for j, (k, r, h, v) in enumerate(items):
        nested += "    " + KIND_TEMPLATES[k].format(n=f"n{j}", h=h, r=r, v=v, i="    ") + f"    _v{j} = n{j}\n"
    calls = [(j, c) for j in range(len(items)) for c in KIND_CALLS]
    user = "def user():\n" + "".join(f"    _r{ci} = " + c.format(n=f"m{j}") + "\n" for ci, (j, c) in enumerate(calls))
    out = {"items": items, "calls": calls}
    # def route (nested defs)
    tree, errors, mod = run_visitor(nested)
    dsig = {}
    for node in ast.walk(tree):
        if isinstance(node, ast.Assign) and isinstance(node.targets[0], ast.Name) and node.targets[0].id.startswith("_v"):
            v = getattr(node.value, "inferred_value", None)
            dsig[int(node.targets[0].id[2:])] = v.signature if isinstance(v, CallableValue) else v
    res = {}
    for name, code in (("inmod", body + user), ("imported", f"from {modname} import *\n" + user)):
        tree, errors, mod = run_visitor(code)
        base = len(code.splitlines()) - len(calls)
        per, vals = {}, {}
        for e in errors:
            if e["code"].name in LINT or e["lineno"] <= base:
                continue
            per.setdefault(e["lineno"] - base - 1, set()).add(e["code"].name)
        for node in ast.walk(tree):
            if isinstance(node, ast.Assign) and isinstance(node.targets[0], ast.Name) and node.targets[0].id.startswith("_r"):
                vals[int(node.targets[0].id[2:])] = getattr(node.value, "inferred_value", None)
        res[name] = [(sorted(per.get(i, ())), plain_text(vals.get(i)), outer_shape(vals.get(i))) for i in range(len(calls))]
        if name == "inmod":
            checker = Checker()
            rsig = {}
            for j in range(len(items)):
                try:
                    rsig[j] = checker.arg_spec_cache.get_argspec(getattr(mod, f"m{j}"))
                except Exception as ex:
                    rsig[j] = "crash:" + type(ex).__name__
    def two_part(v):
        """parameters in the canonical form of the header stream (representation of unannotated parameters normalised),
        return type as text"""
        if not isinstance(v, Signature):
            return (plain_text(v), False)
        enc = encode_sig(v)
        params = jsonable(enc[0]) if enc is not None else plain_text(v)
        return (json.dumps([params, plain_text(v.return_value)]), True)

    out["def"] = {j: two_part(v) for j, v in dsig.items()}
    out["rt"] = {j: two_part(v) for j, v in rsig.items()}
    out["res"] = res
    out["source"] = body
    return out


# ---- methods of nested classes ------------------------------------------------
# The owning class of an unannotated self is found by the def route from the enclosing ClassDef and by the
# runtime route by walking function.__qualname__ from the module.  Classes nested one to four levels deep,
# and classes defined inside a function (qualname with <locals>), each with an instance method, a method with
# an annotated self, a classmethod and a staticmethod.

METHOD_CALLS = ["{P}.m('x', 1)", "{P}.m({P}(), 1)", "{P}.m({P}(), 'x')", "{P}().m(1)", "{P}().m('x')", "{P}.ma('x', 1)", "{P}().ma('x')",
                "{P}.c(1)", "{P}.c('x')", "{P}().c('x')", "{P}.s(1)", "{P}.s('x')", "{P}().s('x')", "{P}.m()", "{P}().m(1, 2)"]


def gen_method_module(rng, depth, local, ann="int"):
    """-> (source, [class paths, outermost first]); `local`: the chain lives inside a function"""
    names = [f"N{i}" for i in range(depth)]
    lines = []
    ind = "    " if local else ""
    if local:
        lines.append("def factory():")
    for i, n in enumerate(names):
        pad = ind + "    " * i
        lines.append(f"{pad}class {n}:")
        b = pad + "    "
        path = ".".join(names[: i + 1])
        lines += [f"{b}def m(self, a: {ann}):", f"{b}    _vm = self", f"{b}def ma(self{'' if local else ': ' + repr(path)}, a: {ann}):", f"{b}    _va = self",
                  f"{b}@classmethod", f"{b}def c(cls, a: {ann}):", f"{b}    _vc = cls", f"{b}@staticmethod", f"{b}def s(a: {ann}):", f"{b}    pass"]
    if local:
        lines.append(f"    return {names[0]}")
        lines.append("LOC = factory()")
        return "\n".join(lines) + "\n", [".".join(["LOC"] + names[1 : i + 1]) for i in range(depth)], ann
    return "\n".join(lines) + "\n", [".".join(names[: i + 1]) for i in range(depth)], ann


def enc_self(v):
    from pyanalyze.value import AnyValue, SubclassValue, TypedValue

    if isinstance(v, AnyValue):
        return ("any",)
    if isinstance(v, SubclassValue) and isinstance(v.typ, TypedValue):
        return ("sub", getattr(v.typ.typ, "__qualname__", str(v.typ.typ)))
    if isinstance(v, TypedValue):
        return ("typed", getattr(v.typ, "__qualname__", str(v.typ)))
    return ("other", str(v)[:60])


def impl_methods(rng, d: Path, tag, configs):
    """for every class of every generated chain: type of self inside the method (def route) vs the first parameter of
    the signature of the function object (runtime route); the call shapes in the defining and in an importing module"""
    from pyanalyze.checker import Checker

    out = []
    ann_all = rng.choice(["int", "bytes", "float"])
    for k, (depth, local) in enumerate(configs):
        src, paths, ann = gen_method_module(rng, depth, local, ann_all)
        modname = f"c13meth_{tag}_{k}"
        calls = [(p, c) for p in paths for c in METHOD_CALLS]
        user = "def user():\n" + "".join("    " + c.format(P=p) + "\n" for p, c in calls)
        (d / f"{modname}.py").write_text(src)
        res = {}
        for name, code in (("inmod", src + user), ("imported", f"from {modname} import *\n" + user)):
            tree, errors, mod = run_visitor(code)
            base = len(code.splitlines()) - len(calls)
            per = {}
            for e in errors:
                if e["code"].name in LINT or e["lineno"] <= base:
                    continue
                per.setdefault(e["lineno"] - base - 1, set()).add(e["code"].name)
            res[name] = [sorted(per.get(i, ())) for i in range(len(calls))]
            if name == "inmod":
                # def route: the inferred value of `self` / `cls` inside each method
                selfs = {}
                for node in ast.walk(tree):
                    if isinstance(node, ast.FunctionDef) and node.name in ("m", "ma", "c") and node.body and isinstance(node.body[0], ast.Assign):
                        selfs.setdefault(node.name, []).append((node.lineno, enc_self(getattr(node.body[0].value, "inferred_value", None))))
                checker = Checker()
                rows = []
                for i, p in enumerate(paths):
                    cls = mod
                    for part in p.split("."):
                        cls = getattr(cls, part)
                    for meth in ("m", "ma"):
                        fn = cls.__dict__[meth]
                        try:
                            sig = checker.arg_spec_cache.get_argspec(fn)
                            first = next(iter(sig.parameters.values()))
                            rt = enc_self(first.annotation)
                        except Exception as ex:
                            rt = ("crash", type(ex).__name__)
                        df = sorted(selfs.get(meth, []))[i][1] if len(selfs.get(meth, [])) > i else ("missing",)
                        rows.append({"class": p, "method": meth, "def": df, "rt": rt})
        out.append({"source": src, "paths": paths, "local": local, "depth": depth, "calls": calls, "res": res, "selfs": rows})
    return out


# ---- calls --------------------------------------------------------------------

CALL_ARGS = ["", "1", "1, 2", "1, 2, 3", "a=1", "1, b=2", "__p=1", "a=1, b=2", "*(1, 2)", "**{'a': 1}", "1, 'x'", "d=1", "1, e=None"]
# the same calls as Binder.Bind.rawarg lists
CALL_RAW = {
    "": [], "1": ["RPos"], "1, 2": ["RPos", "RPos"], "1, 2, 3": ["RPos", "RPos", "RPos"], "a=1": [("RKw", "a")], "1, b=2": ["RPos", ("RKw", "b")],
    "__p=1": [("RKw", "__p")], "a=1, b=2": [("RKw", "a"), ("RKw", "b")], "*(1, 2)": [("RStarLit", 2)], "**{'a': 1}": [("RKwLit", ["a"])],
    "1, 'x'": ["RPos", "RPos"], "d=1": [("RKw", "d")], "1, e=None": ["RPos", ("RKw", "e")],
}


def raw_term(a):
    out = []
    for r in CALL_RAW[a]:
        if r == "RPos":
            out.append("Bind.RPos")
        elif r[0] == "RKw":
            out.append(f"(Bind.RKw {lib.cn(NAMES_CODE(r[1]))})")
        elif r[0] == "RStarLit":
            out.append(f"(Bind.RStarLit {r[1]}%nat)")
        elif r[0] == "RKwLit":
            out.append("(Bind.RKwLit " + lib.clist([lib.cn(NAMES_CODE(n)) for n in r[1]]) + ")")
    return lib.clist(out)


def model_calls(headers, calls):
    """-> [(binds in the defining scope, binds from an importer)]"""
    terms = []
    for h, a in calls:
        lst = lib.clist([sparam_term(p) for p in h[0] if p is not None]) if not unmodelled_header(h) else "[]"
        b = lambda f: f"(match {f} {lst} {raw_term(a)} with Some _ => true | None => false end)"
        terms.append(f"({b('call_in_defining_scope')}, {b('call_from_importer')})")
    hdr = HEADER.replace("PV.Annot.DefSig.", "PV.Annot.DefSig PV.Annot.Calls.\nRequire PV.Binder.Bind.")
    return lib.coq_eval(hdr, terms, name="c13c", jobs=6)


def impl_calls(headers_src, rng, d: Path, tag):
    """the same call in a nested scope (def route), in the defining module, and in an importing module"""
    modname = f"c13mod_{tag}"
    body = PRELUDE
    for j, (h, r) in enumerate(headers_src):
        body += fdef(f"m{j}", h, r) + ":\n    raise NotImplementedError\n"
    (d / f"{modname}.py").write_text(body)
    calls = [(j, a) for j in range(len(headers_src)) for a in rng.sample(CALL_ARGS, 5)]
    inmod = body + "def user():\n" + "".join(f"    m{j}({a})\n" for j, a in calls)
    imported = f"from {modname} import *\ndef user():\n" + "".join(f"    m{j}({a})\n" for j, a in calls)
    nested = PRELUDE + "def user():\n"
    for j, (h, r) in enumerate(headers_src):
        nested += "    " + fdef(f"m{j}", h, r) + ":\n        raise NotImplementedError\n"
    nested += "".join(f"    m{j}({a})\n" for j, a in calls)
    res = {}
    for name, code in (("inmod", inmod), ("imported", imported), ("nested", nested)):
        tree, errors, mod = run_visitor(code)
        base = len(code.splitlines()) - len(calls)
        per = {}
        for e in errors:
            if e["code"].name in LINT or e["lineno"] <= base:
                continue
            per.setdefault(e["lineno"] - base - 1, set()).add(e["code"].name)
        res[name] = [sorted(per.get(i, ())) for i in range(len(calls))]
    return calls, res


# ---------------------------------------------------------------------------

HEADER = ("From Coq Require Import NArith ZArith List Bool. Import ListNotations.\n"
          "Require Import PV.Annot.Forms PV.Gen.Annot PV.Annot.Routes PV.Annot.DefSig.\nUnset Printing Records.")


def model_routes(exprs):
    terms = [f"(route_ast {coq_expr(e)}, route_runtime {coq_expr(e)}, (route_visitor {coq_expr(e)}, route_visitor (EStr {coq_expr(e)})))" for e in exprs]
    vals = lib.coq_eval(HEADER, terms, name="c13r", jobs=6)
    out = []
    for v in vals:
        a, r, (vi, vs) = v
        out.append({"ast": decode_model(a), "str": decode_model(a), "rt": decode_model(r), "vis": decode_model(vi), "visstr": decode_model(vs)})
    return out


def model_sigs(headers):
    terms = []
    for ps, ret in headers:
        if unmodelled_header((ps, ret)):
            ps = []
        lst = lib.clist([sparam_term(p) for p in ps if p is not None])
        f = "(map (fun s => (s_name s, s_kind s, (s_default s, s_type s))) "
        r = "None" if ret is None else f"(Some {coq_expr(ret)})"
        terms.append(f"({f}(sig_from_def {lst})), {f}(sig_from_runtime {lst})), (ret_from_def {r}, ret_from_runtime {r}))")
    vals = lib.coq_eval(HEADER, terms, name="c13s", jobs=6)
    out = []
    for d, r, (rd, rr) in vals:
        dec = lambda l: [(ALLNAMES[n - 1], str(k), bool(df), norm_param_type(str(k), decode_model(t))) for (n, k, (df, t)) in l]
        ne = lambda t: ("any",) if t == ("err",) else t
        out.append({"def": (dec(d), ne(decode_model(rd))), "rt": (dec(r), ne(decode_model(rr)))})
    return out


def gen_files():
    return {"Annot.v": tr_annot.translate(str(lib.REPO))}


def load_corpus():
    if CORPUS.exists():
        d = json.loads(CORPUS.read_text())
        return [norm_expr(e) for e in d.get("exprs", [])]
    return []


def load_corpus_headers():
    if CORPUS.exists():
        d = json.loads(CORPUS.read_text())
        return [([None if p is None else (p[0], p[1], bool(p[2]), None if p[3] is None else norm_expr(p[3])) for p in ps], None if ret is None else norm_expr(ret))
                for ps, ret in d.get("headers", [])]
    return []


def jsonable(x):
    if isinstance(x, (tuple, list)):
        return [jsonable(y) for y in x]
    if isinstance(x, (set, frozenset)):
        return sorted(jsonable(y) for y in x)
    return x


def run(tier: str, replay: str | None = None):
    rep = lib.Report(PROP, tier, "proof")
    rng = random.Random(lib.seed() * 7901 + 13)
    broken_translation = None
    proof = None
    try:
        gen = gen_files()
    except tr_annot.TranslateError as ex:
        broken_translation = str(ex)
        gen = None
    model_ok = False
    # when the translator fails the model is not run (a stale Gen/Annot.v could describe another tree):
    # known findings can then not be attributed and are reported like any other failing input
    if gen is not None:
        proof = lib.prove(PROP, gen, thorough=(tier == "thorough"))
        model_ok = not any("build failed" in b for b in proof.broken)
        if not model_ok:
            ok, _ = lib.coq_make(["theories/Annot/DefSig.vo"])
            model_ok = ok
    kf = lib.load_known_findings(PROP)
    findings_text = {f["id"]: f["what"] for f in kf["findings"]}
    quick = tier == "quick"

    exprs, headers, pre_rendered = [], [], []
    if replay:
        r = json.loads(Path(replay).read_text())
        inp = r.get("input", {})
        if "expr" in inp:
            exprs = [norm_expr(inp["expr"])]
        if "header" in inp:
            ps, ret = inp["header"]
            headers = [([None if p is None else (p[0], p[1], bool(p[2]), None if p[3] is None else norm_expr(p[3])) for p in ps], None if ret is None else norm_expr(ret))]
    else:
        exprs = load_corpus()
        n_expr = 700 if quick else 6000
        while len(exprs) < n_expr:
            e = gen_expr(rng, rng.choice([1, 2, 2, 3, 3, 4]))
            if evaluable(e):
                exprs.append(e)
        ns0 = {}
        exec(PRELUDE, ns0)
        hr = random.Random(lib.seed() * 17 + 3)
        want = 160 if quick else 1500
        pre_rendered = []
        pending = load_corpus_headers()
        while len(headers) < want:
            h = pending.pop(0) if pending else gen_header(rng)
            hs = render_header(h, hr)
            if hr.random() < 0.15:
                hs = ("[T]" + hs[0], hs[1])
            try:  # the def statement must execute: typing rejects some nestings (Final inside Tuple[...], ...)
                with warnings.catch_warnings():
                    warnings.simplefilter("ignore")
                    exec(compile(fdef("_probe", hs[0], hs[1]) + ": pass", "<probe>", "exec", dont_inherit=True), dict(ns0))
            except Exception:
                continue
            headers.append(h)
            pre_rendered.append(hs)

    hist = {"expr_depth": {}, "constructors": {}, "route_verdict": {}, "guard": {}, "sig_params": {}, "sig_verdict": {}, "call_verdict": {}}

    def bump(h, k):
        hist[h][str(k)] = hist[h].get(str(k), 0) + 1

    failing, corr = [], []
    validated = 0
    distinct = set()
    # ------------------------------------------------------------------ routes
    rrng = random.Random(lib.seed() * 31 + 7)
    srcs = [render(e, rrng) for e in exprs]
    if not replay:
        exprs = exprs + [None] * len(EXCLUDED_FORMS)
        srcs = srcs + list(EXCLUDED_FORMS)
    impl = impl_routes(srcs) if exprs else []
    models = None
    if model_ok and exprs:
        try:
            models = model_routes([e if e is not None else ("EAny",) for e in exprs])
        except RuntimeError as ex:
            rep.violation({"kind": "broken-correspondence", "correspondence": "Annot.Routes evaluation failed", "detail": str(ex)[-1500:]}, no_failing_input=True)
    ROUTES = ["ast", "str", "rt", "vis", "visstr"]
    for i, (e, src, r) in enumerate(zip(exprs, srcs, impl)):
        if e is not None:
            for x in walk(e):
                bump("constructors", x[0])
            clauses = guard_clauses(e)
            bump("guard", "+".join(form_tags(e)) or "plain")
        else:
            bump("guard", "excluded-form")
        if r["rt"][0] == "evalfail":
            bump("route_verdict", "not-evaluable")
            continue
        if any(has_other(r[k]) for k in ROUTES) or e is None:
            # outside the model: the routes are still compared with each other
            vals = {k: r[k] for k in ROUTES}
            if len({repr(v) for v in vals.values()}) == 1:
                bump("route_verdict", "excluded-from-model:routes-agree")
            else:
                bump("route_verdict", "excluded-from-model:routes-differ")
                failing.append(({"source": src}, {k: jsonable(v) for k, v in vals.items()}, "the routes give different types (form outside the model)"))
            continue
        distinct.add(src)
        vals = {k: r[k] for k in ROUTES}
        agree = len({repr(v) for v in vals.values()}) == 1
        m = models[i] if models else None
        model_agrees = m is not None and all(m[k] == vals[k] for k in ROUTES)
        if agree:
            bump("route_verdict", "routes-agree")
        else:
            fids = {"has_star_unpack": "C13-star-unpack-three-ways"}
            known = [fids[c] for c in clauses if fids[c] in findings_text]
            if known and model_agrees:
                bump("route_verdict", "known-finding")
                for f in known:
                    rep.known(f, findings_text[f])
            else:
                bump("route_verdict", "routes-differ")
                failing.append(({"expr": jsonable(e), "source": src}, {k: jsonable(v) for k, v in vals.items()}, "the routes give different types"))
        if m is not None:
            if model_agrees:
                validated += 1
            else:
                bad = [k for k in ROUTES if m[k] != vals[k]]
                corr.append(({"expr": jsonable(e), "source": src}, {k: jsonable(vals[k]) for k in bad}, {k: jsonable(m[k]) for k in bad},
                             f"Routes.route_{bad[0]} vs " + {"ast": "type_from_ast", "str": "type_from_runtime(str)", "rt": "type_from_runtime(eval(E))", "vis": "value_of_annotation", "visstr": "value_of_annotation (string)"}[bad[0]]))
    for le in LOCATION_ERRORS[:3]:
        failing.append(({"source": le.get("source", "")}, le, "a diagnostic about an annotation is not located at the annotation"))
    # ------------------------------------------------------------------ signatures
    hsrc = pre_rendered if not replay else [render_header(h, rrng) for h in headers]
    sigs = impl_signatures(hsrc) if headers else []
    msigs = None
    if model_ok and headers:
        try:
            msigs = model_sigs(headers)
        except RuntimeError as ex:
            rep.violation({"kind": "broken-correspondence", "correspondence": "Annot.DefSig evaluation failed", "detail": str(ex)[-1500:]}, no_failing_input=True)
    for i, (h, hs, s) in enumerate(zip(headers, hsrc, sigs)):
        ps = [p for p in h[0] if p is not None]
        bump("sig_params", len(ps))
        src = fdef("f", hs[0], hs[1])
        if isinstance(s["rt"], str):
            star = any("has_star_unpack" in guard_clauses(p[3]) for p in ps if p[3] is not None) or (h[1] is not None and "has_star_unpack" in guard_clauses(h[1]))
            if star and "C13-star-unpack-three-ways" in findings_text:
                bump("sig_verdict", "known-finding")
                rep.known("C13-star-unpack-three-ways", findings_text["C13-star-unpack-three-ways"])
            else:
                bump("sig_verdict", "crash")
                failing.append(({"header": jsonable(h), "source": src}, {"from_runtime": s["rt"]}, "ArgSpecCache.get_argspec raised"))
            continue
        if s["def"] is None or s["rt"] is None or has_other(s["def"]) or has_other(s["rt"]):
            bump("sig_verdict", "out-of-fragment")
            continue
        distinct.add(src)
        d = ([tuple(p) for p in s["def"][0]], s["def"][1])
        r = ([tuple(p) for p in s["rt"][0]], s["rt"][1])
        private = any(is_private(p[0]) and p[1] == "PosOrKw" for p in ps)
        exotic = any(guard_clauses(p[3]) for p in ps if p[3] is not None) or (h[1] is not None and guard_clauses(h[1]))
        m = msigs[i] if msigs and not unmodelled_header(h) else None
        model_agrees = m is not None and ([tuple(p) for p in m["def"][0]], m["def"][1]) == d and ([tuple(p) for p in m["rt"][0]], m["rt"][1]) == r
        if unmodelled_header(h):
            bump("sig_verdict", "unpacked-args:" + ("same" if d == r else "differ"))
        if d == r:
            bump("sig_verdict", "same")
        elif star_args_header(h) and "C13-bare-star-args-annotation" in findings_text and [p[:3] for p in d[0]] == [p[:3] for p in r[0]]:
            bump("sig_verdict", "known-finding")
            rep.known("C13-bare-star-args-annotation", findings_text["C13-bare-star-args-annotation"])
        elif private and not exotic and model_agrees and "C13-private-name-positional-only" in findings_text:
            bump("sig_verdict", "known-finding")
            rep.known("C13-private-name-positional-only", findings_text["C13-private-name-positional-only"])
        elif exotic and model_agrees:
            bump("sig_verdict", "known-finding")
            for c in set(sum([guard_clauses(p[3]) for p in ps if p[3] is not None], [])):
                fid = {"has_star_unpack": "C13-star-unpack-three-ways"}[c]
                if fid in findings_text:
                    rep.known(fid, findings_text[fid])
        else:
            bump("sig_verdict", "differ")
            failing.append(({"header": jsonable(h), "source": src}, {"from_def": jsonable(d), "from_runtime": jsonable(r)}, "signature from the def node differs from the signature of the function object"))
        if m is not None:
            if model_agrees:
                validated += 1
            else:
                corr.append(({"header": jsonable(h), "source": src}, {"from_def": jsonable(d), "from_runtime": jsonable(r)}, jsonable(m), "DefSig.sig_from_def/sig_from_runtime vs compute_parameters/from_signature"))
    # ------------------------------------------------------------------ signatures again, with stringified annotations
    n_future = 0
    if headers and not replay:
        pick = [i for i, h in enumerate(headers) if unmodelled_header(h)] + list(range(min(len(headers), 40 if quick else 400)))
        pick = sorted(set(pick))
        fsigs = impl_signatures([hsrc[i] for i in pick], future=True)
        for i, s2 in zip(pick, fsigs):
            h, hs = headers[i], hsrc[i]
            n_future += 1
            src = "from __future__ import annotations; " + fdef("f", hs[0], hs[1])
            if isinstance(s2["rt"], str) or s2["def"] is None or s2["rt"] is None:
                if isinstance(s2["rt"], str) and not star_args_header(h):
                    failing.append(({"header": jsonable(h), "source": src}, {"from_runtime": s2["rt"]}, "ArgSpecCache.get_argspec raised (annotations stringified by the __future__ import)"))
                continue
            d2 = ([tuple(p) for p in s2["def"][0]], s2["def"][1])
            r2 = ([tuple(p) for p in s2["rt"][0]], s2["rt"][1])
            ok2 = jsonable(d2) == jsonable(r2)
            bump("sig_verdict", "future-annotations:" + ("same" if ok2 else "differ"))
            if not ok2:
                if star_args_header(h) and "C13-bare-star-args-annotation" in findings_text and [p[:3] for p in d2[0]] == [p[:3] for p in r2[0]]:
                    rep.known("C13-bare-star-args-annotation", findings_text["C13-bare-star-args-annotation"])
                else:
                    failing.append(({"header": jsonable(h), "source": src}, {"from_def": jsonable(d2), "from_runtime": jsonable(r2)},
                                    "with `from __future__ import annotations` the signature from the def node differs from the signature of the function object"))
    # ------------------------------------------------------------------ calls
    n_calls = 0
    if headers and not replay:
        d = Path(tempfile.mkdtemp(prefix="c13_"))
        sys.path.insert(0, str(d))
        try:
            sel = list(range(len(headers)))[: (60 if quick else 400)]
            calls, res = impl_calls([hsrc[i] for i in sel], rng, d, f"{lib.seed()}_{tier}")
            mcalls = None
            if model_ok:
                try:
                    mcalls = model_calls(headers, [(headers[sel[j]], a) for j, a in calls])
                except RuntimeError as ex:
                    rep.violation({"kind": "broken-correspondence", "correspondence": "Annot.Calls evaluation failed", "detail": str(ex)[-1500:]}, no_failing_input=True)
            for ci, (j, a) in enumerate(calls):
                n_calls += 1
                h = headers[sel[j]]
                if mcalls is not None and not unmodelled_header(h):
                    m_def, m_rt = mcalls[ci]
                    i_def = "incompatible_call" not in res["nested"][ci]
                    i_rt = "incompatible_call" not in res["imported"][ci]
                    if (bool(m_def), bool(m_rt)) == (i_def, i_rt):
                        validated += 1
                        bump("call_verdict", f"model:def={'binds' if m_def else 'rejected'},importer={'binds' if m_rt else 'rejected'}")
                    else:
                        corr.append(({"header": jsonable(h), "source": fdef("m", hsrc[sel[j]][0], hsrc[sel[j]][1]) + f"; m({a})"},
                                     {"nested_def": res["nested"][ci], "imported": res["imported"][ci]}, {"def_binds": bool(m_def), "importer_binds": bool(m_rt)},
                                     "Calls.call_in_defining_scope/call_from_importer vs incompatible_call on the call"))
                trio = (res["inmod"][ci], res["imported"][ci], res["nested"][ci])
                src = fdef("m", hsrc[sel[j]][0], hsrc[sel[j]][1]) + f"; m({a})"
                if trio[0] == trio[1] == trio[2]:
                    bump("call_verdict", "same:" + ("diag" if trio[0] else "clean"))
                    continue
                ps = [p for p in h[0] if p is not None]
                private = any(is_private(p[0]) and p[1] == "PosOrKw" for p in ps)
                exotic = any(guard_clauses(p[3]) for p in ps if p[3] is not None)
                if trio[0] == trio[1] and private and "C13-private-name-positional-only" in findings_text:
                    bump("call_verdict", "known-finding")
                    rep.known("C13-private-name-positional-only", findings_text["C13-private-name-positional-only"])
                elif trio[0] == trio[1] and star_args_header(h) and "C13-bare-star-args-annotation" in findings_text:
                    bump("call_verdict", "known-finding")
                    rep.known("C13-bare-star-args-annotation", findings_text["C13-bare-star-args-annotation"])
                elif trio[0] == trio[1] and exotic:
                    bump("call_verdict", "known-finding")
                else:
                    bump("call_verdict", "differ")
                    failing.append(({"header": jsonable(h), "source": src}, {"in_module": trio[0], "imported": trio[1], "nested_def": trio[2]}, "the same call is judged differently"))
        finally:
            sys.path.remove(str(d))
            shutil.rmtree(d, ignore_errors=True)
            for k in [k for k in sys.modules if k.startswith("c13mod_")]:
                del sys.modules[k]

    # ------------------------------------------------------------------ function kinds
    n_kind = 0
    if not replay:
        d = Path(tempfile.mkdtemp(prefix="c13k_"))
        sys.path.insert(0, str(d))
        try:
            kr = impl_kinds(random.Random(lib.seed() * 211 + 7), d, f"{lib.seed()}_{tier}", quick)
            for j, (kind, r, h, v) in enumerate(kr["items"]):
                n_kind += 1
                src = KIND_TEMPLATES[kind].format(n="f", h=h, r=r, v=v, i="")
                inp = {"function_kind": kind, "source": src}
                distinct.add(src)
                if kind in UNDECORATED:
                    dtxt, rtxt = kr["def"].get(j, ("missing", False))[0], kr["rt"].get(j, ("missing", False))[0]
                    bump("sig_verdict", f"kind:{kind}:{'annotated' if r else 'unannotated'}:" + ("same" if dtxt == rtxt else "differ"))
                    if dtxt != rtxt:
                        failing.append((inp, {"from_def": dtxt, "from_runtime": rtxt}, "signature (parameters and return type) from the def node differs from the signature of the function object"))
            for ci, (j, c) in enumerate(kr["calls"]):
                n_kind += 1
                kind, r, h, v = kr["items"][j]
                a, b = kr["res"]["inmod"][ci], kr["res"]["imported"][ci]
                inp = {"function_kind": kind, "source": KIND_TEMPLATES[kind].format(n="f", h=h, r=r, v=v, i="") + "# call: " + c.format(n="f")}
                same_diag = a[0] == b[0]
                if r or kind not in UNDECORATED:
                    same_val = a[1] == b[1]        # declared return type (or an object seen only at run time): identical result
                else:
                    # no return annotation: the defining module may infer more, but the KIND of result (coroutine, ...) is the same
                    same_val = a[2] == b[2] or (b[2] == "Any" and kind in ("plain", "gen"))
                bump("call_verdict", f"kind:{kind}:" + ("same" if same_diag and same_val else "differ"))
                if (not same_val and same_diag and kind == "asyncgen" and not r and a[2] == "Coroutine" and b[2] == "Any"
                        and "C13-async-generator-inferred-as-coroutine" in findings_text):
                    rep.known("C13-async-generator-inferred-as-coroutine", findings_text["C13-async-generator-inferred-as-coroutine"])
                elif not (same_diag and same_val):
                    failing.append((inp, {"in_module": {"codes": a[0], "result": a[1]}, "imported": {"codes": b[0], "result": b[1]}},
                                    "the same call is judged differently in the defining and in an importing module"))
        finally:
            sys.path.remove(str(d))
            shutil.rmtree(d, ignore_errors=True)
            for k in [k for k in sys.modules if k.startswith("c13kind_")]:
                del sys.modules[k]

    # ------------------------------------------------------------------ methods of nested classes
    n_meth = 0
    if not replay or (replay and "method_module" in json.loads(Path(replay).read_text()).get("input", {})):
        d = Path(tempfile.mkdtemp(prefix="c13m_"))
        sys.path.insert(0, str(d))
        try:
            if replay:
                cfg = json.loads(Path(replay).read_text())["input"]["method_module"]
                configs = [(int(cfg["depth"]), bool(cfg["local"]))]
            else:
                configs = [(1, False), (2, False), (3, False), (4, False), (1, True), (2, True), (3, True)]
                if not quick:
                    configs = configs * 3
            mres = impl_methods(random.Random(lib.seed() * 101 + 5), d, f"{lib.seed()}_{tier}", configs)
            by_shape = {}
            for mr in mres:
                inp = {"method_module": {"depth": mr["depth"], "local": mr["local"]}, "source": mr["source"]}
                for row in mr["selfs"]:
                    n_meth += 1
                    bump("sig_verdict", f"self:{'local' if mr['local'] else 'nested'}:{row['method']}:" + ("same" if row["def"] == row["rt"] else "differ"))
                    distinct.add(mr["source"] + row["class"] + row["method"])
                    if row["def"] != row["rt"]:
                        failing.append((inp, row, "the type of self inside the method (def node) differs from the first parameter of the function object's signature"))
                for ci, (p, c) in enumerate(mr["calls"]):
                    n_meth += 1
                    a, b = mr["res"]["inmod"][ci], mr["res"]["imported"][ci]
                    if a != b:
                        failing.append((inp, {"call": c.format(P=p), "in_module": a, "imported": b}, "the same call is judged differently"))
                    if not mr["local"]:
                        # the nesting depth of the class must not matter (a class nested in classes only)
                        by_shape.setdefault(c, {})[(mr["depth"], p.count("."))] = (a, inp, c.format(P=p))
            for c, m in by_shape.items():
                ref = None
                for key in sorted(m):
                    a, inp, shown = m[key]
                    if ref is None:
                        ref = (a, shown)
                    elif a != ref[0]:
                        failing.append((inp, {"call": shown, "diagnostics": a, "same_call_on_a_top_level_class": ref[1], "diagnostics_there": ref[0]},
                                        "a call on a method of a nested class is judged differently from the same call on a top-level class"))
                        break
        finally:
            sys.path.remove(str(d))
            shutil.rmtree(d, ignore_errors=True)
            for k in [k for k in sys.modules if k.startswith("c13meth_")]:
                del sys.modules[k]

    # ------------------------------------------------------------------ verdicts
    for inp, obs, why in failing[:8]:
        rep.violation({"kind": "failing-input", "input": inp, "observed": obs, "expected": why, "how_to_run": "./check C13 --replay <this file>"})
    if corr and not failing:
        inp, obs, mod, name = corr[0]
        rep.violation({"kind": "broken-correspondence", "correspondence": name, "input": inp, "observed": obs, "model": mod, "mismatches": len(corr)}, no_failing_input=True)
    if broken_translation and not failing:
        rep.violation({"kind": "broken-obligation", "theorem": "Gen/Annot.v (translator)", "detail": broken_translation}, no_failing_input=True)
    if proof is not None and not proof.ok and not failing:
        rep.violation({"kind": "broken-obligation", "theorem": "; ".join(proof.broken), "log": proof.log[-1500:]}, no_failing_input=True)

    rep.coverage.update(
        evaluations=len(exprs) * 5 + len(headers) * 2 + n_calls * 3 + n_meth + n_kind + n_future * 2,
        method_observations=n_meth,
        function_kind_observations=n_kind,
        distinct_nontrivial=len(distinct),
        rule="a case = an annotation expression (generated over the property's vocabulary, depth <= 4, old/new spellings chosen at random) evaluated through five routes "
        "(type_from_ast, string, runtime object, parameter annotation in a checked module, same as a string), or a def header (all parameter kinds, defaults, annotations, "
        "private names) seen through compute_parameters (nested def) and from_signature (function object), or a call placed in a nested scope / the defining module / an importing module; "
        "non-trivial = inside the encoder's fragment and evaluable under CPython; distinct = distinct source texts",
        samples=[{"source": s, "routes": {k: jsonable(v) for k, v in r.items()}} for s, r in list(zip(srcs, impl))[:: max(1, len(srcs) // 5)][:5]],
        traces_validated_against_impl=validated,
        input_distribution=hist,
        correspondence_mismatches=len(corr),
        failing_inputs=len(failing),
        expressions=len(exprs),
        headers=len(headers),
        calls=n_calls,
        annotated_metadata_ignored=IGNORED_METADATA[0],
        excluded_forms_compared=len(EXCLUDED_FORMS),
        annotation_diagnostics_mislocated=len(LOCATION_ERRORS),
        exhaustive=False,
    )
    rep.assumptions = [
        "the model of what evaluating an annotation produces (typing's Union flattening, Optional, Literal flattening) is folded into route_runtime and checked only by the correspondence against CPython's typing module",
        "union members are compared as sets, Any sources are ignored, Annotated is distributed over unions (representation)",
    ]
    return rep.finish(
        proof,
        "coq_makefile + make theories/Properties/C13.vo; coqc theories/Properties/C13.v (Print Assumptions)" + ("; coqchk -o" if tier == "thorough" else ""),
        ["Coq 8.16.1 kernel (coqc; vm_compute in model evaluation)", "encoder/decoder and generators in harness/c13.py", "CPython 3.12 typing module (eval of every expression)"],
    )
