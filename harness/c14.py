"""C14 — value algebra: unions form a semilattice; equality, hashing, substitution.

proof      : Properties/C14.v over Core/Val.v + Core/Subst.v (hand model of value.py)
tie        : correspondence of veq / heq / unite / subst with ==, hash, unite_values,
             substitute_typevars on generated triples and type-variable maps
oracle     : the laws themselves evaluated on the real code (unite_values, ==, hash, ...)
"""
from __future__ import annotations

import json
import random
from pathlib import Path

import lib
from core_enc import Ctx, Nat, OutOfFragment, enc_val, norm, show
import gen_values as G

PROP = "C14"
FUEL = 40  # Core/Val.v `big`

HEADER = (
    "From Coq Require Import ZArith List Bool NArith. Import ListNotations.\n"
    "Require Import PV.Core.Obj PV.Core.Val PV.Core.Subst PV.Core.C14Run.\n"
)

LAWS = ["accepts3", "walk_covers_subst", "idem_self", "refl", "sym", "trans", "eq_hash", "merged", "idem", "never_identity", "comm", "assoc", "no_nesting",
        "members", "accepts", "subst_closed", "subst_elim", "subst_comm", "normal_fix"]


def gen_files():
    return {}


# ---------------------------------------------------------------------------
# implementation side


def has_raw_union(s):
    if not isinstance(s, list):
        return False
    if s and s[0] == "union":
        return True
    return any(has_raw_union(x) for x in s)


_CHECKER = []


def checker():
    if not _CHECKER:
        from pyanalyze.checker import Checker

        _CHECKER.append(Checker())
    return _CHECKER[0]


def has_kind(s, kinds):
    if not isinstance(s, list):
        return False
    if s and isinstance(s[0], str) and s[0] in kinds:
        return True
    return any(has_kind(x, kinds) for x in s)


def has_annotated_union(s):
    """Annotated[...] directly around a union: unite_values distributes the metadata, so the
    value is not a fixed point of uniting"""
    if not isinstance(s, list):
        return False
    if s and s[0] == "annot" and isinstance(s[1], list) and s[1] and s[1][0] in ("union", "unite"):
        return True
    return any(has_annotated_union(x) for x in s)


def term_typevars(t):
    """type-variable ids occurring in an encoded value term (bounds / constraints of a TypeVar are not searched,
    as in Core/Subst.v `occurs`)"""
    out = set()
    if isinstance(t, tuple) and t and t[0] == "VNode":
        tag, kids = t[1], t[2]
        if isinstance(tag, tuple) and tag[0] == "TTypeVar":
            out.add(int(tag[1]) - 1)
            return out
        for k in kids:
            out |= term_typevars(k)
    elif isinstance(t, tuple) and t and t[0] == "VUnion":
        for k in t[1]:
            out |= term_typevars(k)
    return out


def tv_only_in_td_extra(s):
    """a spec with a type variable inside the extra-items type of a TypedDict"""
    if not isinstance(s, list):
        return False
    if s and s[0] == "td" and len(s) == 4 and s[2] is not None and has_kind(s[2], ("tv",)):
        return True
    return any(tv_only_in_td_extra(x) for x in s)


def impl_case(case):
    """Evaluate everything on the real code.  Returns (observables, laws, terms)."""
    from pyanalyze import value as V
    import universe as U

    cache = {}
    a, b, c = (G.build(case[k], cache) for k in ("a", "b", "c"))
    m = {U.TYPEVARS[i]: G.build(s, cache) for i, s in case["m"]}
    cx = Ctx()
    terms = {"a": enc_val(a, cx), "b": enc_val(b, cx), "c": enc_val(c, cx),
             "m": [(i + 1, enc_val(m[U.TYPEVARS[i]], cx)) for i, _ in case["m"]]}
    un = V.unite_values
    obs, laws = {}, {}

    def enc(v):
        try:
            return norm(enc_val(v, cx))
        except OutOfFragment as ex:
            return "OOF:" + str(ex)

    ab, ba = un(a, b), un(b, a)
    l, r = un(ab, c), un(a, un(b, c))
    aa, a1 = un(a, a), un(a)
    sa, sb = a.substitute_typevars(m), b.substitute_typevars(m)
    s_u, u_s = ab.substitute_typevars(m), un(sa, sb)
    obs["veq_ab"], obs["veq_bc"], obs["veq_ac"] = a == b, b == c, a == c
    obs["E_ab"] = (a == b) and hash(a) == hash(b)
    obs["hash_ab"] = hash(a) == hash(b)
    obs["u_ab"], obs["u_ba"], obs["comm"] = enc(ab), enc(ba), ab == ba
    obs["assoc_l"], obs["assoc_r"], obs["assoc"] = enc(l), enc(r), l == r
    obs["u_aa"], obs["u_a"] = enc(aa), enc(a1)
    obs["veq_a_ua"], obs["veq_uaa_a"] = (a == a1), (aa == a)
    obs["sub_a"], obs["sub_u"], obs["u_sub"], obs["subst_comm"] = enc(sa), enc(s_u), enc(u_s), s_u == u_s
    # the dict-key identification (hash equal and ==) between all alternatives of the operands:
    # a hash deviation anywhere inside an alternative shows up here
    mem3 = [x for v in (a, b, c) for x in V.flatten_values(v)]
    obs["emat"] = [[(x == y) and hash(x) == hash(y) for y in mem3] for x in mem3]

    flat = lambda v: list(V.flatten_values(v))
    laws["refl"] = (a == a) and hash(a) == hash(a) and (b == b)
    laws["sym"] = (a == b) == (b == a) and (b == c) == (c == b)
    laws["trans"] = not (a == b and b == c) or (a == c)
    laws["eq_hash"] = not (a == b) or hash(a) == hash(b)
    laws["merged"] = not (a == b) or (ab == a1)
    laws["idem"] = aa == a1
    # for a union that stays a union, multiplicity and order of the members are invisible to ==:
    # uniting it with itself / with Never gives an equal value even when it was built with repeats
    # (Any[unreachable] members are dropped by unite_values, so such unions are excluded)
    if isinstance(a, V.MultiValuedValue) and isinstance(a1, V.MultiValuedValue) and not any(V._is_unreachable(x) for x in a.vals):
        laws["idem_self"] = (aa == a) and (a1 == a) and (a == a1) and un(V.NO_RETURN_VALUE, a) == a and un(a, V.NO_RETURN_VALUE) == a
    laws["never_identity"] = un(V.NO_RETURN_VALUE, a) == a1 and un(a, V.NO_RETURN_VALUE) == a1
    laws["comm"] = ab == ba
    laws["assoc"] = l == r
    laws["no_nesting"] = not any(V.is_union(x) for res in (ab, l, r, u_s) for x in flat(res))
    res_members = flat(ab)
    ops = flat(a) + flat(b)
    sub = all(any(x is y or x == y for y in ops) for x in res_members) or ab == V.AnyValue(V.AnySource.unreachable)
    cover = all(V._is_unreachable(x) or any(y == x for y in res_members) for x in ops)
    laws["members"] = sub and cover
    tvfree = not has_kind([case["a"], case["b"]], ("tv",))
    if tvfree:
        ctx = checker()
        laws["accepts"] = isinstance(ab.can_assign(a, ctx), dict) and isinstance(ab.can_assign(b, ctx), dict)
        # "accepts each operand" for the three-operand union as well, and for every alternative of the operands
        abc = un(a, b, c)
        if not has_kind([case["c"]], ("tv",)):
            laws["accepts3"] = all(isinstance(abc.can_assign(x, ctx), dict) for x in (a, b, c)) and \
                all(isinstance(abc.can_assign(x, ctx), dict) for v in (a, b, c) for x in V.flatten_values(v))
    # closedness is read off the spec (TypedDictValue.walk_values skips extra_keys)
    if not has_kind(case["a"], ("tv", "class")) and not has_raw_union(case["a"]):
        laws["subst_closed"] = sa == a
    if not has_kind([x for _, x in case["m"]], ("tv",)):
        # occurrences are read off the encoded term (walk_values does not reach every substituted field)
        try:
            left = term_typevars(norm(enc_val(sa, cx)))
            laws["subst_elim"] = not (left & {i for i, _ in case["m"]})
        except OutOfFragment:
            pass
    # every type variable that substitution can reach is also reached by walk_values (Signature caches
    # `all_typevars` from walk_values); known asymmetry: TypedDictValue.walk_values skips extra_keys
    try:
        seen_by_walk = {U.TYPEVARS.index(x.typevar) for x in a.walk_values() if isinstance(x, V.TypeVarValue) and x.typevar in U.TYPEVARS}
        laws["walk_covers_subst"] = term_typevars(norm(terms["a"])) <= seen_by_walk
    except OutOfFragment:
        pass
    rng_specs = [x for _, x in case["m"]]
    if not has_raw_union(rng_specs) and not has_annotated_union(rng_specs):  # the map's range is in normal form
        laws["subst_comm"] = s_u == u_s
    if case["a"][0] == "unite":
        laws["normal_fix"] = a1 == a
    return obs, laws, terms


# ---------------------------------------------------------------------------
# model side


def model_term(terms):
    a, b, c = show(terms["a"]), show(terms["b"]), show(terms["c"])
    m = "[" + "; ".join(f"({i}%N, {show(v)})" for i, v in terms["m"]) + "]"
    return f"c14_run {a} {b} {c} {m}"


def decode_model(res):
    # Coq prints left-nested pairs flat: the first component's fields come first
    veq_ab, veq_bc, veq_ac, e_ab, heq_ab, (ab, ba, comm), (l, r, assoc), (aa, a1, veq_a_ua, veq_uaa_a), (sa, s_u, u_s, scomm), guards, roots, emat = res
    obs = {"veq_ab": veq_ab, "veq_bc": veq_bc, "veq_ac": veq_ac, "E_ab": e_ab, "u_ab": ab, "u_ba": ba, "comm": comm,
           "assoc_l": l, "assoc_r": r, "assoc": assoc, "u_aa": aa, "u_a": a1, "sub_a": sa, "sub_u": s_u, "u_sub": u_s,
           "subst_comm": scomm, "emat": emat, "veq_a_ua": veq_a_ua, "veq_uaa_a": veq_uaa_a}
    g = dict(zip(["equiv", "hash_consistent", "unhashable_literal", "annotated_unreachable", "flat", "nested_annot"], guards))
    g["roots"] = dict(zip(["literal", "union_order", "kwonly_order", "other"], roots))
    return obs, heq_ab, g


def canon(x):
    """parse_term output and norm(enc) output in one comparable shape"""
    if isinstance(x, list):
        return [canon(y) for y in x]
    if isinstance(x, tuple):
        return tuple(canon(y) for y in x)
    if isinstance(x, lib.Sym):
        return x.name
    return x


# ---------------------------------------------------------------------------


def load_corpus():
    p = lib.VERIF / "harness" / "corpus" / f"{PROP}.json"
    return json.loads(p.read_text()) if p.exists() else []


def run(tier: str, replay: str | None = None):
    rep = lib.Report(PROP, tier, "proof")
    rng = random.Random(lib.seed() * 104729 + 14)
    proof = lib.prove(PROP, gen_files(), extra_targets=["theories/Core/C14Run.vo"], thorough=(tier == "thorough"))

    if replay:
        cases = [json.loads(Path(replay).read_text())["input"]]
    else:
        cases = list(load_corpus())
        fresh = [0]
        n = 500 if tier == "quick" else 6000
        for _ in range(n):
            cases.append(G.gen_case(rng, fresh))

    # implementation + oracle
    impl, terms, oof = [], [], 0
    hist = {"kinds": {}, "laws_failed": {}, "veq_ab_true": 0, "hash_differs_when_equal": 0, "depth": {}}
    for case in cases:
        try:
            obs, laws, t = impl_case(case)
        except OutOfFragment:
            oof += 1
            impl.append(None)
            terms.append(None)
            continue
        impl.append((obs, laws))
        terms.append(t)
        for k in ("a", "b", "c"):
            hist["kinds"][case[k][0]] = hist["kinds"].get(case[k][0], 0) + 1
        hist["veq_ab_true"] += bool(obs["veq_ab"])
        hist["hash_differs_when_equal"] += bool(obs["veq_ab"] and not obs["hash_ab"])

    # model
    model_ok = not any("build failed" in b or "forbidden" in b for b in proof.broken)
    if not model_ok:  # a proof no longer checks: the model itself may still build, so that the oracle keeps its reference
        model_ok = lib.coq_make(["theories/Core/C14Run.vo"])[0]
    results = None
    idx = [i for i, t in enumerate(terms) if t is not None]
    if model_ok:
        try:
            results = lib.coq_eval(HEADER, [model_term(terms[i]) for i in idx], name="c14", shard=60 if tier == "quick" else 150, jobs=6)
        except RuntimeError as ex:
            rep.violation({"kind": "broken-correspondence", "correspondence": "Core.Val/Core.Subst evaluation", "detail": str(ex)[-1500:]},
                          no_failing_input=True)
    model = {}
    if results is not None:
        for i, res in zip(idx, results):
            model[i] = decode_model(canon(res))

    # verdicts
    findings = {f["id"]: f for f in lib.load_known_findings(PROP)["findings"]}
    corr_mismatch, failing, distinct, validated = [], [], set(), 0
    guard_mix = {"guard_true": 0, "guard_false": 0}
    for i in idx:
        obs, laws = impl[i]
        key = json.dumps(cases[i], sort_keys=True)
        nontrivial = cases[i]["a"][0] not in ("typed", "any", "uninit") or cases[i]["b"][0] not in ("typed", "any", "uninit")
        mism = []
        g = None
        if i in model:
            mobs, mheq, g = model[i]
            for k, v in mobs.items():
                iv = canon(obs[k])
                if isinstance(iv, str) and iv.startswith("OOF:"):
                    continue
                if iv != v:
                    mism.append((k, iv, v))
            if mheq and not obs["hash_ab"]:
                mism.append(("heq_ab", False, True))
            if not mism:
                validated += 1
            if nontrivial:
                distinct.add(key)
            guard_ok = g["equiv"] and g["hash_consistent"] and not g["annotated_unreachable"]
            guard_mix["guard_true" if guard_ok else "guard_false"] += 1
        bad = [k for k, v in laws.items() if not v]
        for k in bad:
            hist["laws_failed"][k] = hist["laws_failed"].get(k, 0) + 1
        if bad:
            attributed = False
            if g is not None and not mism:
                if not (g["equiv"] and g["hash_consistent"]):
                    # every root of the inconsistency must have one of the known shapes
                    roots = g["roots"]
                    if g["hash_consistent"] or roots["other"] or not (roots["literal"] or roots["union_order"] or roots["kwonly_order"]):
                        attributed = False
                    else:
                        for key, fid in (("literal", "C14-unhashable-literal-hash"), ("union_order", "C14-union-order-hash"),
                                         ("kwonly_order", "C14-callable-kwonly-order-hash")):
                            if roots[key]:
                                if fid in findings:
                                    rep.known(fid, findings[fid]["what"])
                                    attributed = True
                                else:
                                    attributed = False
                                    break
                elif g["annotated_unreachable"] and set(bad) <= {"idem", "idem_self", "never_identity", "merged", "normal_fix", "members", "subst_comm", "subst_closed", "comm", "assoc"}:
                    fid = "C14-annotated-unreachable"
                    if fid in findings:
                        rep.known(fid, findings[fid]["what"])
                        attributed = True
                elif set(bad) <= {"walk_covers_subst"} and tv_only_in_td_extra(cases[i]["a"]):
                    fid = "C14-walk-values-skips-extra-keys"
                    if fid in findings:
                        rep.known(fid, findings[fid]["what"])
                        attributed = True
                elif g["nested_annot"] and set(bad) <= {"subst_comm"}:
                    fid = "C14-subst-nested-annotated"
                    if fid in findings:
                        rep.known(fid, findings[fid]["what"])
                        attributed = True
            if not attributed:
                failing.append((i, bad, mism))
        elif mism:
            corr_mismatch.append((i, mism))

    for i, bad, mism in failing[:10]:
        rep.violation({"kind": "failing-input", "input": cases[i], "observed": {"laws_violated": bad, "impl": str(impl[i][0])[:1500]},
                       "expected": "every law of C14 holds (or the case falls under a known finding's guard and the model predicts the behaviour)",
                       "model_mismatch": str(mism)[:800], "how_to_run": f"./check {PROP} --replay <this file>"})
    if corr_mismatch and not failing:
        i, mism = corr_mismatch[0]
        rep.violation({"kind": "broken-correspondence", "correspondence": "Core.Val veq/heq/unite, Core.Subst subst vs Value.__eq__/__hash__/unite_values/substitute_typevars",
                       "input": cases[i], "observed": str(mism)[:1500], "n_mismatching_cases": len(corr_mismatch)}, no_failing_input=True)
    if not proof.ok and not failing:
        rep.violation({"kind": "broken-obligation", "theorem": "; ".join(proof.broken), "log": proof.log[-1500:]}, no_failing_input=True)

    n_eval = len(idx) * 19
    rep.coverage.update(
        evaluations=n_eval,
        distinct_nontrivial=len(distinct),
        rule="a case = (a, b, c, typevar map) of generated Values (literals incl. unhashable ones with shared/distinct identity, typed, NewType, "
        "generic, sequence, dict-incomplete, TypedDict, callable, annotated, subclass, typevar, raw and united nested unions); b/c are often "
        "variants of a (shuffled unions, re-created unhashable literals); 19 observables per case (incl. the hash-and-== matrix over all alternatives) are compared model vs implementation; "
        "non-trivial = a or b is not a bare typed/Any value",
        samples=[cases[i] for i in idx[:3]],
        traces_validated_against_impl=validated,
        input_distribution={**hist, **guard_mix, "out_of_fragment": oof, "cases": len(cases)},
        correspondence_mismatches=len(corr_mismatch) + sum(1 for _, _, m in failing if m),
        oracle_failures_unattributed=len(failing),
        laws_checked_on_real_code=LAWS,
    )
    rep.assumptions = ["ideal hashing: distinct hash keys do not collide (only the direction model-heq => hash equal is compared)",
                       "NaN, -0.0 and objects with user-defined __eq__/__hash__ are outside the modelled fragment"]
    return rep.finish(
        proof,
        "coq_makefile + make theories/Properties/C14.vo; coqc theories/Properties/C14.v (Print Assumptions)" + ("; coqchk -o" if tier == "thorough" else ""),
        ["Coq 8.16.1 kernel (coqc; vm_compute in witnesses and model evaluation)", "encoder harness/core_enc.py", "correspondence harness/c14.py",
         "CPython ==/hash on the universe objects"],
    )
