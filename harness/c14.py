"""C14 — value algebra: unions form a semilattice; equality, hashing, substitution.

proof      : Properties/C14.v over Core/Val.v + Core/Subst.v (hand model of value.py)
tie        : correspondence of veq / heq / unite / subst with ==, hash, unite_values,
             substitute_typevars on generated triples and type-variable maps
oracle     : the laws themselves evaluated on the real code (unite_values, ==, hash, ...)
"""
from __future__ import annotations

import json
import random
from pathlib import Path

import lib
from core_enc import Ctx, Nat, OutOfFragment, enc_val, norm, show
import gen_values as G

PROP = "C14"
FUEL = 40  # Core/Val.v `big`

HEADER = (
    "From Coq Require Import ZArith List Bool NArith. Import ListNotations.\n"
    "Require Import PV.Core.Obj PV.Core.Val PV.Core.Subst PV.Core.C14Run.\n"
)

LAWS = ["accepts3", "walk_covers_subst", "idem_self", "refl", "sym", "trans", "eq_hash", "merged", "idem", "never_identity", "comm", "assoc", "no_nesting",
        "members", "accepts", "subst_closed", "subst_elim", "subst_comm", "normal_fix"]


def gen_files():
    return {}


# ---------------------------------------------------------------------------
# implementation side


def has_raw_union(s):
    if not isinstance(s, list):
        return False
    if s and s[0] == "union":
        return True
    return any(has_raw_union(x) for x in s)


_CHECKER = []


def checker():
    if not _CHECKER:
        from pyanalyze.checker import Checker

        _CHECKER.append(Checker())
    return _CHECKER[0]


def has_kind(s, kinds):
    if not isinstance(s, list):
        return False
    if s and isinstance(s[0], str) and s[0] in kinds:
        return True
    return any(has_kind(x, kinds) for x in s)


def has_annotated_union(s):
    """Annotated[...] directly around a union: unite_values distributes the metadata, so the
    value is not a fixed point of uniting"""
    if not isinstance(s, list):
        return False
    if s and s[0] == "annot" and isinstance(s[1], list) and s[1] and s[1][0] in ("union", "unite"):
        return True
    return any(has_annotated_union(x) for x in s)


def term_typevars(t):
    """type-variable ids occurring in an encoded value term (bounds / constraints of a TypeVar are not searched,
    as in Core/Subst.v `occurs`)"""
    out = set()
    if isinstance(t, tuple) and t and t[0] == "VNode":
        tag, kids = t[1], t[2]
        if isinstance(tag, tuple) and tag[0] == "TTypeVar":
            out.add(int(tag[1]) - 1)
            return out
        for k in kids:
            out |= term_typevars(k)
    elif isinstance(t, tuple) and t and t[0] == "VUnion":
        for k in t[1]:
            out |= term_typevars(k)
    return out


def tv_only_in_td_extra(s):
    """a spec with a type variable inside the extra-items type of a TypedDict"""
    if not isinstance(s, list):
        return False
    if s and s[0] == "td" and len(s) == 4 and s[2] is not None and has_kind(s[2], ("tv",)):
        return True
    return any(tv_only_in_td_extra(x) for x in s)


def impl_case(case):
    """Evaluate everything on the real code.  Returns (observables, laws, terms)."""
    from pyanalyze import value as V
    import universe as U

    cache = {}
    a, b, c = (G.build(case[k], cache) for k in ("a", "b", "c"))
    m = {U.TYPEVARS[i]: G.build(s, cache) for i, s in case["m"]}
    cx = Ctx()
    terms = {"a": enc_val(a, cx), "b": enc_val(b, cx), "c": enc_val(c, cx),
             "m": [(i + 1, enc_val(m[U.TYPEVARS[i]], cx)) for i, _ in case["m"]]}
    un = V.unite_values
    obs, laws = {}, {}

    def enc(v):
        try:
            return norm(enc_val(v, cx))
        except OutOfFragment as ex:
            return "OOF:" + str(ex)

    ab, ba = un(a, b), un(b, a)
    l, r = un(ab, c), un(a, un(b, c))
    aa, a1 = un(a, a), un(a)
    sa, sb = a.substitute_typevars(m), b.substitute_typevars(m)
    s_u, u_s = ab.substitute_typevars(m), un(sa, sb)
    obs["veq_ab"], obs["veq_bc"], obs["veq_ac"] = a == b, b == c, a == c
    obs["E_ab"] = (a == b) and hash(a) == hash(b)
    obs["hash_ab"] = hash(a) == hash(b)
    obs["u_ab"], obs["u_ba"], obs["comm"] = enc(ab), enc(ba), ab == ba
    obs["assoc_l"], obs["assoc_r"], obs["assoc"] = enc(l), enc(r), l == r
    obs["u_aa"], obs["u_a"] = enc(aa), enc(a1)
    obs["veq_a_ua"], obs["veq_uaa_a"] = (a == a1), (aa == a)
    obs["sub_a"], obs["sub_u"], obs["u_sub"], obs["subst_comm"] = enc(sa), enc(s_u), enc(u_s), s_u == u_s
    # the dict-key identification (hash equal and ==) between all alternatives of the operands:
    # a hash deviation anywhere inside an alternative shows up here
    mem3 = [x for v in (a, b, c) for x in V.flatten_values(v)]
    obs["emat"] = [[(x == y) and hash(x) == hash(y) for y in mem3] for x in mem3]

    flat = lambda v: list(V.flatten_values(v))
    laws["refl"] = (a == a) and hash(a) == hash(a) and (b == b)
    laws["sym"] = (a == b) == (b == a) and (b == c) == (c == b)
    laws["trans"] = not (a == b and b == c) or (a == c)
    laws["eq_hash"] = not (a == b) or hash(a) == hash(b)
    laws["merged"] = not (a == b) or (ab == a1)
    laws["idem"] = aa == a1
    # for a union that stays a union, multiplicity and order of the members are invisible to ==:
    # uniting it with itself / with Never gives an equal value even when it was built with repeats
    # (Any[unreachable] members are dropped by unite_values, so such unions are excluded)
    if isinstance(a, V.MultiValuedValue) and isinstance(a1, V.MultiValuedValue) and not any(V._is_unreachable(x) for x in a.vals):
        laws["idem_self"] = (aa == a) and (a1 == a) and (a == a1) and un(V.NO_RETURN_VALUE, a) == a and un(a, V.NO_RETURN_VALUE) == a
    laws["never_identity"] = un(V.NO_RETURN_VALUE, a) == a1 and un(a, V.NO_RETURN_VALUE) == a1
    laws["comm"] = ab == ba
    laws["assoc"] = l == r
    laws["no_nesting"] = not any(V.is_union(x) for res in (ab, l, r, u_s) for x in flat(res))
    res_members = flat(ab)
    ops = flat(a) + flat(b)
    sub = all(any(x is y or x == y for y in ops) for x in res_members) or ab == V.AnyValue(V.AnySource.unreachable)
    cover = all(V._is_unreachable(x) or any(y == x for y in res_members) for x in ops)
    laws["members"] = sub and cover
    tvfree = not has_kind([case["a"], case["b"]], ("tv",))
    if tvfree:
        ctx = checker()
        laws["accepts"] = isinstance(ab.can_assign(a, ctx), dict) and isinstance(ab.can_assign(b, ctx), dict)
        # "accepts each operand" for the three-operand union as well, and for every alternative of the operands
        abc = un(a, b, c)
        if not has_kind([case["c"]], ("tv",)):
            laws["accepts3"] = all(isinstance(abc.can_assign(x, ctx), dict) for x in (a, b, c)) and \
                all(isinstance(abc.can_assign(x, ctx), dict) for v in (a, b, c) for x in V.flatten_values(v))
    # closedness is read off the spec (TypedDictValue.walk_values skips extra_keys)
    if not has_kind(case["a"], ("tv", "class")) and not has_raw_union(case["a"]):
        laws["subst_closed"] = sa == a
    if not has_kind([x for _, x in case["m"]], ("tv",)):
        # occurrences are read off the encoded term (walk_values does not reach every substituted field)
        try:
            left = term_typevars(norm(enc_val(sa, cx)))
            laws["subst_elim"] = not (left & {i for i, _ in case["m"]})
        except OutOfFragment:
            pass
    # every type variable that substitution can reach is also reached by walk_values (Signature caches
    # `all_typevars` from walk_values); known asymmetry: TypedDictValue.walk_values skips extra_keys
    try:
        seen_by_walk = {U.TYPEVARS.index(x.typevar) for x in a.walk_values() if isinstance(x, V.TypeVarValue) and x.typevar in U.TYPEVARS}
        laws["walk_covers_subst"] = term_typevars(norm(terms["a"])) <= seen_by_walk
    except OutOfFragment:
        pass
    rng_specs = [x for _, x in case["m"]]
    if not has_raw_union(rng_specs) and not has_annotated_union(rng_specs):  # the map's range is in normal form
        laws["subst_comm"] = s_u == u_s
    if case["a"][0] == "unite":
        laws["normal_fix"] = a1 == a
    return obs, laws, terms


# ---------------------------------------------------------------------------
# model side


def model_term(terms):
    a, b, c = show(terms["a"]), show(terms["b"]), show(terms["c"])
    m = "[" + "; ".join(f"({i}%N, {show(v)})" for i, v in terms["m"]) + "]"
    return f"c14_run {a} {b} {c} {m}"


def decode_model(res):
    # Coq prints left-nested pairs flat: the first component's fields come first
    veq_ab, veq_bc, veq_ac, e_ab, heq_ab, (ab, ba, comm), (l, r, assoc), (aa, a1, veq_a_ua, veq_uaa_a), (sa, s_u, u_s, scomm), guards, roots, emat = res
    obs = {"veq_ab": veq_ab, "veq_bc": veq_bc, "veq_ac": veq_ac, "E_ab": e_ab, "u_ab": ab, "u_ba": ba, "comm": comm,
           "assoc_l": l, "assoc_r": r, "assoc": assoc, "u_aa": aa, "u_a": a1, "sub_a": sa, "sub_u": s_u, "u_sub": u_s,
           "subst_comm": scomm, "emat": emat, "veq_a_ua": veq_a_ua, "veq_uaa_a": veq_uaa_a}
    g = dict(zip(["equiv", "hash_consistent", "unhashable_literal", "annotated_unreachable", "flat", "nested_annot"], guards))
    g["roots"] = dict(zip(["literal", "union_order", "kwonly_order", "other"], roots))
    return obs, heq_ab, g


def canon(x):
    """parse_term output and norm(enc) output in one comparable shape"""
    if isinstance(x, list):
        return [canon(y) for y in x]
    if isinstance(x, tuple):
        return tuple(canon(y) for y in x)
    if isinstance(x, lib.Sym):
        return x.name
    return x


# ---------------------------------------------------------------------------


# ---------------------------------------------------------------------------
# substitution through callable values of every kind (oracle only: OverloadedSignature / BoundMethodSignature are not
# in the Coq model).  A callable case is {"kind": "callable", "form": "sig" | "ov" | "bound", "sigs": [[params, ret], ...],
# "self": spec, "wrap": "none" | "union" | "seq" | "annot" | "generic", "m": [[i, closed spec], ...]}


def deep_typevars(x):
    """every TypeVar reachable in a value / signature (all fields that substitute_typevars rewrites, found by
    descending the objects directly — not through walk_values)"""
    from pyanalyze import value as V
    from pyanalyze import signature as S

    out = set()
    if isinstance(x, V.TypeVarValue):
        out.add(x.typevar)
    elif isinstance(x, V.MultiValuedValue):
        for y in x.vals:
            out |= deep_typevars(y)
    elif isinstance(x, V.AnnotatedValue):
        out |= deep_typevars(x.value)
        for md in x.metadata:
            if isinstance(md, V.Value):
                out |= deep_typevars(md)
    elif isinstance(x, V.SubclassValue):
        out |= deep_typevars(x.typ)
    elif isinstance(x, V.CallableValue):
        out |= deep_typevars(x.signature)
    elif isinstance(x, V.TypedDictValue):
        for e in x.items.values():
            out |= deep_typevars(e.typ)
        if x.extra_keys is not None:
            out |= deep_typevars(x.extra_keys)
    elif isinstance(x, V.DictIncompleteValue):
        for p in x.kv_pairs:
            out |= deep_typevars(p.key) | deep_typevars(p.value)
    elif isinstance(x, V.SequenceValue):
        for _, mem in x.members:
            out |= deep_typevars(mem)
    elif isinstance(x, V.GenericValue):
        for a in x.args:
            out |= deep_typevars(a)
    elif isinstance(x, S.Signature):
        for prm in x.parameters.values():
            out |= deep_typevars(prm.annotation)
        out |= deep_typevars(x.return_value)
    elif isinstance(x, S.OverloadedSignature):
        for sg in x.signatures:
            out |= deep_typevars(sg)
    elif isinstance(x, S.BoundMethodSignature):
        out |= deep_typevars(x.signature) | deep_typevars(x.self_composite.value)
        if x.return_override is not None:
            out |= deep_typevars(x.return_override)
    return out


def gen_callable_case(rng):
    tv = lambda: ["tv", rng.randrange(3), None, []]
    closed = lambda: rng.choice([["typed", "int"], ["typed", "str"], ["known", ["none"]], ["generic", "list", [["typed", "int"]]]])

    def with_tv():
        t = tv()
        return rng.choice([t, ["generic", "list", [t]], ["unite", [t, ["known", ["none"]]]], ["seq", "tuple", [[False, t], [False, closed()]]],
                           ["td", [["a", ["typed", "str"], True, False]], t, False], ["annot", t, [1]], ["subclass", t, False]])

    def sig(mentions):
        params = [closed() for _ in range(rng.randrange(0, 3))]
        ret = closed()
        if mentions:
            if rng.random() < 0.5 or not params:
                ret = with_tv()
            else:
                params[rng.randrange(len(params))] = with_tv()
        return [params, ret]

    form = rng.choice(["sig", "ov", "ov", "ov", "bound"])
    if form == "ov":
        n = rng.choice([2, 3])
        flags = [rng.random() < 0.5 for _ in range(n)]
        if rng.random() < 0.7:  # mixed overloads: some mention a type variable, some do not
            flags[rng.randrange(n)] = True
            flags[(flags.index(True) + 1) % n] = False
        sigs = [sig(f) for f in flags]
    else:
        sigs = [sig(rng.random() < 0.8)]
    return {"kind": "callable", "form": form, "sigs": sigs, "self": with_tv() if rng.random() < 0.5 else closed(),
            "ret_override": with_tv() if rng.random() < 0.3 else None,
            "wrap": rng.choice(["none", "none", "union", "seq", "annot", "generic"]),
            "m": [[i, closed()] for i in range(3)]}


def run_callable_case(case):
    """returns the list of violated laws"""
    from pyanalyze import value as V
    from pyanalyze.signature import BoundMethodSignature, OverloadedSignature, ParameterKind, Signature, SigParameter
    from pyanalyze.stacked_scopes import Composite
    import universe as U

    cache = {}
    m = {U.TYPEVARS[i]: G.build(sp, cache) for i, sp in case["m"]}

    def mk(sg):
        params = [SigParameter(f"@{i}", ParameterKind.POSITIONAL_ONLY, annotation=G.build(x, cache)) for i, x in enumerate(sg[0])]
        return Signature.make(params, G.build(sg[1], cache))

    sigs = [mk(sg) for sg in case["sigs"]]
    bad = []
    core = sigs[0] if case["form"] != "ov" else OverloadedSignature(sigs)
    if case["form"] == "bound":
        obj = BoundMethodSignature(core, Composite(G.build(case["self"], cache)),
                                   None if case["ret_override"] is None else G.build(case["ret_override"], cache))
        res = obj.substitute_typevars(m)
    else:
        cv = V.CallableValue(core)
        obj = {"none": cv, "union": V.unite_values(cv, V.TypedValue(int)), "seq": V.SequenceValue(tuple, [(False, cv), (False, V.TypedValue(int))]),
               "annot": V.AnnotatedValue(cv, [V.KnownValue(1)]), "generic": V.GenericValue(list, [cv])}[case["wrap"]]
        res = obj.substitute_typevars(m)
    if deep_typevars(res) & set(m):
        bad.append("subst_elim")  # replaces every occurrence
    if case["form"] == "ov":
        # distributes over the overloads
        inner = res
        if case["wrap"] == "union":
            inner = next((x for x in V.flatten_values(res) if isinstance(x, V.CallableValue)), None)
        elif case["wrap"] == "seq":
            inner = res.members[0][1]
        elif case["wrap"] == "annot":
            inner = res.value
        elif case["wrap"] == "generic":
            inner = res.args[0]
        want = [sg.substitute_typevars(m) for sg in sigs]
        got = getattr(getattr(inner, "signature", None), "signatures", None)
        if got is None or list(got) != want:
            bad.append("subst_distributes_over_overloads")
    if case["form"] != "bound" and case["wrap"] == "union":
        if res != V.unite_values(*[x.substitute_typevars(m) for x in V.flatten_values(obj)]):
            bad.append("subst_distributes_over_union")
    return bad


def load_corpus():
    p = lib.VERIF / "harness" / "corpus" / f"{PROP}.json"
    return json.loads(p.read_text()) if p.exists() else []


def run(tier: str, replay: str | None = None):
    rep = lib.Report(PROP, tier, "proof")
    rng = random.Random(lib.seed() * 104729 + 14)
    proof = lib.prove(PROP, gen_files(), extra_targets=["theories/Core/C14Run.vo"], thorough=(tier == "thorough"))

    if replay:
        cases = [json.loads(Path(replay).read_text())["input"]]
    else:
        cases = list(load_corpus())
        fresh = [0]
        n = 500 if tier == "quick" else 6000
        for _ in range(n):
            cases.append(G.gen_case(rng, fresh))
        crng = random.Random(lib.seed() * 7907 + 514)
        for _ in range(150 if tier == "quick" else 1500):
            cases.append(gen_callable_case(crng))

    # callable-kind cases: oracle on the real code only
    callable_cases = [c for c in cases if c.get("kind") == "callable"]
    cases = [c for c in cases if c.get("kind") != "callable"]
    callable_failures = []
    for cc in callable_cases:
        try:
            bad = run_callable_case(cc)
        except Exception as ex:  # substitution crashed
            bad = ["crash: " + repr(ex)[:200]]
        if bad:
            callable_failures.append((cc, bad))
    for cc, bad in callable_failures[:5]:
        rep.violation({"kind": "failing-input", "input": cc, "observed": {"laws_violated": bad},
                       "expected": "substitution through callable values replaces every occurrence and distributes over overloads / unions",
                       "how_to_run": f"./check {PROP} --replay <this file>"})
    if True:
        pass

    # implementation + oracle
    impl, terms, oof = [], [], 0
    hist = {"kinds": {}, "laws_failed": {}, "veq_ab_true": 0, "hash_differs_when_equal": 0, "depth": {}}
    for case in cases:
        try:
            obs, laws, t = impl_case(case)
        except OutOfFragment:
            oof += 1
            impl.append(None)
            terms.append(None)
            continue
        impl.append((obs, laws))
        terms.append(t)
        for k in ("a", "b", "c"):
            hist["kinds"][case[k][0]] = hist["kinds"].get(case[k][0], 0) + 1
        hist["veq_ab_true"] += bool(obs["veq_ab"])
        hist["hash_differs_when_equal"] += bool(obs["veq_ab"] and not obs["hash_ab"])

    # model
    model_ok = not any("build failed" in b or "forbidden" in b for b in proof.broken)
    if not model_ok:  # a proof no longer checks: the model itself may still build, so that the oracle keeps its reference
        model_ok = lib.coq_make(["theories/Core/C14Run.vo"])[0]
    results = None
    idx = [i for i, t in enumerate(terms) if t is not None]
    if model_ok:
        try:
            results = lib.coq_eval(HEADER, [model_term(terms[i]) for i in idx], name="c14", shard=60 if tier == "quick" else 150, jobs=6)
        except RuntimeError as ex:
            rep.violation({"kind": "broken-correspondence", "correspondence": "Core.Val/Core.Subst evaluation", "detail": str(ex)[-1500:]},
                          no_failing_input=True)
    model = {}
    if results is not None:
        for i, res in zip(idx, results):
            model[i] = decode_model(canon(res))

    # verdicts
    findings = {f["id"]: f for f in lib.load_known_findings(PROP)["findings"]}
    corr_mismatch, failing, distinct, validated = [], [], set(), 0
    guard_mix = {"guard_true": 0, "guard_false": 0}
    for i in idx:
        obs, laws = impl[i]
        key = json.dumps(cases[i], sort_keys=True)
        nontrivial = cases[i]["a"][0] not in ("typed", "any", "uninit") or cases[i]["b"][0] not in ("typed", "any", "uninit")
        mism = []
        g = None
        if i in model:
            mobs, mheq, g = model[i]
            for k, v in mobs.items():
                iv = canon(obs[k])
                if isinstance(iv, str) and iv.startswith("OOF:"):
                    continue
                if iv != v:
                    mism.append((k, iv, v))
            if mheq and not obs["hash_ab"]:
                mism.append(("heq_ab", False, True))
            if not mism:
                validated += 1
            if nontrivial:
                distinct.add(key)
            guard_ok = g["equiv"] and g["hash_consistent"] and not g["annotated_unreachable"]
            guard_mix["guard_true" if guard_ok else "guard_false"] += 1
        bad = [k for k, v in laws.items() if not v]
        for k in bad:
            hist["laws_failed"][k] = hist["laws_failed"].get(k, 0) + 1
        if bad:
            attributed = False
            if g is not None and not mism:
                if not (g["equiv"] and g["hash_consistent"]):
                    # every root of the inconsistency must have one of the known shapes
                    roots = g["roots"]
                    if g["hash_consistent"] or roots["other"] or not (roots["literal"] or roots["union_order"] or roots["kwonly_order"]):
                        attributed = False
                    else:
                        for key, fid in (("literal", "C14-unhashable-literal-hash"), ("union_order", "C14-union-order-hash"),
                                         ("kwonly_order", "C14-callable-kwonly-order-hash")):
                            if roots[key]:
                                if fid in findings:
                                    rep.known(fid, findings[fid]["what"])
                                    attributed = True
                                else:
                                    attributed = False
                                    break
                elif g["annotated_unreachable"] and set(bad) <= {"idem", "idem_self", "never_identity", "merged", "normal_fix", "members", "subst_comm", "subst_closed", "comm", "assoc"}:
                    fid = "C14-annotated-unreachable"
                    if fid in findings:
                        rep.known(fid, findings[fid]["what"])
                        attributed = True
                elif set(bad) <= {"walk_covers_subst"} and tv_only_in_td_extra(cases[i]["a"]):
                    fid = "C14-walk-values-skips-extra-keys"
                    if fid in findings:
                        rep.known(fid, findings[fid]["what"])
                        attributed = True
                elif g["nested_annot"] and set(bad) <= {"subst_comm"}:
                    fid = "C14-subst-nested-annotated"
                    if fid in findings:
                        rep.known(fid, findings[fid]["what"])
                        attributed = True
            if not attributed:
                failing.append((i, bad, mism))
        elif mism:
            corr_mismatch.append((i, mism))

    for i, bad, mism in failing[:10]:
        rep.violation({"kind": "failing-input", "input": cases[i], "observed": {"laws_violated": bad, "impl": str(impl[i][0])[:1500]},
                       "expected": "every law of C14 holds (or the case falls under a known finding's guard and the model predicts the behaviour)",
                       "model_mismatch": str(mism)[:800], "how_to_run": f"./check {PROP} --replay <this file>"})
    if corr_mismatch and not failing:
        i, mism = corr_mismatch[0]
        rep.violation({"kind": "broken-correspondence", "correspondence": "Core.Val veq/heq/unite, Core.Subst subst vs Value.__eq__/__hash__/unite_values/substitute_typevars",
                       "input": cases[i], "observed": str(mism)[:1500], "n_mismatching_cases": len(corr_mismatch)}, no_failing_input=True)
    if not proof.ok and not failing:
        rep.violation({"kind": "broken-obligation", "theorem": "; ".join(proof.broken), "log": proof.log[-1500:]}, no_failing_input=True)

    n_eval = len(idx) * 19
    rep.coverage.update(
        evaluations=n_eval,
        distinct_nontrivial=len(distinct),
        rule="a case = (a, b, c, typevar map) of generated Values (literals incl. unhashable ones with shared/distinct identity, typed, NewType, "
        "generic, sequence, dict-incomplete, TypedDict, callable, annotated, subclass, typevar, raw and united nested unions); b/c are often "
        "variants of a (shuffled unions, re-created unhashable literals); 19 observables per case (incl. the hash-and-== matrix over all alternatives) are compared model vs implementation; "
        "non-trivial = a or b is not a bare typed/Any value",
        samples=[cases[i] for i in idx[:3]],
        traces_validated_against_impl=validated,
        input_distribution={**hist, **guard_mix, "out_of_fragment": oof, "cases": len(cases)},
        correspondence_mismatches=len(corr_mismatch) + sum(1 for _, _, m in failing if m),
        oracle_failures_unattributed=len(failing),
        laws_checked_on_real_code=LAWS,
        callable_kind_cases=len(callable_cases), callable_kind_failures=len(callable_failures),
    )
    rep.assumptions = ["ideal hashing: distinct hash keys do not collide (only the direction model-heq => hash equal is compared)",
                       "NaN, -0.0 and objects with user-defined __eq__/__hash__ are outside the modelled fragment"]
    return rep.finish(
        proof,
        "coq_makefile + make theories/Properties/C14.vo; coqc theories/Properties/C14.v (Print Assumptions)" + ("; coqchk -o" if tier == "thorough" else ""),
        ["Coq 8.16.1 kernel (coqc; vm_compute in witnesses and model evaluation)", "encoder harness/core_enc.py", "correspondence harness/c14.py",
         "CPython ==/hash on the universe objects"],
    )
