"""C15 — type-variable solutions satisfy the bounds they were solved from.

proof   : Properties/C15.v over Gen/Solve.v (typevar.solve / remove_redundant_solutions
          translated from pyanalyze/typevar.py on every run) and Gen/SolveAtoms.v (acceptance
          table of the atoms dumped from the running implementation)
tie     : translator + correspondence of `resolve atom_ops` with typevar.resolve_bounds_map on
          public Bound objects in every permutation, and of s_acc / s_unite with
          Value.is_assignable / unite_values on the simple fragment
oracle  : the property itself evaluated on the real code with the real is_assignable:
          (a) on Bound objects, every permutation; (b) on real generic signatures with
          literal/typed argument tuples through the real call check (c15_calls.py)
"""
from __future__ import annotations

import itertools
import json
import random
from pathlib import Path

import c15_calls as calls
import c15_universe as uni
import lib
from translate import solve as tr_solve

PROP = "C15"
CORPUS = Path(__file__).resolve().parent / "corpus" / "C15.json"

F_ANY = "C15-any-upper-erases-uppers"
F_INC = "C15-incomparable-uppers-united"
F_CON = "C15-constraint-not-checked-against-uppers"
FINDING_TEXT = {
    F_ANY: "an Any upper bound replaces the upper bounds seen before it (solve: `top.is_assignable(Any)` adopts Any as top), so the value chosen can violate them and the verdict depends on the order of the bounds; solver API level (resolve_bounds_map on Bound objects)",
    F_INC: "two incomparable upper bounds are united instead of intersected (TODO in typevar.solve), so the value chosen need not be accepted by each upper bound and the verdict can depend on the order of the bounds; solver API level — through a call the second pass of check_call_with_bound_args still reports the argument",
    F_CON: "when explicit upper bounds and constraints are both present the constraint chosen is never tested against the upper bounds; solver API level",
}

FAMILIES = [
    [0, 1, 2, 8, 9, 12, 4],  # numeric: int bool float lit1 litTrue lit1_5 object
    [5, 6, 7, 4],  # classes
    [3, 10, 4, 11],  # str, 'a', object, None
    [13, 14, 15, 16, 4],  # lists / Sequence
    list(range(len(uni.ATOM_NAMES))),
]


def gen_files():
    return {"Solve.v": tr_solve.translate(str(lib.REPO)), "SolveAtoms.v": uni.gen_atoms_v()}


# ---------------------------------------------------------------------------
# generators


def gen_sval(rng, fam, allow_any=True):
    r = rng.random()
    if allow_any and r < 0.07:
        return "any"
    if r < 0.10:
        return ()
    k = 1 if r < 0.68 else (2 if r < 0.92 else 3)
    k = min(k, len(fam))
    return tuple(rng.sample(fam, k))


def gen_bounds(rng):
    fam = rng.choice(FAMILIES)
    if rng.random() < 0.25:
        fam = sorted(set(fam) | set(rng.choice(FAMILIES)))
    n = rng.choice([1, 2, 2, 3, 3, 3, 4, 4, 5])
    bs = []
    have_c = rng.random() < 0.35
    if have_c:
        k = rng.choice([1, 2, 2, 3, 3])
        opts = [(a,) for a in rng.sample(fam, min(k, len(fam)))]
        if rng.random() < 0.1:
            opts.append(tuple(rng.sample(fam, 2)) if len(fam) > 1 else (fam[0],))
        bs.append(["C", opts])
        if rng.random() < 0.15:
            bs.append(["C", opts])  # the same declaration contributed twice
    # with constraints, explicit upper bounds are rare in practice: keep them rare
    p_upper = 0.12 if have_c else 0.33
    while len(bs) < n:
        r = rng.random()
        if r < 0.04:
            bs.append(["O"])
        elif r < 0.04 + p_upper:
            bs.append(["U", gen_sval(rng, fam, allow_any=rng.random() < 0.5)])
        else:
            bs.append(["L", gen_sval(rng, fam)])
        if rng.random() < 0.08 and bs[-1][0] != "O":
            bs.append(list(bs[-1]))  # duplicate bound (dict.fromkeys de-duplication)
    rng.shuffle(bs)
    return bs[:6]


def canon(bs):
    def sv(x):
        return "any" if x == "any" else tuple(x)

    out = []
    for b in bs:
        if b[0] in ("L", "U"):
            out.append((b[0], sv(b[1])))
        elif b[0] == "O":
            out.append(("O",))
        else:
            out.append(("C", tuple(sv(o) for o in b[1])))
    return out


def perms_of(bs, rng, tier):
    n = len(bs)
    if n <= 4:
        ps = list(dict.fromkeys(itertools.permutations(bs)))
    else:
        ps = [tuple(bs), tuple(reversed(bs))]
        for _ in range(14 if tier == "quick" else 60):
            p = list(bs)
            rng.shuffle(p)
            ps.append(tuple(p))
        ps = list(dict.fromkeys(ps))
    return ps


# ---------------------------------------------------------------------------
# implementation


def impl_bound(b, T):
    from pyanalyze.value import IsOneOf, LowerBound, OrBound, UpperBound

    if b[0] == "L":
        return LowerBound(T, uni.to_value(b[1]))
    if b[0] == "U":
        return UpperBound(T, uni.to_value(b[1]))
    if b[0] == "O":
        return OrBound(())
    return IsOneOf(T, tuple(uni.to_value(o) for o in b[1]))


def impl_resolve(bs):
    """-> ('ERR', None) | (model value | ('out', text), real Value)"""
    from pyanalyze.typevar import resolve_bounds_map

    T = calls.T
    tv_map, errors = resolve_bounds_map({T: [impl_bound(b, T) for b in bs]}, uni.ctx())
    if errors:
        return "ERR", None
    s = tv_map[T]
    enc = uni.from_value(s)
    return (enc if enc is not None else ("out", str(s))), s


def oracle_bounds(bs, solution):
    """The property on the real code: which bounds does the real solution violate?"""
    from pyanalyze.value import AnyValue

    c = uni.ctx()
    bad = []
    for b in bs:
        if b[0] == "L":
            if not solution.is_assignable(uni.to_value(b[1]), c):
                bad.append(("lower", b))
        elif b[0] == "U":
            if not uni.to_value(b[1]).is_assignable(solution, c):
                bad.append(("upper", b))
        elif b[0] == "C":
            if not (isinstance(solution, AnyValue) or any(solution == uni.to_value(o) for o in b[1])):
                bad.append(("constraint", b))
    return bad


def guard_clauses(bs):
    """Decidable guard clauses, evaluated with the real is_assignable."""
    c = uni.ctx()
    ups = [uni.to_value(b[1]) for b in bs if b[0] == "U"]
    cons = list(dict.fromkeys(tuple(b[1]) for b in bs if b[0] == "C"))
    return {
        "uppers_any": any(b[0] == "U" and b[1] == "any" for b in bs),
        "uppers_incomparable": any(not x.is_assignable(y, c) and not y.is_assignable(x, c) for x, y in itertools.combinations(ups, 2)),
        "uppers_and_constraints": bool(ups) and bool(cons),
        "several_constraint_lists": len(cons) > 1,
    }


def attribute(kind, g):
    """finding id a failure of this kind may be attributed to, or None"""
    if kind == "upper":
        if g["uppers_any"]:
            return F_ANY
        if g["uppers_incomparable"]:
            return F_INC
        if g["uppers_and_constraints"]:
            return F_CON
    if kind == "order":
        # perm_guard = uppers_ok: an Any upper bound, or incomparable upper bounds (a united top
        # can later be replaced by a narrower bound that only one of its members accepts)
        if g["uppers_any"]:
            return F_ANY
        if g["uppers_incomparable"]:
            return F_INC
    return None


# ---------------------------------------------------------------------------
# model


def coq_bound(b):
    if b[0] == "L":
        return f"LowerBound {uni.coq_sval(b[1])}"
    if b[0] == "U":
        return f"UpperBound {uni.coq_sval(b[1])}"
    if b[0] == "O":
        return "OrBound"
    return "IsOneOf " + lib.clist([uni.coq_sval(o) for o in b[1]])


def coq_bounds(bs):
    return lib.clist([coq_bound(b) for b in bs])


def decode_result(t):
    t = getattr(t, "name", t)
    if t == "Err":
        return "ERR"
    assert t[0] == "Sol", t
    return uni.parse_sval(t[1])


HEADER = (
    "From Coq Require Import List Bool Arith. Import ListNotations.\n"
    "Require Import PV.TypeVar.Base PV.TypeVar.Simple PV.TypeVar.Spec PV.Gen.Solve PV.Gen.SolveAtoms."
)


# ---------------------------------------------------------------------------


def call_cases(rng, tier):
    out = []
    n = 1100 if tier == "quick" else 8000
    names = list(calls.SIGS)
    for _ in range(n):
        s = rng.choice(names)
        kinds = calls.SIGS[s][1]
        if kinds == ["STAR"]:
            out.append({"kind": "call", "sig": s, "args": calls.gen_star_args(rng, s)})
            continue
        if s in calls.FRIENDLY and rng.random() < 0.7:
            args = [rng.choice(calls.FRIENDLY[s]) for _ in kinds]
        else:
            args = [rng.choice(calls.POOLS[k]) for k in kinds]
        out.append({"kind": "call", "sig": s, "args": args})
    if tier == "thorough":
        for s, (_, kinds, _) in calls.SIGS.items():
            if len(kinds) == 2 and kinds != ["STAR"]:
                for a in itertools.product(*[calls.POOLS[k] for k in kinds]):
                    out.append({"kind": "call", "sig": s, "args": list(a)})
    return out


def run(tier: str, replay: str | None = None):
    rep = lib.Report(PROP, tier, "proof")
    rng = random.Random(lib.seed() * 7919 + 15)
    # 1. regenerate + prove
    broken_translation = None
    gen = None
    try:
        gen = gen_files()
    except tr_solve.TranslateError as ex:
        broken_translation = str(ex)
    proof = lib.prove(PROP, gen, thorough=(tier == "thorough")) if gen is not None else None

    # 2. cases
    bound_cases, acc_cases, e2e_cases = [], [], []
    if replay:
        r = json.loads(Path(replay).read_text())
        c = r["input"]
        if c.get("kind") == "call":
            e2e_cases.append(c)
        elif c.get("kind") == "acc":
            acc_cases.append((canon_sv(c["a"]), canon_sv(c["b"])))
        else:
            bound_cases.append(canon(c["bounds"]))
    else:
        if CORPUS.exists():
            for c in json.loads(CORPUS.read_text()):
                if c.get("kind") == "call":
                    e2e_cases.append(c)
                else:
                    bound_cases.append(canon(c["bounds"]))
        n_b = 1500 if tier == "quick" else 12000
        for _ in range(n_b):
            bound_cases.append(canon(gen_bounds(rng)))
        allf = FAMILIES[-1]
        for _ in range(1200 if tier == "quick" else 8000):
            fam = rng.choice(FAMILIES)
            acc_cases.append((gen_sval(rng, fam), gen_sval(rng, rng.choice([fam, allf]))))
        e2e_cases += call_cases(rng, tier)

    # 3. implementation + direct oracle on Bound objects
    terms, meta = [], []
    failures = []  # (case index, kind, detail)
    hist = {"n_bounds": {}, "verdict": {"all_err": 0, "all_sol": 0, "mixed": 0}, "kinds": {"L": 0, "U": 0, "O": 0, "C": 0},
            "guards": {"uppers_any": 0, "uppers_incomparable": 0, "uppers_and_constraints": 0, "in_sound_guard": 0},
            "solution_kind": {"any": 0, "atom": 0, "union": 0, "never": 0, "out": 0}}
    impl_res = []
    perm_count = 0
    for ci, bs in enumerate(bound_cases):
        ps = perms_of(bs, rng, tier)
        perm_count += len(ps)
        res = []
        g = guard_clauses(bs)
        for k in ("uppers_any", "uppers_incomparable", "uppers_and_constraints"):
            hist["guards"][k] += int(g[k])
        hist["guards"]["in_sound_guard"] += int(not any(g.values()))
        hist["n_bounds"][len(bs)] = hist["n_bounds"].get(len(bs), 0) + 1
        for b in bs:
            hist["kinds"][b[0]] += 1
        for p in ps:
            enc, real = impl_resolve(p)
            res.append(enc)
            if enc != "ERR":
                sk = "out" if isinstance(enc, tuple) and enc and enc[0] == "out" else ("any" if enc == "any" else ("never" if enc == () else ("atom" if len(enc) == 1 else "union")))
                hist["solution_kind"][sk] += 1
                for kind, b in oracle_bounds(p, real):
                    failures.append((ci, kind, {"perm": [list(x) for x in p], "bound": list(b), "solution": str(real)}))
        verdicts = {r == "ERR" for r in res}
        if len(verdicts) > 1:
            hist["verdict"]["mixed"] += 1
            i_err = next(i for i, r in enumerate(res) if r == "ERR")
            i_ok = next(i for i, r in enumerate(res) if r != "ERR")
            failures.append((ci, "order", {"rejected_order": [list(x) for x in ps[i_err]], "accepted_order": [list(x) for x in ps[i_ok]]}))
        else:
            hist["verdict"]["all_err" if True in verdicts else "all_sol"] += 1
        impl_res.append((ps, res))
        terms.append("map (resolve atom_ops) " + lib.clist([coq_bounds(p) for p in ps]))
        meta.append(("bounds", ci))
    # acceptance / union correspondence inputs
    c = uni.ctx()
    acc_impl = []
    for a, b in acc_cases:
        from pyanalyze.value import unite_values

        va, vb = uni.to_value(a), uni.to_value(b)
        ia = bool(va.is_assignable(vb, c))
        iu = None
        if a != "any" and b != "any":
            iu = uni.from_value(unite_values(va, vb))
        acc_impl.append((ia, iu))
        terms.append(f"(acc atom_ops {uni.coq_sval(a)} {uni.coq_sval(b)}, unite atom_ops {uni.coq_sval(a)} {uni.coq_sval(b)})")
        meta.append(("acc", len(acc_impl) - 1))

    # 4. model
    model_ok = proof is not None and not any("build failed" in b for b in proof.broken)
    if not model_ok and gen is not None:
        # the proofs no longer build; the generated model itself may still compile and can then
        # still be run (for the correspondence and for attributing failures to known findings)
        model_ok, _ = lib.coq_make(["theories/Gen/Solve.vo", "theories/Gen/SolveAtoms.vo"], timeout=600)
    corr_mismatch = []
    model_by_case = {}
    if model_ok and terms:
        try:
            results = lib.coq_eval(HEADER, terms, name="c15", shard=120)
            for (kind, idx), r in zip(meta, results):
                if kind == "bounds":
                    ps, res = impl_res[idx]
                    mres = [decode_result(x) for x in r]
                    model_by_case[idx] = mres
                    for p, i, m in zip(ps, res, mres):
                        if i != m:
                            corr_mismatch.append(("Gen.Solve.resolve atom_ops vs typevar.resolve_bounds_map", {"kind": "bounds", "bounds": [list(x) for x in p]}, show_res(i), show_res(m)))
                else:
                    a, b = acc_cases[idx]
                    ia, iu = acc_impl[idx]
                    ma, mu = r[0], uni.parse_sval(r[1])
                    if ia != ma:
                        corr_mismatch.append(("TypeVar.Simple.s_acc vs Value.is_assignable", {"kind": "acc", "a": a, "b": b}, ia, ma))
                    if iu is not None and iu != mu:
                        corr_mismatch.append(("TypeVar.Simple.s_unite vs unite_values", {"kind": "acc", "a": a, "b": b}, uni.show(iu), uni.show(mu)))
        except RuntimeError as ex:
            _cleanup_cases("c15")
            rep.violation({"kind": "broken-correspondence", "correspondence": "Gen.Solve.resolve atom_ops vs typevar.resolve_bounds_map", "detail": str(ex)[-1500:]}, no_failing_input=True)

    # 5. end-to-end stream
    e2e_fail = []
    e2e_hist = {"calls": 0, "diagnosed": 0, "accepted": 0, "arg_rejected": 0, "solver_error": 0, "bounds": 0, "masked_solver_failures": 0, "or_bounds": 0, "by_sig": {}}
    e2e_samples = []
    seen_calls = set()
    for cse in e2e_cases:
        key = (cse["sig"], tuple(cse["args"]))
        if key in seen_calls:
            continue
        seen_calls.add(key)
        o = calls.check_call(cse["sig"], cse["args"])
        e2e_hist["calls"] += 1
        e2e_hist["diagnosed" if o["diagnosed"] else "accepted"] += 1
        e2e_hist["arg_rejected"] += int(o.get("arg_rejected", False))
        e2e_hist["solver_error"] += int(o.get("solver_error", False))
        e2e_hist["bounds"] += o["bounds"]
        e2e_hist["or_bounds"] += o["or_bounds"]
        e2e_hist["unsatisfiable_by_brute_force"] = e2e_hist.get("unsatisfiable_by_brute_force", 0) + int(bool(o.get("unsatisfiable")))
        e2e_hist["no_typevar_return_calls"] = e2e_hist.get("no_typevar_return_calls", 0) + int(cse["sig"].startswith("n_"))
        bs_ = e2e_hist["by_sig"].setdefault(cse["sig"], [0, 0])
        bs_[1 if o["diagnosed"] else 0] += 1
        if len(e2e_samples) < 4 and not o["diagnosed"] and o["solutions"]:
            e2e_samples.append({"call": f"{cse['sig']}({', '.join(cse['args'])})", "solutions": o["solutions"]})
        for f in o["failures"]:
            if f.get("accepted", True):
                e2e_fail.append((cse, f))
            else:
                e2e_hist["masked_solver_failures"] += 1
        # order independence for interchangeable parameters
        if calls.SIGS[cse["sig"]][2]:
            vs = {}
            for p in dict.fromkeys(itertools.permutations(cse["args"])):
                vs[p] = calls.check_call(cse["sig"], list(p))["diagnosed"]
                seen_calls.add((cse["sig"], p))
            if len(set(vs.values())) > 1:
                e2e_fail.append((cse, {"what": "verdict depends on the order of the arguments", "verdicts": {", ".join(k): v for k, v in vs.items()}}))

    # 6. verdicts
    found_input = False
    reported = set()
    for cse, f in e2e_fail[:10]:
        fid = None
        if f.get("kind") == "upper":
            fid = F_ANY if f["uppers_any"] else F_INC if f["uppers_incomparable"] else F_CON if f["uppers_and_constraints"] else None
        # an end-to-end failure is attributed only when the bounds are expressible in the model; they are not
        # (arguments outside the atom universe), so every accepted call with a violated bound is reported
        found_input = True
        rep.violation({"kind": "failing-input", "input": cse, "observed": f, "candidate_finding": fid,
                       "expected": "an accepted generic call chooses a value satisfying every bound pyanalyze derived and the declaration; same verdict for every argument order",
                       "how_to_run": "./check C15 --replay <this file>"})
    # failures no guard clause covers first, so that the replays shown name the new breakage
    failures.sort(key=lambda f: (attribute(f[1], guard_clauses(bound_cases[f[0]])) is not None, f[0]))
    for ci, kind, detail in failures:
        bs = bound_cases[ci]
        g = guard_clauses(bs)
        fid = attribute(kind, g)
        ps, res = impl_res[ci]
        faithful = ci in model_by_case and model_by_case[ci] == res
        if fid is not None and faithful:
            rep.known(fid, FINDING_TEXT[fid])
            continue
        if (ci, kind) in reported:
            continue
        reported.add((ci, kind))
        found_input = True
        rep.violation({
            "kind": "failing-input", "input": {"kind": "bounds", "bounds": [list(b) for b in bs], "shown": [show_bound(b) for b in bs]},
            "observed": detail, "expected": "the value chosen satisfies every bound; same verdict in every order",
            "violated": kind, "guard_clauses": g, "model_agrees_with_impl": faithful,
            "how_to_run": "./check C15 --replay <this file>",
        })
    if corr_mismatch and not found_input:
        name, inp, i, m = corr_mismatch[0]
        rep.violation({"kind": "broken-correspondence", "correspondence": name, "input": inp, "observed": i, "model": m,
                       "n_mismatches": len(corr_mismatch)}, no_failing_input=True)
    if broken_translation and not found_input:
        rep.violation({"kind": "broken-obligation", "theorem": "Gen/Solve.v (translator harness/translate/solve.py)", "detail": broken_translation}, no_failing_input=True)
    if proof is not None and not proof.ok and not found_input:
        rep.violation({"kind": "broken-obligation", "theorem": "; ".join(proof.broken), "log": proof.log[-1500:]}, no_failing_input=True)

    distinct = {tuple(p) for ps, _ in impl_res for p in ps if len(p) >= 2}
    hist["end_to_end"] = e2e_hist
    rep.coverage.update(
        evaluations=perm_count + len(acc_cases) + e2e_hist["calls"],
        distinct_nontrivial=len(distinct) + len(seen_calls),
        rule="a bound case = one ordering of a generated multiset of Lower/Upper/Or/IsOneOf bounds over Any, Never, atoms and unions of <=3 atoms "
        "(<=6 bounds; all permutations up to 4 bounds, sampled beyond); non-trivial = at least 2 bounds; plus distinct (signature, argument tuple) calls of the end-to-end stream",
        samples=[{"bounds": [show_bound(b) for b in ps[0]], "impl": [show_res(r) for r in res[:6]]} for ps, res in impl_res[:3]] + e2e_samples,
        traces_validated_against_impl=perm_count + 2 * len(acc_cases) - len(corr_mismatch),
        input_distribution=hist,
        correspondence_mismatches=len(corr_mismatch),
        oracle_failures=len(failures),
        oracle_failures_attributed_to_known_findings=len(failures) - len(reported),
        bound_multisets=len(bound_cases),
        permutations_run=perm_count,
        acceptance_pairs=len(acc_cases),
        end_to_end_calls=e2e_hist["calls"],
        exhaustive=False,
    )
    rep.assumptions = [
        "acc_laws (reflexive, transitive through non-Any, union = least upper bound) is proved for the atom fragment only; for other values it is an assumption",
        "translator harness/translate/solve.py; encoding harness/c15_universe.py",
        "a type variable has at most one constraint list (bound multisets with several distinct IsOneOf lists are not generated)",
    ]
    return rep.finish(
        proof,
        "coq_makefile + make theories/Properties/C15.vo; coqc theories/Properties/C15.v (Print Assumptions)" + ("; coqchk -o" if tier == "thorough" else ""),
        ["Coq 8.16.1 kernel (coqc; vm_compute in finite facts and model evaluation)", "translator harness/translate/solve.py",
         "atom table dump + value encoding harness/c15_universe.py", "correspondence/oracle harness/c15.py, c15_calls.py",
         "pyanalyze's own Value.is_assignable as the acceptance oracle of the property"],
    )


def canon_sv(x):
    return "any" if x == "any" else tuple(x)


def show_bound(b):
    if b[0] == "L":
        return f"{uni.show(b[1])} <= T"
    if b[0] == "U":
        return f"T <= {uni.show(b[1])}"
    if b[0] == "O":
        return "OrBound"
    return "T in (" + ", ".join(uni.show(o) for o in b[1]) + ")"


def show_res(r):
    if r == "ERR":
        return "ERR"
    if isinstance(r, tuple) and r and r[0] == "out":
        return "out-of-fragment: " + r[1]
    return uni.show(r)


def _cleanup_cases(name):
    """lib.coq_eval leaves its case files behind when an evaluation fails; remove this run's."""
    import os

    d = lib.COQ / "cases"
    if d.is_dir():
        for f in list(d.glob(f"{name}_{os.getpid()}_*")) + list(d.glob(f".{name}_{os.getpid()}_*")):
            try:
                f.unlink()
            except OSError:
                pass
