"""End-to-end stream of the C15 check: real generic signatures (built by
pyanalyze from real `def`s with real annotations), literal/typed argument
tuples, the real binder, the real bound generation (Value.can_assign), the real
solver and the real second pass of check_call_with_bound_args.

For every call the oracle takes the bounds that pyanalyze itself derived for
each type variable and asks the real `is_assignable` whether the value chosen
satisfies every one of them; for signatures whose parameters are interchangeable
the verdict must be the same for every order of the arguments.
"""
from __future__ import annotations

import itertools
from collections.abc import Sequence
from typing import Callable, TypeVar

from c15_universe import A, B, C

T = TypeVar("T")
U = TypeVar("U")
K = TypeVar("K")
V = TypeVar("V")
TB = TypeVar("TB", bound=float)
TA = TypeVar("TA", bound=A)
TC = TypeVar("TC", int, str)
TD = TypeVar("TD", float, str, A)


def f_xy(x: T, y: T) -> T: ...
def f_xyz(x: T, y: T, z: T) -> T: ...
def f_list(xs: list[T], y: T) -> T: ...
def f_lists(xs: list[T], ys: list[T]) -> T: ...
def f_seq(xs: Sequence[T], y: T) -> T: ...
def f_dict(d: dict[K, V], k: K) -> tuple[K, V]: ...
def f_cb(x: T, cb: Callable[[T], U]) -> tuple[T, U]: ...
def f_cb2(cb1: Callable[[T], None], cb2: Callable[[T], None]) -> T: ...
def f_cbx(cb1: Callable[[T], None], cb2: Callable[[T], None], x: T) -> T: ...
def f_b(x: TB, y: TB) -> TB: ...
def f_a(x: TA, y: TA) -> TA: ...
def f_c(x: TC, y: TC) -> TC: ...
def f_d(x: TD, y: TD) -> TD: ...
def f_cl(xs: list[TC], y: TC) -> TC: ...
# twins whose return annotation mentions no type variable: a failure of the joint solve must be
# reported although nothing is substituted into the return type (round-2 seeded change)
def n_xy(x: T, y: T) -> None: ...
def n_c(x: TC, y: TC) -> bool: ...
def n_d(x: TD, y: TD) -> int: ...
def n_b(x: TB, y: TB) -> None: ...
def n_cl(xs: list[TC], y: TC) -> bool: ...
def n_cb(x: T, cb: Callable[[T], None]) -> None: ...
def n_cb2(cb1: Callable[[T], None], cb2: Callable[[T], None], x: T) -> int: ...
def n_list(xs: list[T], cb: Callable[[T], None]) -> None: ...
# fixed-shape / variadic tuple parameters mentioning type variables (round-3 seeded change: the bounds the
# members of a tuple argument impose were dropped by SequenceValue.can_assign)
def t_cc(p: tuple[TC, TC]) -> bool: ...
def t_cc_r(p: tuple[TC, TC]) -> TC: ...
def t_kv(p: tuple[K, V], k: K, cb: Callable[[V], None]) -> None: ...
def t_cbT(p: tuple[Callable[[T], None], T]) -> None: ...
def t_var(p: tuple[TC, ...], y: TC) -> bool: ...
def t_nest(ps: list[tuple[TC, TC]], y: TC) -> bool: ...
# single-parameter / nested forms (round-4 seeded change: bounds of the members of a UNION-typed argument)
def f_l1(xs: list[T]) -> T: ...
def n_l1(xs: list[TC]) -> bool: ...
def f_ll(xs: list[list[T]]) -> T: ...
def n_ll(xs: list[list[TC]], y: TC) -> bool: ...
def n_cb1(cb: Callable[[TC], None]) -> None: ...
def n_dict(d: dict[TC, TC]) -> bool: ...
# called with *iterable (unknown length) and **mapping (non-literal keys): round-5 seeded change
def s_xy(a: T, b: T) -> T: ...
def s_xyz(a: T, b: T, c: T) -> T: ...
def ns_c(a: TC, b: TC) -> bool: ...
def s_c(a: TC, b: TC) -> TC: ...
def ns_b(a: TB, b: TB, c: TB = 0) -> None: ...
def s_d(a: TD, b: TD) -> TD: ...
def f_opt(x: T | None, y: T) -> T: ...
def f_or(x: T | list[T], y: T) -> T: ...
def f_opt1(x: T | None) -> T: ...


def g_int(a: int) -> None: ...
def g_str(a: str) -> None: ...
def g_obj(a: object) -> None: ...
def g_float(a: float) -> None: ...
def g_bool(a: bool) -> None: ...
def g_int_str(a: int) -> str: ...


a_inst = A()
b_inst = B()
c_inst = C()

# signature name -> (function, kinds of its parameters, symmetric?)
SIGS = {
    "f_xy": (f_xy, ["s", "s"], True),
    "f_xyz": (f_xyz, ["s", "s", "s"], True),
    "f_list": (f_list, ["l", "s"], False),
    "f_lists": (f_lists, ["l", "l"], True),
    "f_seq": (f_seq, ["l", "s"], False),
    "f_dict": (f_dict, ["d", "s"], False),
    "f_cb": (f_cb, ["s", "c"], False),
    "f_cb2": (f_cb2, ["c", "c"], True),
    "f_cbx": (f_cbx, ["c", "c", "s"], False),
    "f_b": (f_b, ["s", "s"], True),
    "f_a": (f_a, ["s", "s"], True),
    "f_c": (f_c, ["s", "s"], True),
    "f_d": (f_d, ["s", "s"], True),
    "f_cl": (f_cl, ["l", "s"], False),
    "n_xy": (n_xy, ["s", "s"], True),
    "n_c": (n_c, ["s", "s"], True),
    "n_d": (n_d, ["s", "s"], True),
    "n_b": (n_b, ["s", "s"], True),
    "n_cl": (n_cl, ["l", "s"], False),
    "n_cb": (n_cb, ["s", "c"], False),
    "n_cb2": (n_cb2, ["c", "c", "s"], False),
    "n_list": (n_list, ["l", "c"], False),
    "t_cc": (t_cc, ["tp"], False),
    "t_cc_r": (t_cc_r, ["tp"], False),
    "t_kv": (t_kv, ["tp", "s", "c"], False),
    "t_cbT": (t_cbT, ["tc"], False),
    "t_var": (t_var, ["tv", "s"], False),
    "t_nest": (t_nest, ["tl", "s"], False),
    "f_l1": (f_l1, ["l"], False),
    "n_l1": (n_l1, ["l"], False),
    "f_ll": (f_ll, ["ll"], False),
    "n_ll": (n_ll, ["ll", "s"], False),
    "n_cb1": (n_cb1, ["c"], False),
    "n_dict": (n_dict, ["d"], False),
    "s_xy": (s_xy, ["STAR"], False),
    "s_xyz": (s_xyz, ["STAR"], False),
    "ns_c": (ns_c, ["STAR"], False),
    "s_c": (s_c, ["STAR"], False),
    "ns_b": (ns_b, ["STAR"], False),
    "s_d": (s_d, ["STAR"], False),
    "f_opt": (f_opt, ["s", "s"], False),
    "f_or": (f_or, ["sl", "s"], False),
    "f_opt1": (f_opt1, ["s"], False),
}

# what the harness knows about the declarations, independently of pyanalyze's bound generation
DECLARED = {
    "~TB": ("bound", float), "~TA": ("bound", A),
    "~TC": ("constraints", (int, str)), "~TD": ("constraints", (float, str, A)),
}
# parameters annotated with the bare type variable (index -> type variable name)
BARE = {
    "f_xy": {0: "~T", 1: "~T"}, "f_xyz": {0: "~T", 1: "~T", 2: "~T"}, "f_list": {1: "~T"}, "f_seq": {1: "~T"},
    "f_dict": {1: "~K"}, "f_cb": {0: "~T"}, "f_cbx": {2: "~T"}, "f_b": {0: "~TB", 1: "~TB"}, "f_a": {0: "~TA", 1: "~TA"},
    "f_c": {0: "~TC", 1: "~TC"}, "f_d": {0: "~TD", 1: "~TD"}, "f_cl": {1: "~TC"},
    "f_opt": {1: "~T"}, "f_or": {1: "~T"},
    "t_kv": {1: "~K"}, "t_var": {1: "~TC"}, "t_nest": {1: "~TC"}, "n_ll": {1: "~TC"},
    "n_xy": {0: "~T", 1: "~T"}, "n_c": {0: "~TC", 1: "~TC"}, "n_d": {0: "~TD", 1: "~TD"}, "n_b": {0: "~TB", 1: "~TB"},
    "n_cl": {1: "~TC"}, "n_cb": {0: "~T"}, "n_cb2": {2: "~T"},
}

# argument pools: name -> constructor of the pyanalyze Value (built lazily)
SCALARS = ["k1", "kTrue", "ka", "k1_5", "kNone", "t_int", "t_str", "t_float", "t_bool", "t_A", "t_B", "t_C", "kAinst", "kBinst", "any", "u_int_str", "u_1_a"]
LISTS = ["l_int", "l_str", "l_bool", "l_obj", "l_lit1", "l_lit1a", "l_empty", "l_A", "l_B", "tup_int", "k_list12", "any",
         "ul_int_str", "ul_str_int", "ul_int_bool", "ul_A_B", "ul_lit1_str"]
DICTS = ["d_str_int", "d_int_str", "d_lit", "any", "d_int_int", "d_str_str", "ud_ii_ss", "ud_si_is"]
CALLBACKS = ["g_int", "g_str", "g_obj", "g_float", "g_bool", "g_int_str", "any", "uc_int_str", "uc_str_int", "uc_int_obj", "uc_float_bool"]
NESTED = ["ll_int", "ll_str", "ll_1_a", "ll_a_1", "ll_1_True", "ul_ll_int_str"]
# tuple arguments: name -> names of the member values (resolved through arg_value)
TUPLES = {
    "tp_1_a": ["k1", "ka"], "tp_1_True": ["k1", "kTrue"], "tp_a_a": ["ka", "ka"], "tp_int_str": ["t_int", "t_str"],
    "tp_int_bool": ["t_int", "t_bool"], "tp_a_1": ["ka", "k1"], "tp_15_a": ["k1_5", "ka"],
}
CB_TUPLES = {"tc_int_a": ["g_int", "ka"], "tc_int_1": ["g_int", "k1"], "tc_str_a": ["g_str", "ka"], "tc_str_1": ["g_str", "k1"], "tc_obj_a": ["g_obj", "ka"]}
VAR_TUPLES = {"tv_int": "t_int", "tv_str": "t_str", "tv_bool": "t_bool", "tv_int_str": "u_int_str"}   # tuple[e, ...]
LIST_TUPLES = {"tl_int_str": "tp_int_str", "tl_int_bool": "tp_int_bool", "tl_1_a": "tp_1_a", "tl_a_a": "tp_a_a"}  # list[<tuple>]
# which type variable each member of a tuple parameter feeds (independent of pyanalyze's bound generation)
MEMBER_TV = {
    "t_cc": {0: ["~TC", "~TC"]}, "t_cc_r": {0: ["~TC", "~TC"]}, "t_kv": {0: ["~K", "~V"]},
    "t_cbT": {0: [("cb", "~T"), "~T"]}, "t_var": {0: "every:~TC"}, "t_nest": {0: ["~TC", "~TC"]},
}
CB_PARAM = {"g_int": "t_int", "g_str": "t_str", "g_obj": None, "g_float": "t_float", "g_bool": "t_bool", "g_int_str": "t_int"}

POOLS = {"ll": NESTED, "tp": list(TUPLES), "tc": list(CB_TUPLES), "tv": list(VAR_TUPLES), "tl": list(LIST_TUPLES), "s": SCALARS, "l": LISTS, "d": DICTS, "c": CALLBACKS, "sl": SCALARS + LISTS}

# arguments that mostly fit a signature's declaration (used for 70% of the draws, so that the
# bounded / constrained signatures are not almost always rejected)
FRIENDLY = {
    "f_b": ["k1", "kTrue", "k1_5", "t_int", "t_float", "t_bool", "any"],
    "f_a": ["t_A", "t_B", "kAinst", "kBinst", "any"],
    "f_c": ["k1", "kTrue", "ka", "t_int", "t_str", "t_bool", "any"],
    "f_d": ["k1", "k1_5", "ka", "t_float", "t_str", "t_A", "t_B", "kAinst", "t_int", "any"],
    "n_c": ["k1", "kTrue", "ka", "t_int", "t_str", "t_bool"],
    "n_ll": ["k1", "ka", "t_int", "t_str"],
    "t_var": ["k1", "ka", "t_int", "t_str", "kTrue"], "t_nest": ["k1", "ka", "t_int", "t_str"], "t_kv": ["k1", "ka", "t_int", "t_str"],
    "n_d": ["k1", "k1_5", "ka", "t_float", "t_str", "t_A", "kAinst", "t_int"],
    "n_b": ["k1", "kTrue", "k1_5", "t_int", "t_float", "t_bool"],
}

_vals = {}


def arg_value(name):
    if not _vals:
        from pyanalyze.value import (
            AnySource, AnyValue, DictIncompleteValue, GenericValue, KnownValue, KVPair,
            MultiValuedValue, SequenceValue, TypedValue,
        )

        _vals.update(
            k1=KnownValue(1), kTrue=KnownValue(True), ka=KnownValue("a"), k1_5=KnownValue(1.5), kNone=KnownValue(None),
            t_int=TypedValue(int), t_str=TypedValue(str), t_float=TypedValue(float), t_bool=TypedValue(bool),
            t_A=TypedValue(A), t_B=TypedValue(B), t_C=TypedValue(C),
            kAinst=KnownValue(a_inst), kBinst=KnownValue(b_inst),
            any=AnyValue(AnySource.explicit),
            u_int_str=MultiValuedValue([TypedValue(int), TypedValue(str)]),
            u_1_a=MultiValuedValue([KnownValue(1), KnownValue("a")]),
            l_int=GenericValue(list, [TypedValue(int)]), l_str=GenericValue(list, [TypedValue(str)]),
            l_bool=GenericValue(list, [TypedValue(bool)]), l_obj=GenericValue(list, [TypedValue(object)]),
            l_lit1=SequenceValue(list, [(False, KnownValue(1))]),
            l_lit1a=SequenceValue(list, [(False, KnownValue(1)), (False, KnownValue("a"))]),
            l_empty=SequenceValue(list, []),
            l_A=GenericValue(list, [TypedValue(A)]), l_B=GenericValue(list, [TypedValue(B)]),
            tup_int=GenericValue(tuple, [TypedValue(int)]),
            k_list12=KnownValue([1, 2]),
            d_str_int=GenericValue(dict, [TypedValue(str), TypedValue(int)]),
            d_int_str=GenericValue(dict, [TypedValue(int), TypedValue(str)]),
            d_lit=DictIncompleteValue(dict, [KVPair(KnownValue("a"), KnownValue(1))]),
            g_int=KnownValue(g_int), g_str=KnownValue(g_str), g_obj=KnownValue(g_obj),
            g_float=KnownValue(g_float), g_bool=KnownValue(g_bool), g_int_str=KnownValue(g_int_str),
        )
    if name not in _vals:
        from pyanalyze.value import GenericValue, SequenceValue

        if name in TUPLES or name in CB_TUPLES:
            ms = (TUPLES.get(name) or CB_TUPLES[name])
            _vals[name] = SequenceValue(tuple, [(False, arg_value(m)) for m in ms])
        elif name in VAR_TUPLES:
            _vals[name] = GenericValue(tuple, [arg_value(VAR_TUPLES[name])])
        elif name in LIST_TUPLES:
            _vals[name] = GenericValue(list, [arg_value(LIST_TUPLES[name])])
        elif name in UNION_LISTS or name in UNION_DICTS or name in UNION_CBS:
            from pyanalyze.value import MultiValuedValue

            ms = UNION_LISTS.get(name) or UNION_DICTS.get(name) or UNION_CBS[name]
            _vals[name] = MultiValuedValue([arg_value(m) for m in ms])
        elif name in ("d_str_bool", "d_str_A"):
            from pyanalyze.value import TypedValue

            _vals[name] = GenericValue(dict, [TypedValue(str), arg_value("t_bool" if name == "d_str_bool" else "t_A")])
        elif name in ("d_int_int", "d_str_str"):
            from pyanalyze.value import TypedValue

            t = TypedValue(int if name == "d_int_int" else str)
            _vals[name] = GenericValue(dict, [t, t])
        elif name in ("ll_int", "ll_str"):
            _vals[name] = GenericValue(list, [arg_value("l_int" if name == "ll_int" else "l_str")])
        elif name in ("ll_1_a", "ll_a_1", "ll_1_True"):
            a, b = NESTED_ELEMS[name]
            _vals[name] = SequenceValue(list, [(False, SequenceValue(list, [(False, arg_value(a))])), (False, SequenceValue(list, [(False, arg_value(b))]))])
        elif name == "ul_ll_int_str":
            from pyanalyze.value import MultiValuedValue

            _vals[name] = MultiValuedValue([arg_value("ll_int"), arg_value("ll_str")])
    return _vals[name]


# --- harness-side description of how arguments bound the type variables (independent of pyanalyze) ---
# element value names of list / Sequence arguments; a union-typed argument lists the elements of EVERY member
LIST_ELEMS = {
    "l_int": ["t_int"], "l_str": ["t_str"], "l_bool": ["t_bool"], "l_lit1": ["k1"], "l_lit1a": ["k1", "ka"], "l_empty": [],
    "l_A": ["t_A"], "l_B": ["t_B"], "tup_int": ["t_int"],
    "ul_int_str": ["t_int", "t_str"], "ul_str_int": ["t_str", "t_int"], "ul_int_bool": ["t_int", "t_bool"], "ul_A_B": ["t_A", "t_B"],
    "ul_lit1_str": ["k1", "t_str"],
}
UNION_LISTS = {"ul_int_str": ["l_int", "l_str"], "ul_str_int": ["l_str", "l_int"], "ul_int_bool": ["l_int", "l_bool"], "ul_A_B": ["l_A", "l_B"], "ul_lit1_str": ["l_lit1", "l_str"]}
NESTED_ELEMS = {"ll_int": ["t_int"], "ll_str": ["t_str"], "ll_1_a": ["k1", "ka"], "ll_a_1": ["ka", "k1"], "ll_1_True": ["k1", "kTrue"], "ul_ll_int_str": ["t_int", "t_str"]}
DICT_KV = {"d_str_int": (["t_str"], ["t_int"]), "d_int_str": (["t_int"], ["t_str"]), "d_lit": (["ka"], ["k1"]), "d_int_int": (["t_int"], ["t_int"]),
           "d_str_str": (["t_str"], ["t_str"]), "ud_ii_ss": (["t_int", "t_str"], ["t_int", "t_str"]), "ud_si_is": (["t_str", "t_int"], ["t_int", "t_str"])}
UNION_DICTS = {"ud_ii_ss": ["d_int_int", "d_str_str"], "ud_si_is": ["d_str_int", "d_int_str"]}
UNION_CBS = {"uc_int_str": ["g_int", "g_str"], "uc_str_int": ["g_str", "g_int"], "uc_int_obj": ["g_int", "g_obj"], "uc_float_bool": ["g_float", "g_bool"]}
# parameter positions: list[T] / Sequence[T]; list[list[T]]; Callable[[T], ..]; dict[K, V]
LIST_TV = {"f_list": {0: "~T"}, "f_lists": {0: "~T", 1: "~T"}, "f_seq": {0: "~T"}, "f_cl": {0: "~TC"}, "n_cl": {0: "~TC"}, "n_list": {0: "~T"},
           "f_l1": {0: "~T"}, "n_l1": {0: "~TC"}}
NEST_TV = {"f_ll": {0: "~T"}, "n_ll": {0: "~TC"}}
CB_TV = {"f_cb": {1: "~T"}, "n_cb": {1: "~T"}, "f_cb2": {0: "~T", 1: "~T"}, "f_cbx": {0: "~T", 1: "~T"}, "n_cb2": {0: "~T", 1: "~T"},
         "n_list": {1: "~T"}, "n_cb1": {0: "~TC"}}
DICT_TV = {"f_dict": {0: ("~K", "~V")}, "n_dict": {0: ("~TC", "~TC")}}


# signatures called with star arguments: (type variable of every parameter, number of parameters, of which required)
STAR_TV = {"s_xy": ("~T", 2, 2), "s_xyz": ("~T", 3, 3), "ns_c": ("~TC", 2, 2), "s_c": ("~TC", 2, 2), "ns_b": ("~TB", 3, 2), "s_d": ("~TD", 2, 2)}
STAR_LISTS = ["l_int", "l_str", "l_bool", "l_A", "l_B", "tup_int", "ul_int_str", "ul_int_bool"]
STAR_DICTS = ["d_str_int", "d_str_str", "d_str_bool", "d_str_A", "ud_si_ss"]
DICT_KV.update({"d_str_bool": (["t_str"], ["t_bool"]), "d_str_A": (["t_str"], ["t_A"]), "ud_si_ss": (["t_str", "t_str"], ["t_int", "t_str"])})
UNION_DICTS.update({"ud_si_ss": ["d_str_int", "d_str_str"]})
STAR_SCALARS = ["k1", "kTrue", "ka", "k1_5", "t_int", "t_str", "t_bool", "t_A", "kAinst"]


def gen_star_args(rng, sig_name):
    _, n, req = STAR_TV[sig_name]
    k = rng.randrange(0, n)
    args = [rng.choice(STAR_SCALARS) for _ in range(k)]
    r = rng.random()
    if r < 0.55:
        args += ["*" + rng.choice(STAR_LISTS), "**" + rng.choice(STAR_DICTS)]
    elif r < 0.8:
        args += ["*" + rng.choice(STAR_LISTS)]
    else:
        args += ["**" + rng.choice(STAR_DICTS)]
    return args


def check_star_call(sig_name, arg_names):
    """a call mixing positionals, *iterable of unknown length and **mapping with unknown keys, against a
    signature whose parameters are all annotated with one type variable.  The argument-derived lower bounds
    the harness expects: every positional, the element type of the iterable and the value type of the
    mapping whenever a parameter is left that they may fill."""
    import c15_universe as u
    from pyanalyze.signature import ARGS, KWARGS, _CanAssignBasedContext, preprocess_args
    from pyanalyze.stacked_scopes import Composite
    from pyanalyze.value import NO_RETURN_VALUE, AnyValue, TypedValue, unite_values

    c = u.ctx()
    sig = signature(sig_name)
    cctx = _CanAssignBasedContext(c)
    args, lows = [], []
    tvn, nparams, nreq = STAR_TV[sig_name]
    npos = sum(1 for n in arg_names if not n.startswith("*"))
    for n in arg_names:
        if n.startswith("**"):
            args.append((Composite(arg_value(n[2:])), KWARGS))
            if npos < nparams:
                lows += [arg_value(e) for e in DICT_KV[n[2:]][1]]
        elif n.startswith("*"):
            args.append((Composite(arg_value(n[1:])), ARGS))
            if npos < nparams:
                lows += [arg_value(e) for e in LIST_ELEMS[n[1:]]]
        else:
            args.append((Composite(arg_value(n)), None))
            lows.append(arg_value(n))
    pre = preprocess_args(args, cctx)
    ret = sig.check_call_preprocessed(pre, cctx) if pre is not None else None
    diagnosed = pre is None or bool(ret.is_error or cctx.errors)
    out = {"diagnosed": diagnosed, "n_errors": len(cctx.errors), "failures": [], "bounds": len(lows), "solutions": {}, "or_bounds": 0,
           "arg_rejected": False, "solver_error": False, "unsatisfiable": []}
    d = DECLARED.get(tvn)
    cons = [[TypedValue(t) for t in d[1]]] if d and d[0] == "constraints" else []
    ups = [TypedValue(d[1])] if d and d[0] == "bound" else []
    cands = [v for _, v in u.atoms()] + lows + ups + [o for cs in cons for o in cs] + [NO_RETURN_VALUE]
    if lows:
        cands.append(unite_values(*lows))
    sat = lambda v: (all(v.is_assignable(x, c) for x in lows) and all(x.is_assignable(v, c) for x in ups)
                     and all(any(v == o for o in cs) for cs in cons))
    shown = ", ".join(map(str, lows))
    if not any(sat(v) for v in cands):
        out["unsatisfiable"].append(tvn)
        if not diagnosed:
            out["failures"].append({"what": f"no candidate value satisfies the lower bounds the positional, * and ** arguments impose on {tvn} ({shown}) but the call is accepted",
                                    "kind": "unsatisfiable", "accepted": True})
    elif not diagnosed and sig_name in ("s_xy", "s_xyz", "s_c", "s_d"):
        sol = ret.return_value
        out["solutions"][tvn] = str(sol)
        if not isinstance(sol, AnyValue):
            for x in lows:
                if not sol.is_assignable(x, c):
                    out["failures"].append({"what": f"the value chosen for {tvn} ({sol}) does not accept the argument-derived lower bound {x} (lower bounds: {shown})",
                                            "kind": "lower", "accepted": True})
                    break
    return out


def member_bounds(sig_name, arg_names):
    """{type variable name: (lower values, upper values)} that the members of tuple arguments impose,
    derived from the harness's own description of the signatures (MEMBER_TV), not from pyanalyze"""
    out = {}
    for i, spec in MEMBER_TV.get(sig_name, {}).items():
        n = arg_names[i]
        if n in LIST_TUPLES:
            n = LIST_TUPLES[n]
        if isinstance(spec, str):  # tuple[T, ...]
            if n in VAR_TUPLES:
                out.setdefault(spec.split(":")[1], ([], []))[0].append(arg_value(VAR_TUPLES[n]))
            continue
        members = TUPLES.get(n) or CB_TUPLES.get(n)
        if members is None or len(members) != len(spec):
            continue
        for m, tvn in zip(members, spec):
            if isinstance(tvn, tuple):  # a callback member: its parameter type is an upper bound
                p = CB_PARAM.get(m)
                if p is not None:
                    out.setdefault(tvn[1], ([], []))[1].append(arg_value(p))
            else:
                out.setdefault(tvn, ([], []))[0].append(arg_value(m))
    unknown = set()  # type variables fed by an argument the tables do not describe: not judged
    for i, tvn in BARE.get(sig_name, {}).items():
        out.setdefault(tvn, ([], []))[0].append(arg_value(arg_names[i]))
    for i, tvn in LIST_TV.get(sig_name, {}).items():
        if arg_names[i] in LIST_ELEMS:
            out.setdefault(tvn, ([], []))[0].extend(arg_value(e) for e in LIST_ELEMS[arg_names[i]])
        else:
            unknown.add(tvn)
    for i, tvn in NEST_TV.get(sig_name, {}).items():
        if arg_names[i] in NESTED_ELEMS:
            out.setdefault(tvn, ([], []))[0].extend(arg_value(e) for e in NESTED_ELEMS[arg_names[i]])
        else:
            unknown.add(tvn)
    for i, (tk, tv_) in DICT_TV.get(sig_name, {}).items():
        if arg_names[i] in DICT_KV:
            ks, vs = DICT_KV[arg_names[i]]
            out.setdefault(tk, ([], []))[0].extend(arg_value(e) for e in ks)
            out.setdefault(tv_, ([], []))[0].extend(arg_value(e) for e in vs)
        else:
            unknown.update((tk, tv_))
    for i, tvn in CB_TV.get(sig_name, {}).items():
        members = UNION_CBS.get(arg_names[i], [arg_names[i]])
        if all(m in CB_PARAM for m in members):
            for m in members:
                if CB_PARAM[m] is not None:
                    out.setdefault(tvn, ([], []))[1].append(arg_value(CB_PARAM[m]))
        else:
            unknown.add(tvn)
    for tvn in unknown:
        out.pop(tvn, None)
    if sig_name == "t_kv" and arg_names[2] in CB_PARAM and CB_PARAM[arg_names[2]] is not None:
        out.setdefault("~V", ([], []))[1].append(arg_value(CB_PARAM[arg_names[2]]))
    return out


_sigs = {}


def signature(name):
    if name not in _sigs:
        import c15_universe as u

        _sigs[name] = u.ctx().arg_spec_cache.get_argspec(SIGS[name][0])
    return _sigs[name]


def check_call(sig_name, arg_names):
    """Run the real call check.  Returns a dict of canonical observables."""
    import c15_universe as u
    from pyanalyze.signature import _CanAssignBasedContext, preprocess_args
    from pyanalyze.stacked_scopes import Composite
    from pyanalyze.typevar import resolve_bounds_map
    from pyanalyze.value import AnyValue, CanAssignError, IsOneOf, LowerBound, OrBound, UpperBound, unify_bounds_maps

    if sig_name in STAR_TV:
        return check_star_call(sig_name, arg_names)
    c = u.ctx()
    sig = signature(sig_name)
    cctx = _CanAssignBasedContext(c)
    args = [(Composite(arg_value(n)), None) for n in arg_names]
    pre = preprocess_args(args, cctx)
    ret = sig.check_call_preprocessed(pre, cctx)
    out = {"diagnosed": bool(ret.is_error or cctx.errors), "n_errors": len(cctx.errors), "failures": [], "bounds": 0, "solutions": {}, "or_bounds": 0}
    # the bounds pyanalyze derives, per type variable
    params = list(sig.parameters.values())
    maps = []
    arg_rejected = False
    for p, n in zip(params, arg_names):
        r = p.annotation.can_assign(arg_value(n), c)
        if isinstance(r, CanAssignError):
            arg_rejected = True
        else:
            maps.append(r)
    out["arg_rejected"] = arg_rejected
    if arg_rejected:
        if not out["diagnosed"]:
            out["failures"].append({"what": "an argument alone is rejected by its parameter type but the call is accepted"})
        return out
    bm = unify_bounds_maps(maps)
    tv_map, errors = resolve_bounds_map(bm, c, all_typevars=sig.all_typevars)
    out["solver_error"] = bool(errors)
    if errors and not out["diagnosed"]:
        out["failures"].append({"what": "solver reports an error but the call is accepted"})
    # independent of pyanalyze's own bound generation: declared bound / constraints, and
    # arguments passed for parameters annotated with the bare type variable
    if not errors:
        from pyanalyze.value import TypedValue

        by_name = {str(tv): v for tv, v in tv_map.items()}
        for tvn, s in by_name.items():
            d = DECLARED.get(tvn)
            if d is None:
                continue
            if d[0] == "bound":
                ok = TypedValue(d[1]).is_assignable(s, c)
            else:
                ok = isinstance(s, AnyValue) or any(s == TypedValue(t) for t in d[1])
            if not ok:
                out["failures"].append({"what": f"solution {s} of {tvn} violates its declaration {d}", "kind": "declared", "accepted": not out["diagnosed"]})
        for i, tvn in BARE.get(sig_name, {}).items():
            s = by_name.get(tvn)
            if s is not None and not s.is_assignable(arg_value(arg_names[i]), c):
                out["failures"].append({"what": f"solution {s} of {tvn} does not accept argument {i} = {arg_value(arg_names[i])}", "kind": "argument", "accepted": not out["diagnosed"]})
    # independent of the solver: brute force over the candidate values of the universe (every atom,
    # every bound's own value, the union of all lower bounds, Never; not Any) — "when no such value
    # exists the call is diagnosed"
    from pyanalyze.value import NO_RETURN_VALUE, unite_values

    out["unsatisfiable"] = []
    for tv, bounds in bm.items():
        lows = [b.value for b in bounds if isinstance(b, LowerBound)]
        ups = [b.value for b in bounds if isinstance(b, UpperBound)]
        cons = [b.constraints for b in bounds if isinstance(b, IsOneOf)]
        if any(isinstance(v, AnyValue) for v in lows + ups):
            continue
        cands = [v for _, v in u.atoms()] + lows + ups + [o for cs in cons for o in cs] + [NO_RETURN_VALUE]
        if lows:
            cands.append(unite_values(*lows))

        def sat(v):
            return (all(v.is_assignable(x, c) for x in lows) and all(x.is_assignable(v, c) for x in ups)
                    and all(any(v == o for o in cs) for cs in cons))

        if not any(sat(v) for v in cands):
            out["unsatisfiable"].append(str(tv))
            if not out["diagnosed"]:
                out["failures"].append({"what": f"no candidate value satisfies the bounds of {tv} ({', '.join(str(b) for b in bounds if not isinstance(b, (IsOneOf, OrBound)))}"
                                                + "".join(f", {tv} in ({', '.join(map(str, cs))})" for cs in cons) + ") but the call is accepted",
                                        "kind": "unsatisfiable", "accepted": True})
    # the same brute force on the bounds the harness itself derives for tuple-shaped parameters (so that
    # bounds silently dropped by the implementation's own bound generation are noticed)
    from pyanalyze.value import TypedValue as _TV

    for tvn, (lows, ups) in member_bounds(sig_name, arg_names).items():
        if any(isinstance(v, AnyValue) for v in lows + ups):
            continue
        d = DECLARED.get(tvn)
        cons = [[_TV(t) for t in d[1]]] if d and d[0] == "constraints" else []
        ups2 = ups + ([_TV(d[1])] if d and d[0] == "bound" else [])
        cands = [v for _, v in u.atoms()] + lows + ups2 + [o for cs in cons for o in cs] + [NO_RETURN_VALUE]
        if lows:
            cands.append(unite_values(*lows))
        ok = any(all(v.is_assignable(x, c) for x in lows) and all(x.is_assignable(v, c) for x in ups2)
                 and all(any(v == o for o in cs) for cs in cons) for v in cands)
        if not ok:
            out["unsatisfiable"].append(tvn + " (members)")
            if not out["diagnosed"]:
                out["failures"].append({"what": f"no candidate value satisfies the bounds the harness derives from the arguments (every member of a union-typed or tuple argument counts) for {tvn} "
                                                f"(lower: {', '.join(map(str, lows))}; upper: {', '.join(map(str, ups2))}) but the call is accepted",
                                        "kind": "unsatisfiable", "accepted": True})
    for tv, bounds in bm.items():
        out["bounds"] += len(bounds)
        if tv not in tv_map or errors:
            continue
        s = tv_map[tv]
        out["solutions"][str(tv)] = str(s)
        for b in bounds:
            if isinstance(b, LowerBound):
                ok = s.is_assignable(b.value, c)
                kind = "lower"
            elif isinstance(b, UpperBound):
                ok = b.value.is_assignable(s, c)
                kind = "upper"
            elif isinstance(b, IsOneOf):
                ok = isinstance(s, AnyValue) or any(s == o for o in b.constraints)
                kind = "constraint"
            elif isinstance(b, OrBound):
                out["or_bounds"] += 1
                continue
            else:
                ok, kind = False, "unknown bound " + type(b).__name__
            if not ok:
                ups = [x.value for x in bounds if isinstance(x, UpperBound)]
                f = {
                    "what": f"solution {s} of {tv} violates {kind} bound {b}",
                    "kind": kind,
                    "accepted": not out["diagnosed"],
                    "uppers_any": any(isinstance(x, AnyValue) for x in ups),
                    "uppers_incomparable": any(
                        not x.is_assignable(y, c) and not y.is_assignable(x, c) for x, y in itertools.combinations(ups, 2)
                    ),
                    "uppers_and_constraints": bool(ups) and any(isinstance(x, IsOneOf) for x in bounds),
                }
                out["failures"].append(f)
    return out
