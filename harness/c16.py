"""C16 — automatic fixes are safe: valid code, error gone, nothing else changed.

proof  : Properties/C16.v over Lines/Fixer.v (+ the C11 suppression model) and Gen/ApplyGen.v
         (translated _apply_changes_to_lines, add_ignores branch of show_error, ITERATION_LIMIT)
tie    : translator + differential: the add-ignores iteration of the real checker
         (check_for_test(apply_changes=True) with add_ignores=True, repeated) must produce, step by step,
         the same text as the extracted model started from the first run's raw stream; apply_changes is
         also compared on the Replacement objects the real checker builds
oracle : (A) the iteration ends within one step per initial diagnostic, with no diagnostic left, an
         unchanged ast.dump, and each inserted comment — removed alone — brings back exactly the
         diagnostics of its line and code;  (B) node replacements (unused variable, missing_f,
         use_fstrings, too_many_positional_args): the result parses, the proposing diagnostic is gone,
         only one contiguous block of lines changed, and the function behaves the same when executed.
"""
from __future__ import annotations

import ast
import collections
import contextlib
import difflib
import io
import json
import random
import tokenize
from pathlib import Path

import c11
import lib
import lines_impl
from translate import lines as tr_lines

PROP = "C16"
END_INCLUSIVE = [False]  # set from the translated get_line_range_for_node in run()
IGNORE = c11.IGNORE
BASE_CFG = {"cli_on": [], "cli_off": ["unused_ignore", "bare_ignore"], "top_off": [], "override": None, "module": "pa.pb"}
UNUSED_ON_CFG = {"cli_on": ["unused_ignore"], "cli_off": ["bare_ignore"], "top_off": [], "override": None, "module": "pa.pb"}

EXTRA_TEMPLATES = [
    (["q{k} = '''", "    {{}}'''.format(undef_{k})"], ["o", ""]),
    (["w{k} = 1 + \\", "    undef_{k} + \\", "    2"], ["o", "", ""]),
    (["# static analysis: ignore[bad_unpack]", "print(undef_{k})"], ["o", "to"]),
    (["# static analysis: ignore[unsupported_operation]", "print(undef_{k}, 1 + 'a')"], ["o", "to"]),
]


def gen_program(rng):
    """Half of the programs keep one error code per line and no backslash / string continuation
    (the guard of the termination theorem holds unless line 1 is hit); the others mix everything."""
    old = c11.TEMPLATES
    try:
        r = rng.random()
        if r < 0.5:
            c11.TEMPLATES = [t for t in old if not any(("1 + 'a'" in l and "undef" in l) or "takes_int('s')," in l or l.endswith("\\") for l in t[0])]
        elif r < 0.8:
            c11.TEMPLATES = old + EXTRA_TEMPLATES * 2
        return c11.gen_program(rng)[0]
    finally:
        c11.TEMPLATES = old


# ---------------------------------------------------------------------------
# decidable harness-side guards for the classes the textual model cannot see

def continuation_lines(text):
    """1-based physical lines for which the (repaired) add-ignores step cannot work: lines that lie
    inside a multi-line string token (a comment line above them becomes part of the string), and
    lines that themselves end in a backslash (no trailing comment possible)."""
    bad = set()
    lines = text.split("\n")
    try:
        for tok in tokenize.generate_tokens(io.StringIO(text).readline):
            if tok.type in (tokenize.STRING, getattr(tokenize, "FSTRING_MIDDLE", -1)) and tok.end[0] > tok.start[0]:
                bad.update(range(tok.start[0] + 1, tok.end[0] + 1))
    except (tokenize.TokenError, SyntaxError, IndentationError):
        pass
    for i, l in enumerate(lines, 1):
        if l.rstrip().endswith("\\"):
            bad.add(i)
    return bad


def run_iteration(text, cfg, limit):
    """Repeat check+apply with add_ignores until the text no longer changes.
    -> (texts after each changing step, results per run, ended: bool)"""
    texts, results = [], []
    cur = text
    cap = limit
    for _ in range(64):
        r = lines_impl.run_case(cur, dict(cfg, add_ignores=True, apply=True))
        results.append(r)
        if len(results) == 1:
            # one step per initial diagnostic is what the property allows; two spare steps
            limit = min(max(cap, len(r["out"]) + 2), 3 * cap)
        if r["error"] or r["new_text"] is None or r["new_text"] == cur:
            return texts, results, (not r["error"])
        cur = r["new_text"]
        texts.append(cur)
        if len(texts) >= limit:
            return texts, results, False
    return texts, results, False


def iteration_job(job):
    text, cfg, limit = job
    with contextlib.redirect_stderr(io.StringIO()):
        texts, results, ended = run_iteration(text, cfg, limit)
    final = texts[-1] if texts else text
    probes = []
    if ended and not results[-1]["out"]:
        # each inserted comment, removed alone, must bring back exactly its own target
        fl = final.split("\n")
        orig = collections.Counter(text.split("\n"))
        added = [i for i, l in enumerate(fl) if l.strip().startswith(IGNORE + "[") and orig[l] == 0][:3]
        for i in added:
            t2 = "\n".join(fl[:i] + fl[i + 1:])
            r2 = lines_impl.run_case(t2, cfg)
            probes.append({"line": i + 1, "comment": fl[i], "out": r2["out"], "error": r2["error"]})
    return {"texts": texts, "first": results[0], "last_out": results[-1]["out"], "last_error": results[-1]["error"],
            "ended": ended, "probes": probes, "runs": [{"raw": x["raw"], "error": x["error"], "first_code": (x["out"][0][0] if x["out"] else None)} for x in results]}


def _dispatch(job):
    kind, payload = job
    return iteration_job(payload) if kind == "A" else fix_job(payload)


def pool(jobs, workers=8):
    """jobs: [("A", iteration payload) | ("B", fix payload)] — one process pool for both streams."""
    import concurrent.futures as cf
    import multiprocessing as mp

    if len(jobs) <= 2:
        return [_dispatch(j) for j in jobs]
    with cf.ProcessPoolExecutor(max_workers=workers, mp_context=mp.get_context("fork")) as ex:
        return list(ex.map(_dispatch, jobs, chunksize=1))


# ---------------------------------------------------------------------------
# part B: node replacements

CALLEE = ["def callee(a, b, c, d, e, f, g, h, i, j, k):", "    return (a, b, c, d, e, f, g, h, i, j, k)"]
FIX_TEMPLATES = [
    # (code, body lines (relative), returns)
    ("unused_variable", ["u{k} = x + 1"], "x"),
    ("unused_variable", ["u{k} = (x +", "        1)"], "x"),
    ("unused_variable", ["u{k} = x  # trailing comment"], "x"),
    ("unused_variable", ["u{k} = [", "    x,", "    y,", "]"], "y"),
    ("unused_variable", ["if x:", "    u{k} = y", "    print(y)"], "x"),
    ("unused_variable", ["for i{k} in range(2):", "    u{k} = i{k}", "print(x)"], "x"),
    ("unused_variable", ["u{k} = print('side effect', x)"], "x"),
    ("unused_variable", ["u{k} = callee(1, 2, 3, 4, 5, 6, 7, 8, 9, x, k=print('side', y))"], "x"),
    ("unused_variable", ["while x:", "    u{k} = y", "    break"], "x"),
    ("use_fstrings", ["s{k} = 'v %s' % x"], "s{k}"),
    ("use_fstrings", ["s{k} = '%s and %s' % (x, y)"], "s{k}"),
    ("use_fstrings", ["s{k} = 'n %d' % x"], "s{k}"),
    ("use_fstrings", ["s{k} = 'nl %s\\n' % x"], "s{k}"),
    ("use_fstrings", ["s{k} = \"q 'in' %s\" % y"], "s{k}"),
    ("use_fstrings", ["s{k} = 'r %r' % y"], "s{k}"),
    ("use_fstrings", ["s{k} = 'b {{}} %s' % x"], "s{k}"),
    ("use_fstrings", ["s{k} = 'pct %s%%' % x"], "s{k}"),
    ("use_fstrings", ["s{k} = ('multi %s'", "      % x)"], "s{k}"),
    ("use_fstrings", ["print('p %s' % x)  # comment"], "x"),
    ("missing_f", ["s{k} = 'x = {{x}}'"], "s{k}"),
    ("missing_f", ["s{k} = '{{y}} and {{x}}'"], "s{k}"),
    ("missing_f", ["s{k} = '{{x!r}}'"], "s{k}"),
    ("missing_f", ["s{k} = \"{{x}} 'q'\""], "s{k}"),
    ("too_many_positional_args", ["t{k} = callee(1, 2, 3, 4, 5, 6, 7, 8, 9, x, y)"], "t{k}"),
    ("too_many_positional_args", ["t{k} = callee(1, 2, 3, 4, 5, 6,", "            7, 8, 9, x, y)"], "t{k}"),
    ("too_many_positional_args", ["t{k} = callee(", "    1, 2, 3, 4, 5, 6, 7, 8, 9, x, y", ")"], "t{k}"),
]
# assignment shapes around the unused-variable fix: (body lines, returned expression)
ASSIGN_TEMPLATES = [
    (["a{k} = b{k} = x + 1"], "b{k}"),
    (["a{k} = b{k} = x + 1"], "a{k}"),
    (["a{k} = b{k} = c{k} = x"], "a{k}, c{k}"),
    (["a{k} = b{k} = c{k} = x"], "b{k}"),
    (["a{k} = b{k} = c{k} = str(x)"], "c{k}"),
    (["a{k} = b{k} = len(str(x))"], "a{k}"),
    (["a{k} = b{k} = print('side', x)"], "b{k}"),
    (["a{k} = b{k} = (x +", "    1)"], "b{k}"),
    (["a{k} = b{k} = [", "    x,", "    y,", "]"], "a{k}"),
    (["a{k} = b{k} = x", "print(b{k})"], "x"),
    (["a{k} = b{k} = x"], "x"),
    (["a{k}, b{k} = x, y"], "a{k}"),
    (["a{k}, b{k} = x, y"], "x"),
    (["[a{k}, b{k}] = x, y"], "x"),
    (["(a{k}, b{k}) = c{k} = (x, y)"], "c{k}"),
    (["a{k} = (b{k}, c{k}) = (x, y)"], "b{k}"),
    (["a{k} = x", "a{k} += 1"], "x"),
    (["a{k}: int = x"], "x"),
    (["a{k}: int = b{k} = x"] , "x") if False else (["a{k}: object = print('ann', x)"], "x"),
    (["with open(os.devnull) as fh{k}:", "    print(x)"], "x"),
    (["with open(os.devnull) as fh{k}, open(os.devnull) as gh{k}:", "    print(gh{k}.name)"], "x"),
    (["for i{k} in range(2):", "    print(x)"], "x"),
    (["for i{k}, j{k} in [(1, 2)]:", "    print(i{k})"], "x"),
    (["if (w{k} := x + 1) > 0:", "    print(x)"], "x"),
    (["print([0 for c{k} in range(2)])"], "x"),
    (["print([c{k} for c{k}, d{k} in [(1, 2)]])"], "x"),
    (["a{k} = b{k} = x", "del b{k}"], "x"),
    (["try:", "    a{k} = b{k} = int(x)", "except ValueError as e{k}:", "    b{k} = 0"], "b{k}"),
]
FIX_TEMPLATES += [("unused_variable", b, r) for b, r in ASSIGN_TEMPLATES]
FIX_TEMPLATES += [
    ("unused_variable", ["ü{k} = x + 1"], "x"),
    ("unused_variable", ["u{k} = 'é ☃'"], "x"),
    ("use_fstrings", ["s{k} = 'é %s ☃' % x"], "s{k}"),
    ("missing_f", ["s{k} = 'é {{x}}'"], "s{k}"),
    ("unused_variable", ["def inner{k}():", "    v{k} = x", "    return y", "print(inner{k}())"], "x"),
    ("unused_variable", ["class C{k}:", "    def m(self):", "        v{k} = x", "        return y", "print(C{k}().m())"], "x"),
    ("unused_variable", ["lam{k} = [i for i in range(2) for j{k} in range(2)]"], "lam{k}"),
    ("too_many_positional_args", ["t{k} = (callee(1, 2, 3, 4, 5, 6, 7, 8, 9, x, y),", "        x)"], "t{k}"),
]
# replace_node regenerates the whole enclosing statement from a copy of its AST: the fixable node sits
# inside rich statements (dict displays with **, calls with * / **, lambdas and defs with keyword-only /
# positional-only parameters with and without defaults, f-strings, conditional expressions,
# comprehensions, walrus, star targets, decorators, annotations, multi-line forms)
RICH_TEMPLATES = [
    ("use_fstrings", ["o{k} = {{**{{'a': y}}, 'label': 'v %s' % x, **{{'b': 1}}}}"], "o{k}"),
    ("use_fstrings", ["o{k} = {{", "    **{{'a': y}},", "    'label': 'v %s' % x,", "    **{{'b': 1}},", "}}"], "o{k}"),
    ("use_fstrings", ["f{k} = lambda *, sep='-', word: 'p %s' % x + sep + word"], "f{k}(word='w')"),
    ("use_fstrings", ["f{k} = lambda a, /, b=2, *c, d, e=5, **g: ('q %s' % x, a, b, c, d, e, g)"], "f{k}(1, d=4)"),
    ("use_fstrings", ["t{k} = callee(*[1, 2, 3], *[4, 5, 6, 7, 8, 9], **{{'j': 's %s' % x, 'k': y}})"], "t{k}"),
    ("use_fstrings", ["c{k} = ['c %s' % i for i in range(2) if i or x]"], "c{k}"),
    ("use_fstrings", ["w{k} = ('w %s' % x) if (n{k} := x) else 'none'"], "w{k}, n{k}"),
    ("use_fstrings", ["a{k}, *b{k} = 'u %s' % x, 1, 2"], "a{k}, b{k}"),
    ("use_fstrings", ["g{k} = f'{{x}} and ' + 'p %s' % y"], "g{k}"),
    ("use_fstrings", ["@(lambda fn, *, tag='t %s' % x: fn)", "def d{k}(*, q, r=2):", "    return q, r"], "d{k}(q=1)"),
    ("use_fstrings", ["def an{k}(a: 'n %s' % x = 1, *, b, **kw):", "    return a, b, kw"], "an{k}(b=2)"),
    ("use_fstrings", ["print({{**{{'a': 1}}, 'm': 'x %s' % x}}, *[1, 2], sep='|', **{{'end': '!\\n'}})"], "x"),
    ("missing_f", ["v{k} = {{**{{'a': 1}}, 'm': 'x = {{x}}'}}"], "v{k}"),
    ("missing_f", ["h{k} = lambda *, pre='>', suf: pre + 'x = {{x}}' + suf"], "h{k}(suf='<')"),
    ("too_many_positional_args", ["o{k} = {{**{{'a': 1}}, 'r': callee(1, 2, 3, 4, 5, 6, 7, 8, 9, x, y)}}"], "o{k}"),
    ("too_many_positional_args", ["l{k} = lambda *, z: callee(1, 2, 3, 4, 5, 6, 7, 8, 9, x, z)"], "l{k}(z=0)"),
    ("unused_variable", ["o{k} = {{**{{'a': 1}}, 'r': [0 for q{k} in range(2)]}}"], "o{k}"),
    ("unused_variable", ["l{k} = lambda *, z: [z for q{k} in range(2)]"], "l{k}(z=1)"),
]
FIX_TEMPLATES += RICH_TEMPLATES
FIX_TEMPLATES += [
    ("use_fstrings", ["s{k} = ('e %s' % x +", "'tail')"], "s{k}"),
    ("unused_variable", ["u{k} = [x,", "y]"], "x"),
]
# fixes inside nested function contexts: def in async def, async def in def, class body in a function
NESTED_TEMPLATES = [
    ("missing_await", ["async def co{k}():", "    asyncio.sleep(0)", "    return x"], "x"),
    ("missing_await", ["async def co{k}():", "    def inner{k}():", "        asyncio.sleep(0)", "        return x", "    return inner{k}"], "x"),
    ("missing_await", ["def gen{k}():", "    async def co{k}():", "        asyncio.sleep(0)", "    return co{k}"], "x"),
    ("missing_await", ["async def co{k}():", "    class C{k}:", "        def m(self):", "            asyncio.sleep(0)", "    return C{k}"], "x"),
    ("missing_await", ["def gen{k}():", "    asyncio.sleep(0)", "    return x"], "x"),
    ("use_fstrings", ["async def co{k}():", "    def inner{k}():", "        return 'n %s' % x", "    return inner{k}"], "x"),
    ("unused_variable", ["async def co{k}():", "    def inner{k}():", "        u{k} = x", "        return y", "    return inner{k}"], "x"),
    ("too_many_positional_args", ["async def co{k}():", "    return [callee(1, 2, 3, 4, 5, 6, 7, 8, 9, x, i) for i in range(2)]"], "x"),
]
# shapes reported to violate the property on the unchanged tree (each is a known finding with a guard, or has a fix proposal)
REPORTED_TEMPLATES = [
    ("use_fstrings", ["s{k} = \'\'\'a %s", "b\'\'\' % x"], "s{k}"),                      # (1) last line of a multi-line string
    ("use_fstrings", ["if y: s{k} = 'a %s' % x", "else: s{k} = ''"], "s{k}"),        # (2) one-line compound statement
    ("use_fstrings", ["z{k} = 1; s{k} = 'a %s' % x"], "s{k}, z{k}"),                 # (2) semicolon
    ("use_fstrings", ["s{k} = 'a %s\\n\\n' % x"], "s{k}"),                          # (3) trailing newlines
    ("use_fstrings", ["s{k} = 'a %.0s' % x"], "s{k}"),                                 # (4) zero precision
    ("too_many_positional_args", ["t{k} = posonly(1, 2, 3, 4, 5, 6, 7, 8, 9, x, y)"], "t{k}"),  # (5) positional-only
    ("missing_f", ["s{k} = f'{{{{x}}}} {{y}}'"], "s{k}"),                              # (6) inside an f-string
]
# the statement forms through which a fixable expression can be reached: augmented and annotated assignments,
# return / yield / await / assert / raise / del operands, default values, subscripts, comparison chains, lambda
# bodies, f-string fields, match subjects and guards, with / for / while / if headers, starred and keyword arguments
FORM_TEMPLATES = [
    ("use_fstrings", ["m{k} = 'hello %s'", "m{k} %= x"], "m{k}"),
    ("use_fstrings", ["m{k} = 'a'", "m{k} += 'b %s' % x"], "m{k}"),
    ("use_fstrings", ["m{k}: str = 'v %s' % x"], "m{k}"),
    ("use_fstrings", ["def in{k}():", "    return 'r %s' % x"], "in{k}()"),
    ("use_fstrings", ["def g{k}():", "    yield 'y %s' % x", "    z{k} = yield 'z %s' % y", "    return z{k}"], "list(g{k}())"),
    ("use_fstrings", ["async def co{k}():", "    return await asyncio.sleep(0, 'w %s' % x)"], "asyncio.run(co{k}())"),
    ("use_fstrings", ["assert x is not None or y, 'm %s' % x"], "x"),
    ("use_fstrings", ["try:", "    raise ValueError('e %s' % x) from KeyError('k %s' % y)", "except ValueError as ex{k}:", "    s{k} = str(ex{k})"], "s{k}"),
    ("use_fstrings", ["d{k} = {{'k %s' % x: 1, 'other': 2}}", "del d{k}['k %s' % x]"], "d{k}"),
    ("use_fstrings", ["def df{k}(a='d %s' % x, *, b='e %s' % y):", "    return a, b"], "df{k}()"),
    ("use_fstrings", ["t{k} = {{'s 1': 2, 's 0': 3, 's 7': 4}}['s %s' % x]"], "t{k}"),
    ("use_fstrings", ["c{k} = 'a' < 'c %s' % x < 'd'"], "c{k}"),
    ("use_fstrings", ["l{k} = lambda: 'l %s' % x"], "l{k}()"),
    ("use_fstrings", ["f{k} = f\"{{'i %s' % x}} tail {{y!r:>4}}\""], "f{k}"),
    ("use_fstrings", ["match 'm %s' % x:", "    case str() as v{k} if v{k} != 'g %s' % y:", "        r{k} = v{k}", "    case _:", "        r{k} = ''"], "r{k}"),
    ("use_fstrings", ["with open(os.devnull) as fh{k}, open('%s' % os.devnull) as gh{k}:", "    r{k} = gh{k}.name"], "r{k}"),
    ("use_fstrings", ["r{k} = []", "for i{k} in ['f %s' % x]:", "    r{k}.append(i{k})"], "r{k}"),
    ("use_fstrings", ["r{k} = 0", "while 'w %s' % x and r{k} < 1:", "    r{k} += 1"], "r{k}"),
    ("use_fstrings", ["if 'c %s' % x == 'c 1':", "    r{k} = 1", "elif 'c %s' % x == 'c 7':", "    r{k} = 7", "else:", "    r{k} = 0"], "r{k}"),
    ("use_fstrings", ["r{k} = print(*['s %s' % x], sep='k %s' % y)"], "x"),
    ("use_fstrings", ["global gl{k}", "gl{k} = 'g %s' % x"], "gl{k}"),
    ("missing_f", ["m{k} = 'a'", "m{k} += 'x = {{x}}'"], "m{k}"),
    ("missing_f", ["def in{k}():", "    return 'x = {{x}}'"], "in{k}()"),
    ("missing_f", ["def df{k}(a='x = {{x}}'):", "    return a"], "df{k}()"),
    ("missing_f", ["assert x is not None or y, 'x = {{x}}'"], "x"),
    ("missing_f", ["l{k} = lambda: 'x = {{x}}'"], "l{k}()"),
    ("missing_f", ["m{k}: str = 'x = {{x}}'"], "m{k}"),
    ("too_many_positional_args", ["def in{k}():", "    return callee(1, 2, 3, 4, 5, 6, 7, 8, 9, x, y)"], "in{k}()"),
    ("too_many_positional_args", ["m{k} = (0,)", "m{k} += callee(1, 2, 3, 4, 5, 6, 7, 8, 9, x, y)"], "m{k}"),
    ("too_many_positional_args", ["m{k}: tuple = callee(1, 2, 3, 4, 5, 6, 7, 8, 9, x, y)"], "m{k}"),
    ("too_many_positional_args", ["assert callee(1, 2, 3, 4, 5, 6, 7, 8, 9, x, y), 'msg'"], "x"),
    ("too_many_positional_args", ["l{k} = lambda: callee(1, 2, 3, 4, 5, 6, 7, 8, 9, x, y)[9]"], "l{k}()"),
    ("unused_variable", ["r{k} = [i for i in range(2) for j{k} in range(2)]", "r{k} += [0 for q{k} in range(2)]"], "r{k}"),
    ("unused_variable", ["def in{k}():", "    return [0 for q{k} in range(2)]"], "in{k}()"),
]
FIX_TEMPLATES += NESTED_TEMPLATES + REPORTED_TEMPLATES + FORM_TEMPLATES


# % templates with every specifier feature x every operand shape: whatever use_fstrings proposes for them
# must evaluate to the same string (the oracle executes the function before and after the fix)
def _esc(t):
    return t.replace("{", "{{").replace("}", "}}")


PCT_PRELUDE = ["o{k} = type('O', (), {{'v': x, 'w': y, 'd': {{'k': x, 'j': y}}}})()", "p{k} = {{'k': x, 'j': y}}"]
PCT_ONE = ["v %s", "%s", "%d|", "%r!", "%5s|", "%-5s|", "%05d", "%+d", "%#x", "%.2f", "%.0s|", "%ld", "100%% %s", "%c", "%5.1f", "% d", "%i", "%a"]
PCT_ONE_OPERANDS = ["x", "o{k}.v", "str(x)", "int(x)", "(x,)", "(o{k}.v,)", "p{k}['k']", "-x", "x + 1"]
PCT_TWO = ["%s-%s", "%s %% %d", "%r and %s", "%-3s|%3s", "%s%s"]
PCT_TWO_OPERANDS = ["(x, y)", "(o{k}.v, o{k}.w)", "(str(x), y)", "(x, x)", "(x, p{k}['j'])"]
PCT_STAR = [("%*d", "(5, x)"), ("%-*d|", "(4, x)"), ("%.*f", "(1, x)")]
PCT_MAP = ["%(k)s", "Hello %(k)s!", "%(k)s and %(j)s", "%(k)5s|", "%(k)s%%", "%(k)d", "%(k)r %(k)s", "%(k)-4s|"]
PCT_MAP_OPERANDS = ["p{k}", "o{k}.d", "{{'k': x, 'j': y}}", "dict(k=x, j=y)", "dict(p{k})"]


def percent_templates():
    out = []
    for t in PCT_ONE:
        for op in PCT_ONE_OPERANDS:
            out.append(("use_fstrings", PCT_PRELUDE + ["s{k} = " + _esc(repr(t)) + " % " + op], "s{k}"))
    for t in PCT_TWO:
        for op in PCT_TWO_OPERANDS:
            out.append(("use_fstrings", PCT_PRELUDE + ["s{k} = " + _esc(repr(t)) + " % " + op], "s{k}"))
    for t, op in PCT_STAR:
        out.append(("use_fstrings", PCT_PRELUDE + ["s{k} = " + _esc(repr(t)) + " % " + op], "s{k}"))
    for t in PCT_MAP:
        for op in PCT_MAP_OPERANDS:
            out.append(("use_fstrings", PCT_PRELUDE + ["s{k} = " + _esc(repr(t)) + " % " + op], "s{k}"))
    return out


PCT_TEMPLATES = percent_templates()
# two more shapes reported on the unchanged tree
REPORTED_TEMPLATES_2 = [
    ("unused_variable", ["y{k} = (z{k} := 5)"], "y{k}"),
    ("unused_variable", ["print(w{k} := x)"], "x"),
    ("missing_f", ["match str(x):", "    case '{{x}}':", "        r{k} = 1", "    case _:", "        r{k} = 0"], "r{k}"),
]
# the replacement attached to unused_ignore reports (remove the comment line / strip the comment)
FIX_TEMPLATES += [
    ("unused_ignore", ["# static analysis: ignore[bad_unpack]", "print(x)"], "x"),
    ("unused_ignore", ["# static analysis: ignore", "print(x)"], "x"),
    ("unused_ignore", ["print(x)  # static analysis: ignore[bad_unpack]"], "x"),
    ("unused_ignore", ["print(x)  # static analysis: ignore"], "x"),
    ("unused_ignore", ["print(x)  # static analysis: ignore[bad_unpack] because reasons"], "x"),
    ("unused_ignore", ["print(x)  # static analysis: ignore, see above"], "x"),
    ("unused_ignore", ["print(x)  # note # static analysis: ignore[bad_unpack]"], "x"),
]
UNUSED_FIX_CFG = {"cli_on": ["unused_ignore"], "cli_off": ["bare_ignore"], "top_off": [], "override": None, "module": "pa.pb"}

FIX_CFG = {"cli_on": ["use_fstrings", "missing_f", "too_many_positional_args", "missing_await"], "cli_off": ["unused_ignore", "bare_ignore"],
           "top_off": [], "override": None, "module": "pa.pb"}


def gen_fix_program(rng, k, forced=None):
    code, body, ret = forced or rng.choice(FIX_TEMPLATES)
    ind = rng.choice([4, 4, 8])
    lines = ["import os", "import asyncio"] + list(CALLEE) + ["def posonly(a, b, c, d, e, f, g, h, i, j, k, /):", "    return (a, k)"]
    if rng.random() < 0.3:
        lines.insert(0, "# a leading comment")
    lines.append(f"def target(x, y):")
    pre = []
    if ind == 8:
        pre = ["    if y is not None:"]
    else:
        if rng.random() < 0.5:
            pre = ["    z = y"] if rng.random() < 0.5 else ["    print('before')"]
    post = rng.choice([[], ["print('after', x)"], ["", "print('after')"], ["# comment after"]])
    lines += pre
    for b in body:
        lines.append(" " * ind + b.format(k=k))
    rets = [ret.format(k=k)]
    if forced is None and rng.random() < 0.4:
        # a second fixable statement in the same function: the fixes are applied one per iteration
        code2, body2, ret2 = rng.choice(FIX_TEMPLATES)
        for b in body2:
            lines.append(" " * ind + b.format(k=k + 5000))
        rets.append(ret2.format(k=k + 5000))
    for b in post:
        lines.append((" " * ind + b) if b else "")
    if ind == 8 and (not post or post[-1].startswith("#") or post[-1] == ""):
        lines.append(" " * ind + "pass")
    if ind == 8:
        # names bound only inside the `if` would be unbound on the other path
        lines.append(" " * ind + "return " + ", ".join(rets) + (", z" if pre == ["    z = y"] else ""))
        lines.append("    return None")
    else:
        lines.append("    return " + ", ".join(rets) + (", z" if pre == ["    z = y"] else ""))
    ctx = rng.choice(["plain", "plain", "tabs", "method", "nested", "decorated"]) if forced is None else "plain"
    i0 = lines.index("def target(x, y):")
    fn = lines[i0:]
    if ctx == "tabs":
        fn = [("\t" * ((len(l) - len(l.lstrip(" "))) // 4) + l.lstrip(" ")) if l.strip() else l for l in fn]
        if any("\'\'\'" in l for l in fn) or any((len(l) - len(l.lstrip(" "))) % 4 for l in lines[i0:]):
            fn = lines[i0:]
    elif ctx == "method":
        fn = ["class Holder:", "    @staticmethod"] + ["    " + l if l.strip() else l for l in fn] + ["target = Holder.target"]
    elif ctx == "nested":
        fn = ["def outer():"] + ["    " + l if l.strip() else l for l in fn] + ["    return target", "target = outer()"]
    elif ctx == "decorated":
        fn = ["def deco(fn):", "    return fn", "@deco"] + fn
    lines = lines[:i0] + fn
    if forced is None and rng.random() < 0.35:
        # the fixable statement is the last statement of the file (with / without a final newline)
        body3, ret3 = rng.choice(ASSIGN_TEMPLATES[:11])
        lines.append("def last_fn(x, y):")
        lines.append("    print(x)")
        for b in body3:
            lines.append("    " + b.format(k=k + 9000))
    return code, lines


class _Timeout(Exception):
    pass


def behaviour(text):
    """Observable behaviour of target() on sample arguments (2 s budget: a broken rewrite may loop)."""
    import signal

    def on_alarm(signum, frame):
        raise _Timeout()

    old = signal.signal(signal.SIGALRM, on_alarm)
    signal.setitimer(signal.ITIMER_REAL, 2.0)
    try:
        return _behaviour(text)
    except _Timeout:
        return [("timeout",)]
    finally:
        signal.setitimer(signal.ITIMER_REAL, 0)
        signal.signal(signal.SIGALRM, old)


def _behaviour(text):
    ns = {}
    out = []
    try:
        with contextlib.redirect_stdout(io.StringIO()):
            exec(compile(text, "<c16>", "exec"), ns)
    except _Timeout:
        raise
    except BaseException as ex:
        return [("module", type(ex).__name__)]
    calls = [("target", a) for a in [(1, "a"), (0, None), (7, 2)]]
    if "last_fn" in ns:
        calls += [("last_fn", (3, 4))]
    for fn, args in calls:
        buf = io.StringIO()
        try:
            with contextlib.redirect_stdout(buf):
                r = ns[fn](*args)
            out.append(("ok", repr(r), buf.getvalue()))
        except _Timeout:
            raise
        except BaseException as ex:
            out.append(("exc", type(ex).__name__, buf.getvalue()))
    return out


def intended_text(code, text, lineno=None, col=None):
    """The program the fix is meant to produce, as far as behaviour goes: for missing_f the string
    literal at the reported position becomes an f-string; the other fixes keep the behaviour."""
    if code != "missing_f" or lineno is None:
        return text
    out = text.split("\n")
    l = out[lineno - 1]
    if col is not None and col < len(l) and l[col] in "'\"":
        out[lineno - 1] = l[:col] + "f" + l[col:]
    return "\n".join(out)


# (ii) "the only semantic change is the intended one" as an AST statement: old and new tree may differ
# only inside the sub-tree of the node the diagnostic was reported on
REPLACED_NODE = {"use_fstrings": ast.BinOp, "missing_f": (ast.Constant, ast.JoinedStr), "too_many_positional_args": ast.Call}


def ast_diff_roots(a, b):
    """Minimal sub-trees of `a` on which the two trees differ (fields only, positions ignored)."""
    roots = []

    def walk(x, y):
        if type(x) is not type(y):
            roots.append(x)
            return
        for f in x._fields:
            vx, vy = getattr(x, f, None), getattr(y, f, None)
            if isinstance(vx, list) and isinstance(vy, list):
                if len(vx) != len(vy):
                    roots.append(x)
                    return
                for ex, ey in zip(vx, vy):
                    if isinstance(ex, ast.AST) and isinstance(ey, ast.AST):
                        walk(ex, ey)
                    elif ex != ey:
                        roots.append(x)
                        return
            elif isinstance(vx, ast.AST) and isinstance(vy, ast.AST):
                walk(vx, vy)
            elif isinstance(vx, ast.AST) or isinstance(vy, ast.AST) or vx != vy:
                roots.append(x)
                return

    walk(a, b)
    return roots


def ast_change_outside_target(code, old_text, new_text, lineno, col):
    """None if every difference between the two trees lies inside the node reported at (lineno, col)
    (of the kind the fix replaces); otherwise a description of a difference outside it."""
    kind = REPLACED_NODE.get(code)
    if kind is None:
        return None
    old, new = ast.parse(old_text), ast.parse(new_text)
    old_lines = old_text.split("\n")

    def char_col(n):
        # diagnostics carry character columns, ast byte offsets
        ln = getattr(n, "lineno", None)
        if ln is None or not (1 <= ln <= len(old_lines)):
            return None
        return len(old_lines[ln - 1].encode("utf-8")[: n.col_offset].decode("utf-8", "ignore"))

    at_pos = [n for n in ast.walk(old) if getattr(n, "lineno", None) == lineno and char_col(n) == col]
    cands = [n for n in at_pos if isinstance(n, kind)]
    if not cands:
        if at_pos:
            return f"the fix was applied for a {type(at_pos[0]).__name__} at line {lineno}, not for a {getattr(kind, '__name__', 'string literal')}"
        return None
    inside = {id(n) for n in ast.walk(cands[0])}
    for r in ast_diff_roots(old, new):
        if id(r) not in inside:
            return f"{type(r).__name__} at line {getattr(r, 'lineno', '?')} changed outside the replaced {getattr(kind, '__name__', 'node')}: {ast.dump(r)[:160]}"
    return None


def removal_facts(text, applied):
    """For a pure removal (lines_to_add == []): the statement that starts on the first removed line,
    whether the removed lines are exactly its lines, whether it is alone in its block, and
    whether its value contains a call."""
    if not applied or applied["add"] != [] or not applied["del"]:
        return None
    first = min(applied["del"])
    tree = ast.parse(text)
    for parent in ast.walk(tree):
        for field in ("body", "orelse", "finalbody"):
            blk = getattr(parent, field, None)
            if isinstance(blk, list):
                for st in blk:
                    if isinstance(st, ast.stmt) and st.lineno == first:
                        return {"exact": sorted(applied["del"]) == list(range(st.lineno, st.end_lineno + 1)),
                                "single_target": isinstance(st, ast.Assign) and len(st.targets) == 1 and isinstance(st.targets[0], ast.Name),
                                "alone": len(blk) == 1,
                                "has_call": any(isinstance(n, ast.Call) for n in ast.walk(st))}
    return None


def reported_shape_finding(code, text, ap, first_diag, problems):
    """Decidable guards of the known findings about node replacements (harness level: outside the Coq model)."""
    if not ap or not ap["del"] or not _parses(text):
        return None
    tree = ast.parse(text)
    lo, hi = min(ap["del"]), max(ap["del"])
    if text.splitlines()[lo - 1].lstrip().startswith("elif "):
        return "C16-elif-becomes-if"  # the regenerated statement is the `If` node of an `elif` clause
    by_line = collections.Counter(st.lineno for st in ast.walk(tree) if isinstance(st, ast.stmt) and lo <= st.lineno <= hi)
    if any(n >= 2 for n in by_line.values()):
        return "C16-shared-physical-line"  # `if c: stmt`, `a; b`: another statement starts on a line of the replaced one
    line, col = (first_diag[1], first_diag[2]) if first_diag else (None, None)
    if code == "unused_variable":
        for n in ast.walk(tree):
            if isinstance(n, ast.NamedExpr) and n.target.lineno == line and n.target.col_offset == col:
                return "C16-unused-walrus-deletes-statement"
    if code == "missing_f":
        for n in ast.walk(tree):
            if isinstance(n, ast.MatchValue) and n.value.lineno == line and n.value.col_offset == col:
                return "C16-missing-f-in-match-pattern"
    if code == "use_fstrings":
        for n in ast.walk(tree):
            if isinstance(n, ast.BinOp) and isinstance(n.op, ast.Mod) and n.lineno == line and n.col_offset == col and isinstance(n.left, ast.Constant) and isinstance(n.left.value, str):
                import re as _re
                if _re.search(r"%\.0[sd]", n.left.value):
                    return "C16-fstring-zero-precision"
                if "\n\n" in n.left.value:
                    return "C16-fstring-consecutive-newlines"
    if code == "too_many_positional_args":
        posonly = {d.name for d in ast.walk(tree) if isinstance(d, ast.FunctionDef) and d.args.posonlyargs}
        for n in ast.walk(tree):
            if isinstance(n, ast.Call) and n.lineno == line and n.col_offset == col and isinstance(n.func, ast.Name) and n.func.id in posonly:
                return "C16-positional-only-as-keyword"
    if code == "missing_f":
        for n in ast.walk(tree):
            if isinstance(n, ast.JoinedStr) and n.lineno == line and n.col_offset <= col <= (n.end_col_offset or 0):
                return "C16-missing-f-inside-fstring"
    return None


def fix_job(job):
    """Apply the proposed replacement, re-check, repeat (one replacement per run) up to the fixpoint.
    -> {"steps": [{"text", "out", "applied", "new"}], "final_out", "error"}"""
    code, lines = job
    text = "\n".join(lines) + ("\n" if len(lines) % 2 else "")
    steps = []
    final_out, final_desc, error = None, None, None
    with contextlib.redirect_stderr(io.StringIO()):
        for _ in range(7):
            r = lines_impl.run_case(text, dict(UNUSED_FIX_CFG if code == "unused_ignore" else FIX_CFG, apply=True))
            if r["error"]:
                error = r["error"]
                break
            final_out = r["out"]
            final_desc = r["desc"]
            new = r["new_text"]
            # check_for_test re-terminates every line: a missing final newline alone is not a change
            if new is None or new == "".join(l + "\n" for l in text.splitlines()):
                break
            steps.append({"text": text, "out": r["out"], "desc": r["desc"], "applied": r["applied"], "new": new})
            if not _parses(new):
                final_out = None
                break
            text = new
    return {"code": code, "steps": steps, "final_out": final_out, "final_desc": final_desc, "error": error, "text0": "\n".join(lines)}


def _parses(t):
    try:
        compile(t, "<c16>", "exec")  # also catches what only the compiler rejects (`await` outside async def)
        return True
    except (SyntaxError, ValueError):
        return False


# ---------------------------------------------------------------------------

def gen_files():
    return tr_lines.gen_files_c16(str(lib.REPO))


def enc_iter(limit, enabled_idx, lines, raw, code_idx):
    parts = ["I", str(limit), str(len(enabled_idx)), *map(str, enabled_idx), str(len(lines))]
    parts += [c11.enc_line(l) for l in lines]
    parts.append(str(len(raw)))
    for node, code, line, col, obey in raw:
        parts += [str(node), str(code_idx[code]), str(line), str(col), str(obey)]
    return " ".join(parts)


def dec_iter(s):
    g, n, files = s.split(" | ", 2) if s.count(" | ") >= 2 else (s.split(" | ") + [""])[:3]
    bits = [x == "1" for x in g.split()]
    out = []
    if files.strip():
        for f in files.split(" ; "):
            out.append(["".join(chr(int(c)) for c in l.split(",")) if l else "" for l in f.split("/")])
    return dict(zip(["guard", "base", "pos", "prev", "one"], bits)), int(n), out


def run(tier: str, replay: str | None = None):
    rep = lib.Report(PROP, tier, "proof")
    rng = random.Random(lib.seed() * 7901 + 16)
    broken_translation, proof = None, None
    try:
        gen = gen_files()
    except tr_lines.TranslateError as ex:
        broken_translation, gen = str(ex), None
    if gen is not None:
        proof = lib.prove(PROP, gen, thorough=(tier == "thorough"))
    exe = None
    if proof is not None and not any("build failed" in b for b in proof.broken):
        try:
            exe = lib.ocaml_build("c16", "theories/Extract/ExtractC16.v", "c16_driver.ml")
        except RuntimeError as ex:
            rep.violation({"kind": "broken-obligation", "theorem": "extraction of the C16 model", "detail": str(ex)[-1500:]}, no_failing_input=True)
    try:
        from translate import astcopy as _ac
        END_INCLUSIVE[0] = _ac.range_end_inclusive(str(lib.REPO))
    except Exception:
        pass
    names = lines_impl.code_names()
    static_names = tr_lines.read_codes(str(lib.REPO))[1]
    code_idx = {n: i for i, n in enumerate(static_names)}
    dit = tr_lines.read_codes(str(lib.REPO))[2]["DISABLED_IN_TESTS"]
    known = {k["id"]: k for k in lib.load_known_findings(PROP)["findings"]}
    LIMIT = 10 if tier == "quick" else 14

    # ---- cases -----------------------------------------------------------
    iter_cases, fix_cases = [], []  # (text, cfg) ; (code, lines)
    corpus_path = lib.VERIF / "harness" / "corpus" / f"{PROP}.json"
    corpus = json.loads(corpus_path.read_text()) if corpus_path.exists() else []
    if replay:
        c = json.loads(Path(replay).read_text())["input"]
        if "fix_lines" in c:
            fix_cases.append((c["code"], c["fix_lines"]))
        else:
            iter_cases.append((c["text"], c["cfg"]))
    else:
        for c in corpus:
            if "fix_lines" in c:
                fix_cases.append((c["code"], c["fix_lines"]))
            else:
                iter_cases.append((c["text"], c["cfg"]))
        n_iter = 90 if tier == "quick" else 500
        for i in range(n_iter):
            iter_cases.append(("\n".join(gen_program(rng)) + "\n", BASE_CFG))
        for i in range(3 if tier == "quick" else 12):
            k = rng.randrange(1000)
            iter_cases.append((f"import os\ndef f{k}():\n    print(undef_{k})  {IGNORE}[bad_unpack]\n    return os.sep\n", UNUSED_ON_CFG))
        for i, t in enumerate(FIX_TEMPLATES + REPORTED_TEMPLATES_2):
            fix_cases.append(gen_fix_program(rng, i, forced=t))
        if tier == "thorough":
            pct = PCT_TEMPLATES
        else:  # quick: the mapping templates with a name / attribute operand always, plus a sample of everything
            pct = [t for t in PCT_TEMPLATES if "%(" in t[1][-1] and (t[1][-1].endswith("% p{k}") or t[1][-1].endswith("% o{k}.d"))] + rng.sample(PCT_TEMPLATES, 30)
        for i, t in enumerate(pct):
            fix_cases.append(gen_fix_program(rng, 3000 + i, forced=t))
        for i in range(160 if tier == "quick" else 1100):
            fix_cases.append(gen_fix_program(rng, 100 + i))

    # ---- part A: the add-ignores iteration --------------------------------
    res_all = pool([("A", (t, c, LIMIT)) for t, c in iter_cases] + [("B", fc) for fc in fix_cases])
    res_a, res_b = res_all[: len(iter_cases)], res_all[len(iter_cases):]
    # the model is run one step at a time on the raw stream of *that* run (the order in which the checker
    # reports e.g. unused variables may differ between runs: set iteration, C10's subject), and the
    # "raw stream moves down with its lines" assumption is checked separately as a multiset equality
    model_in, model_idx = [], []
    harness_problems = []
    shift_violations = []
    for i, ((text, cfg), r) in enumerate(zip(iter_cases, res_a)):
        first = r["first"]
        if first["error"]:
            harness_problems.append(f"iteration case {i}: {first['error'][:300]}")
            continue
        if exe is None:
            continue
        en = c11.enabled_names(cfg, names, dit)
        en_idx = sorted(code_idx[n] for n in en if n in code_idx)
        seq = [text] + r["texts"]
        for j, t in enumerate(seq):
            if j >= len(r["runs"]) or r["runs"][j]["error"]:
                break
            lines = t.splitlines()
            raw = r["runs"][j]["raw"]
            if any(x[1] not in code_idx for x in raw) or any(x[2] > len(lines) for x in raw):
                break
            model_in.append(enc_iter(1, en_idx, lines, raw, code_idx))
            model_idx.append((i, j))
            if j + 1 < len(seq) and j + 1 < len(r["runs"]) and not r["runs"][j + 1]["error"]:
                # where was the comment inserted?  first differing line
                nl = seq[j + 1].splitlines()
                ins = next((k for k, (a, b) in enumerate(zip(lines + [None], nl), 1) if a != b), None)
                if ins is not None and len(nl) == len(lines) and r["runs"][j].get("first_code") not in ("unused_ignore", "bare_ignore"):
                    # a trailing comment: no line moves
                    want = collections.Counter((c, ln, col) for _, c, ln, col, _ in raw)
                    got = collections.Counter((c, ln, col) for _, c, ln, col, _ in r["runs"][j + 1]["raw"])
                    if want != got:
                        shift_violations.append({"text": t, "trailing_at": ins, "raw_before": raw, "raw_after": r["runs"][j + 1]["raw"]})
                elif ins is not None and len(nl) == len(lines) + 1:
                    want = collections.Counter((c, (ln + 1 if ln >= ins else ln), col) for _, c, ln, col, _ in raw)
                    got = collections.Counter((c, ln, col) for _, c, ln, col, _ in r["runs"][j + 1]["raw"])
                    if want != got:
                        shift_violations.append({"text": t, "inserted_at": ins, "raw_before": raw, "raw_after": r["runs"][j + 1]["raw"]})
    model_steps = {}
    if exe is not None and model_in:
        try:
            for key, o in zip(model_idx, lib.ocaml_run(exe, model_in)):
                model_steps[key] = dec_iter(o)
        except RuntimeError as ex:
            rep.violation({"kind": "broken-correspondence", "correspondence": "Fixer.fix_step vs check_for_test(apply_changes=True, add_ignores=True)", "detail": str(ex)[-1500:]}, no_failing_input=True)
    model_out = {}
    hist_outside = [0]
    for i, ((text, cfg), r) in enumerate(zip(iter_cases, res_a)):
        if (i, 0) not in model_steps:
            continue
        seq = [text] + r["texts"]
        ok = True
        first_bad = None
        for j in range(len(seq)):
            if (i, j) not in model_steps:
                break
            bits, n, files = model_steps[(i, j)]
            nxt = seq[j + 1].splitlines() if j + 1 < len(seq) else None
            if nxt is None:
                # the implementation stopped here: fixpoint (model must propose nothing), or the limit, or a broken file
                if r["ended"] and n != 0:
                    ok, first_bad = False, j
            elif r["runs"][j].get("first_code") in ("unused_ignore", "bare_ignore"):
                # the replacement applied is the report's own one (remove / strip the unused comment):
                # built by show_errors_for_unused_ignores, outside the model (fix_step = None there)
                hist_outside[0] += 1
                if n != 0:
                    ok, first_bad = False, j
            elif n != 1 or files[0] != nxt:
                ok, first_bad = False, j
            if not ok:
                break
        model_out[i] = (model_steps[(i, 0)][0], ok, first_bad)

    failing, corr_mismatch = [], []
    hist = collections.Counter()
    distinct = set()
    n_eval = 0
    for i, ((text, cfg), r) in enumerate(zip(iter_cases, res_a)):
        first = r["first"]
        if first["error"]:
            continue
        n_eval += 1
        d0 = first["out"]
        hist[f"initial_diagnostics_{min(len(d0), 8)}"] += 1
        if d0:
            distinct.add(text)
        # correspondence: same text after every step
        agree = None
        if i in model_out:
            bits, agree, first_bad = model_out[i]
            if not agree:
                seq = [text] + r["texts"]
                ms = model_steps[(i, first_bad)]
                corr_mismatch.append({"text": seq[first_bad], "cfg": cfg, "impl_steps": seq[first_bad + 1:first_bad + 2],
                                      "model_steps": ["\n".join(f) for f in ms[2]], "raw": r["runs"][first_bad]["raw"]})
            hist["guard_true" if bits["guard"] else "guard_false"] += 1
        # oracle
        problems = []
        final = r["texts"][-1] if r["texts"] else text
        if r["last_error"]:
            problems.append("the rewritten file no longer imports: " + r["last_error"][:160])
        elif not r["ended"]:
            problems.append(f"still changing after {len(r['texts'])} iterations for {len(d0)} initial diagnostics")
        else:
            if r["last_out"]:
                problems.append(f"diagnostics remain at the fixpoint: {r['last_out'][:4]}")
            if len(r["texts"]) > len(d0):
                problems.append(f"{len(r['texts'])} iterations for {len(d0)} diagnostics")
        if not _parses(final):
            problems.append("final text does not parse")
        elif ast.dump(ast.parse(final)) != ast.dump(ast.parse(text)):
            problems.append("syntax tree changed")
        for p in r["probes"]:
            if p["error"]:
                continue
            fl = final.split("\n")
            target_line = p["line"]  # after removal the target line has the comment's number
            code = p["comment"].strip()[len(IGNORE) + 1:-1]
            back = [d for d in p["out"]]
            if not back or any(d[0] != code or d[1] != target_line for d in back):
                problems.append(f"removing the comment of line {p['line']} ({code}) brings back {back[:4]}")
        hist["verdict_ok" if not problems else "verdict_fail"] += 1
        if not problems:
            continue
        # attribution
        fid = None
        bits = model_out[i][0] if i in model_out else None
        cont = continuation_lines(text)
        err_lines = {d[1] for d in d0}
        en = c11.enabled_names(cfg, names, dit)
        # the one class left after the repair: the reported line is inside a multi-line string literal, or
        # itself ends in a backslash (then the comment line still goes above it)
        if (err_lines & cont) or (bits is not None and not bits["guard"] and bits["base"]):
            fid = "C16-continuation-line"
        if fid in known and agree:
            hist["attributed_" + fid] += 1
            rep.known(fid, known[fid]["what"])
        elif fid in known and i not in model_out and exe is None:
            hist["unattributable_model_unavailable"] += 1
        else:
            failing.append({"kind": "failing-input", "what": "add-ignores iteration", "input": {"text": text, "cfg": cfg},
                            "problems": problems, "observed": {"steps": len(r["texts"]), "final": final, "remaining": r["last_out"]},
                            "expected": "ends within one step per diagnostic, no diagnostics, same ast", "guard_bits": bits,
                            "candidate_finding": fid, "model_agrees_with_impl": agree})

    # ---- part B: node replacements ------------------------------------------
    apply_lines, apply_meta = [], []
    range_lines, range_meta = [], []
    pending_range_findings = []  # (index into range_meta, finding id, violation payload)
    for (tcode, lines), r in zip(fix_cases, res_b):
        if r["error"] and not r["steps"]:
            harness_problems.append(f"fix case {tcode}: {r['error'][:300]}")
            continue
        if not r["steps"]:
            hist["fix_no_change_proposed"] += 1
            n_eval += 1
            continue
        distinct.add(r["text0"])
        for si, stp in enumerate(r["steps"]):
            n_eval += 1
            text, before, new, ap = stp["text"], stp["out"], stp["new"], stp["applied"]
            code = before[0][0] if before else tcode  # the first reported diagnostic proposed changes[0]
            hist["fix_" + str(code)] += 1
            hist[f"fix_step_{min(si, 3)}"] += 1
            problems = []
            if not _parses(new):
                problems.append("result does not parse")
            else:
                nxt = r["steps"][si + 1] if si + 1 < len(r["steps"]) else {"out": r["final_out"], "desc": r["final_desc"]}
                after = nxt["out"]
                if after is None:
                    problems.append("re-check failed: " + str(r["error"])[:200])
                else:
                    # a diagnostic is identified by its code and its message (positions move with the edit)
                    cb = collections.Counter((d[0], m) for d, m in zip(before, stp["desc"]))
                    ca = collections.Counter((d[0], m) for d, m in zip(after, nxt["desc"]))
                    prop = (before[0][0], stp["desc"][0])
                    if ca[prop] >= cb[prop]:
                        problems.append(f"the proposing diagnostic is still reported: {prop}")
                    # nothing new may appear, except that removing dead code can make further variables unused
                    extra = {k: v for k, v in (ca - cb).items() if not (code == "unused_variable" and k[0] == "unused_variable")}
                    if extra:
                        problems.append(f"new diagnostics after the fix: {sorted(extra)}")
                want = behaviour(intended_text(code, text, before[0][1] if before else None, before[0][2] if before else None))
                got = behaviour(new)
                if got != want:
                    problems.append(f"behaviour is not the intended one: expected {want}, got {got}")
                if before:
                    out_of_node = ast_change_outside_target(code, text, new, before[0][1], before[0][2])
                    if out_of_node:
                        problems.append("syntax tree changed outside the intended node: " + out_of_node)
                # every changed line lies inside the deleted range: the lines before and after it are kept
                if ap is not None and ap["del"]:
                    ol, nl = text.splitlines(), new.splitlines()
                    a_, b_ = min(ap["del"]), max(ap["del"])
                    if nl[: a_ - 1] != ol[: a_ - 1] or (nl[len(nl) - (len(ol) - b_):] if len(ol) > b_ else []) != ol[b_:]:
                        problems.append("lines outside the replaced range changed")
            # tie of C16_statement_replacement: the replacement deletes one consecutive range of lines
            if ap is not None and ap["del"] and sorted(ap["del"]) != list(range(min(ap["del"]), max(ap["del"]) + 1)):
                problems.append(f"the replacement deletes a non-consecutive set of lines: {ap['del']}")
            hist["fix_ok" if not problems else "fix_fail"] += 1
            # correspondence for _apply_changes_to_lines: queue the recorded Replacement for the translated function
            if exe is not None and ap is not None:
                old_lines = [l + "\n" for l in text.splitlines()]
                adds = ap["add"]
                enc = ["A", str(len(ap["del"])), *map(str, ap["del"]), "1" if adds is not None else "0", str(len(adds or []))]
                enc += [c11.enc_line(a) for a in (adds or [])]
                enc += [str(len(old_lines))] + [c11.enc_line(l) for l in old_lines]
                apply_lines.append(" ".join(enc))
                apply_meta.append((text, ap, new))
            # tie of C16_replace_node_lines: the deleted lines are get_line_range_for_node of some statement
            # of the old tree, as the translated function computes it
            if exe is not None and ap is not None and ap["del"] and code in ("unused_variable", "use_fstrings", "missing_f", "too_many_positional_args") and _parses(text):
                old_lines = text.splitlines()
                cands = []
                for st in ast.walk(ast.parse(text)):
                    if isinstance(st, ast.stmt):
                        first = min([st.lineno] + [d.lineno for d in getattr(st, "decorator_list", [])])
                        last0 = first + 1
                        for ch in ast.walk(st):
                            e = getattr(ch, "end_lineno", None)
                            if e is not None:
                                last0 = max(last0, e + (1 if END_INCLUSIVE[0] else 0))
                            elif hasattr(ch, "lineno"):
                                last0 = max(last0, ch.lineno)
                        if first == min(ap["del"]):
                            cands.append((first, last0))
                cands = sorted(set(cands))
                range_lines.append([f"R {a} {b} {len(old_lines)} " + " ".join(c11.enc_line(l) for l in old_lines) for a, b in cands])
                range_meta.append((text, ap["del"], cands))
            if problems:
                facts = removal_facts(text, ap) if _parses(text) else None
                fid = None
                if code == "unused_variable" and facts and facts["exact"]:
                    if facts["alone"] and any("parse" in p for p in problems):
                        fid = "C16-removal-empties-block"
                    elif facts["has_call"] and facts["single_target"] and all("behaviour" in p for p in problems):
                        # guard of the finding: `name = <expression with a call>` — removing the statement is the
                        # intended edit for the unused name, the lost call is the defect
                        fid = "C16-unused-assignment-drops-call"
                if code == "unused_ignore" and ap and ap["add"] and len(ap["del"]) == 1 and any("parse" in p or "behaviour" in p for p in problems):
                    # guard of C16-unused-ignore-strip-leaves-text: other text follows the ignore marker inside the comment;
                    # faithful model: the line with every marker removed (rgx.sub)
                    import re as _re
                    rgx = _re.compile(_re.escape(IGNORE) + r"(\[[^\s\]]+\])?")
                    old_line = text.splitlines()[ap["del"][0] - 1]
                    m = rgx.search(old_line)
                    if m and old_line[m.end():].strip() and ap["add"] == [rgx.sub("", old_line) + "\n"]:
                        fid2 = "C16-unused-ignore-strip-leaves-text"
                        if fid2 in known:
                            hist["attributed_" + fid2] += 1
                            rep.known(fid2, known[fid2]["what"])
                            continue
                fid4 = reported_shape_finding(code, text, ap, before[0] if before else None, problems)
                if fid4 in known and ap is not None and new == "".join(
                        [l + "\n" for l in text.splitlines()[: min(ap["del"]) - 1]] + list(ap["add"] or []) + [l + "\n" for l in text.splitlines()[max(ap["del"]):]]):
                    hist["attributed_" + fid4] += 1
                    rep.known(fid4, known[fid4]["what"])
                    break
                # guard of C16-unindented-continuation-line: the deleted range stops before the last line of the
                # statement that starts on its first line (and the extracted line_range agrees: checked below)
                if ap and ap["del"] and any("parse" in p for p in problems) and _parses(text):
                    first = min(ap["del"])
                    ends = [st.end_lineno for st in ast.walk(ast.parse(text)) if isinstance(st, ast.stmt)
                            and min([st.lineno] + [d.lineno for d in getattr(st, "decorator_list", [])]) == first]
                    fid3 = "C16-unindented-continuation-line"
                    if ends and max(ap["del"]) < max(ends) and fid3 in known:
                        pending_range_findings.append((len(range_meta) - 1, fid3, {"kind": "failing-input", "what": f"node replacement ({code}), step {si + 1}",
                                                      "input": {"code": tcode, "fix_lines": lines}, "problems": problems, "before": text, "observed": new}))
                        break
                # faithful model of remove_node: the text is the old one minus exactly the statement's lines
                predicted = None
                if facts and facts["exact"]:
                    ol = [l + "\n" for l in text.splitlines()]
                    predicted = "".join(l for i, l in enumerate(ol, 1) if i not in set(ap["del"]))
                if fid in known and predicted == new:
                    hist["attributed_" + fid] += 1
                    rep.known(fid, known[fid]["what"])
                    continue
                failing.append({"kind": "failing-input", "what": f"node replacement ({code}), step {si + 1}", "input": {"code": tcode, "fix_lines": lines},
                                "problems": problems, "before": text, "observed": new, "removal_facts": facts,
                                "expected": "parses, diagnostic gone, no new diagnostic, same behaviour, one block changed"})
                break

    apply_mismatch = []
    if exe is not None and apply_lines:
        try:
            for (text, ap, new), o in zip(apply_meta, lib.ocaml_run(exe, apply_lines)):
                model_text = "".join("".join(chr(int(c)) for c in l.split(",")) if l else "" for l in o.split("/")) if o else ""
                if model_text != new:
                    apply_mismatch.append({"text": text, "replacement": ap, "impl": new, "model": model_text})
        except RuntimeError as ex:
            rep.violation({"kind": "broken-correspondence", "correspondence": "Gen.ApplyGen.apply_changes vs _apply_changes_to_lines", "detail": str(ex)[-1500:]}, no_failing_input=True)

    range_mismatch = []
    if exe is not None and range_lines:
        try:
            flat = [q for qs in range_lines for q in qs]
            outs = iter(lib.ocaml_run(exe, flat)) if flat else iter(())
            for (text, dels, cands), qs in zip(range_meta, range_lines):
                got = [[int(x) for x in next(outs).split()] for _ in qs]
                if sorted(dels) not in got:
                    range_mismatch.append({"text": text, "deleted": dels, "model_ranges": got, "candidates": cands})
        except RuntimeError as ex:
            rep.violation({"kind": "broken-correspondence", "correspondence": "Gen.RangeGen.line_range vs get_line_range_for_node", "detail": str(ex)[-1500:]}, no_failing_input=True)

    bad_ranges = {id(m) for m in ()}
    mismatch_texts = {m["text"] for m in range_mismatch}
    for idx, fid3, payload in pending_range_findings:
        agrees = exe is not None and 0 <= idx < len(range_meta) and range_meta[idx][0] not in mismatch_texts
        if agrees:
            hist["attributed_" + fid3] += 1
            rep.known(fid3, known[fid3]["what"])
        else:
            failing.append(payload)

    # ---- report ------------------------------------------------------------
    for f in failing[:10]:
        f["how_to_run"] = "./check C16 --replay <this file>"
        rep.violation(f)
    found_input = bool(failing)
    if corr_mismatch and not found_input:
        rep.violation({"kind": "broken-correspondence", "correspondence": "Fixer.fix_step (extracted, iterated) vs check_for_test(apply_changes=True, add_ignores=True) iterated",
                       "input": {"text": corr_mismatch[0]["text"], "cfg": corr_mismatch[0]["cfg"]}, "observed": corr_mismatch[0]["impl_steps"], "model": corr_mismatch[0]["model_steps"]},
                      no_failing_input=True)
    if shift_violations and not found_input:
        rep.violation({"kind": "broken-correspondence", "correspondence": "raw stream of the rewritten file = old raw stream moved down with its lines (as multisets)",
                       "input": {"text": shift_violations[0]["text"], "cfg": BASE_CFG}, "detail": shift_violations[0]}, no_failing_input=True)
    if range_mismatch and not found_input:
        rep.violation({"kind": "broken-correspondence", "correspondence": "Gen.RangeGen.line_range (extracted) vs analysis_lib.get_line_range_for_node (lines deleted by the applied replacement)",
                       "input": range_mismatch[0]}, no_failing_input=True)
    if apply_mismatch and not found_input:
        rep.violation({"kind": "broken-correspondence", "correspondence": "Gen.ApplyGen.apply_changes (extracted) vs BaseNodeVisitor._apply_changes_to_lines",
                       "input": apply_mismatch[0]}, no_failing_input=True)
    if broken_translation and not found_input:
        rep.violation({"kind": "broken-obligation", "theorem": "Gen/ApplyGen.v (translator)", "detail": broken_translation}, no_failing_input=True)
    if proof is not None and not proof.ok and not found_input:
        rep.violation({"kind": "broken-obligation", "theorem": "; ".join(proof.broken), "log": proof.log[-1500:]}, no_failing_input=True)
    for p in harness_problems[:5]:
        rep.harness_error(p)
    rep.coverage.update(
        evaluations=n_eval,
        distinct_nontrivial=len(distinct),
        rule="part A: a generated program with at least one diagnostic, iterated with add-ignores to its fixpoint (or the limit); "
             "part B: a generated function whose first diagnostic carries a node replacement; distinct program texts are counted",
        samples=[{"text": iter_cases[0][0], "steps": len(res_a[0]["texts"]), "final": (res_a[0]["texts"] or [""])[-1]}] if iter_cases else [],
        traces_validated_against_impl=len(model_steps) - len(corr_mismatch),
        iteration_cases=len(iter_cases),
        fix_cases=len(fix_cases),
        model_runs=len(model_steps),
        steps_outside_model=hist_outside[0],
        shift_assumption_violations=len(shift_violations),
        correspondence_mismatches=len(corr_mismatch),
        apply_changes_compared=len(apply_meta),
        apply_changes_mismatches=len(apply_mismatch),
        line_ranges_compared=len(range_meta),
        line_range_mismatches=len(range_mismatch),
        oracle_failures=len(failing),
        input_distribution=dict(hist),
    )
    rep.assumptions = [
        "the raw stream of the rewritten file is the old one moved down with its lines (checked step by step by the differential)",
        "a line holding only a comment does not change the token stream of a file that parsed — true except after a backslash continuation or inside a string literal (known finding, harness guard by tokenize)",
        "node replacements (ast_decompiler, get_line_range_for_node) are outside the model: validated case by case",
    ]
    return rep.finish(
        proof,
        "coq_makefile + make theories/Properties/C16.vo; coqc theories/Properties/C16.v (Print Assumptions)" + ("; coqchk -o" if tier == "thorough" else ""),
        ["Coq 8.16.1 kernel (vm_compute in the witnesses)", "translator harness/translate/lines.py", "extraction (ExtrOcamlBasic) + ocaml/c16_driver.ml",
         "harness/lines_impl.py recorder", "CPython ast / tokenize / exec as oracle"],
    )
