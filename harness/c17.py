"""C17 — format-string diagnostics agree with CPython's formatter.

proof      : Properties/C17.v over Format/Percent.v (pyanalyze's %-checker), Format/PyPercent.v
             (CPython's % algorithm), Format/StrFormat.v (str.format field checks) and the
             constants regenerated from format_strings.py (Gen/FormatRe.v)
tie        : extracted model (OCaml) vs PercentFormatString / parse_format_string / _str_format_impl
             on exhaustive short templates + structured random (template, args) pairs
oracle     : CPython itself: `template % args` and `template.format(*args, **kwargs)` really executed
"""
from __future__ import annotations

import itertools
import json
import math
import random
import signal
from pathlib import Path

import lib
from translate import formatre as tr_formatre
from translate import formatattrs as tr_formatattrs
from translate import formataccept as tr_formataccept
from translate import formatloops as tr_formatloops
from translate import formatsigs as tr_formatsigs

PROP = "C17"

# ---------------------------------------------------------------------------
# encoding of literal arguments for the model


def enc_codes(s):
    if isinstance(s, str):
        cs = [ord(c) for c in s]
    else:
        cs = list(s)
    return f"{len(cs)} " + " ".join(map(str, cs)) if cs else "0"


def enc_obj(o, top=False):
    if isinstance(o, bool):
        return f"B {int(o)}"
    if isinstance(o, int):
        return f"I {o}"
    if isinstance(o, float):
        return f"F {int(math.isfinite(o))}"
    if isinstance(o, str):
        return "S " + enc_codes(o)
    if isinstance(o, bytes):
        return "Y " + enc_codes(o)
    if isinstance(o, (list, dict)):
        return "O 1"
    if o is None or isinstance(o, (complex, tuple, frozenset)):
        return "O 0"
    raise TypeError(f"argument outside the modelled literals: {o!r}")


def enc_key(k):
    if isinstance(k, str):
        return "S " + enc_codes(k)
    if isinstance(k, bytes):
        return "Y " + enc_codes(k)
    return "O"


def enc_args(a):
    if isinstance(a, tuple):
        return f"T {len(a)} " + " ".join(enc_obj(o) for o in a)
    if isinstance(a, dict):
        return f"D {len(a)} " + " ".join(enc_key(k) + " " + enc_obj(v) for k, v in a.items())
    return "X " + enc_obj(a)


def enc_percent_case(t, a):
    is_bytes = isinstance(t, bytes)
    return f"P {int(is_bytes)} {enc_codes(t)} {enc_args(a)}"


# ---------------------------------------------------------------------------
# implementation side (real pyanalyze), canonicalised like ocaml/c17_driver.ml

LINT_KINDS = [
    ("using % combined", "LPctOptions"),
    ("the %b conversion", "LBOnText"),
    ("cannot combine", "LCombine"),
    ("invalid conversion specifier in", "LBadPiece"),
]
ACC_KINDS = [
    ("use of % on string", "ENoSpecifiers"),
    ("% string requires a mapping", "ENeedMapping"),
    ("No value specified", "EMissingKeys"),
    ("too few", "ETooFew"),
    ("too many", "ETooMany"),
    ("%c requires an integer in range", "ECRange"),
    ("%c requires a single character", "ECLen"),
    ("%c requires an integer or character", "ECType"),
    ("'*' special specifier", "EStar"),
    ("%% does not accept", "EPct"),
]
DOCUMENTED_LINT = {"ENoSpecifiers", "LCombine"}


def kind_of(msg, table):
    for prefix, k in table:
        if msg.startswith(prefix):
            return k
    if " conversion specifier accepts integers" in msg:
        return "EInteger"
    if " conversion specifier accepts numbers" in msg:
        return "ENumeric"
    if " accepts only bytes" in msg:
        return "EBytesOnly"
    return "UNKNOWN:" + msg[:40]


def s_codes(s):
    cs = [ord(c) for c in s] if isinstance(s, str) else list(s)
    return ".".join(map(str, cs)) if cs else "e"


def s_spec(cs):
    def fw(x):
        return "-" if x is None else str(x)

    return ",".join(
        [
            str(ord(cs.conversion_type)),
            "-" if cs.mapping_key is None else s_codes(cs.mapping_key),
            "-" if cs.conversion_flags is None else s_codes(cs.conversion_flags),
            fw(cs.field_width),
            fw(cs.precision),
            "-" if cs.length_modifier is None else str(ord(cs.length_modifier)),
        ]
    )


_CTX = None


def ctx():
    global _CTX
    if _CTX is None:
        from pyanalyze.checker import Checker

        _CTX = Checker()
    return _CTX


def impl_percent(t, a, full=True):
    """-> (canonical string in the driver's format, lint kinds, accept kinds, inferred type name)"""
    from pyanalyze.format_strings import PercentFormatString, check_string_format
    from pyanalyze.value import KnownValue

    try:
        fs = PercentFormatString.from_bytes_pattern(t) if isinstance(t, bytes) else PercentFormatString.from_pattern(t)
        lint = [kind_of(m, LINT_KINDS) for m in fs.lint()]
        out = "specs=" + (";".join(s_spec(cs) for cs in fs.specifiers) or "none")
        out += " pieces=" + "|".join(s_codes(p) for p in fs.raw_pieces)
        out += " lint=" + (",".join(lint) or "none")
        acc = None
        typ = None
        if full:
            acc = [kind_of(m, ACC_KINDS) for m in fs.accept(KnownValue(a), ctx())]
            out += " acc=" + (",".join(acc) or "none")
            errs = []
            v, _ = check_string_format(None, t, None, KnownValue(a), lambda node, msg, error_code=None: errs.append(msg), ctx())
            typ = getattr(getattr(v, "typ", None), "__name__", repr(v))
            if len(errs) != len(lint) + len(acc):
                out += f" INCONSISTENT({len(errs)})"
        return out, lint, acc, typ
    except Exception as ex:  # the checker crashed
        return f"CRASH {type(ex).__name__}: {ex}", None, None, None


class _Timeout(Exception):
    pass


def _alarm(signum, frame):
    raise _Timeout()


def cpython_percent(t, a):
    """Really evaluate `t % a`: ('ok', type name) | ('raise', exception name)."""
    signal.signal(signal.SIGALRM, _alarm)
    res = ("timeout", "")
    try:
        signal.setitimer(signal.ITIMER_REAL, 2.0)
        try:
            r = t % a
            res = ("ok", type(r).__name__)
        except _Timeout:
            res = ("timeout", "")
        except MemoryError:
            res = ("raise", "MemoryError")
        except Exception as ex:
            res = ("raise", type(ex).__name__)
        signal.setitimer(signal.ITIMER_REAL, 0)
    except _Timeout:
        signal.setitimer(signal.ITIMER_REAL, 0)
    return res


# ---------------------------------------------------------------------------
# known findings: decidable guard clauses (evaluated on the concrete case)

INT_MAX = 2**31 - 1


def _objs(a):
    if isinstance(a, tuple):
        return list(a)
    if isinstance(a, dict):
        return list(a.values())
    return [a]


def model_fields(line):
    """parse the driver's output line into a dict"""
    d = {}
    for part in line.split(" "):
        if "=" in part:
            k, v = part.split("=", 1)
            d[k] = v
    return d


def guards_percent(t, a, m):
    """m: parsed model output.  Returns the set of known-finding clauses the case falls under."""
    is_bytes = isinstance(t, bytes)
    g = set()
    objs = _objs(a)
    specs = [] if m.get("specs") in (None, "none") else [s.split(",") for s in m["specs"].split(";")]
    pyspecs = None if m.get("pyscan") in (None, "VE") else ([] if m["pyscan"] == "none" else [s.split(",") for s in m["pyscan"].split(";")])
    # scanner-level clauses: the two parsers split the template differently
    scan_agree = (pyspecs is not None and m.get("specs") == m.get("pyscan") and "LBadPiece" not in m.get("lint", "")) or (
        pyspecs is None and "LBadPiece" in m.get("lint", "")
    )
    if not scan_agree:
        txt = t.decode("latin-1") if is_bytes else t
        if "(" in txt:
            g.add("C17-key-parentheses")
        if any(0x660 <= ord(c) <= 0x669 for c in txt):
            g.add("C17-unicode-digits")
        if "." in txt:
            g.add("C17-precision-without-digits")
    used = pyspecs if pyspecs is not None else specs
    if any(s[0] == "99" for s in specs) and not is_bytes and any(type(o) is int and 256 <= o < 0x110000 for o in objs):
        g.add("C17-c-range-str")
    if any(type(o) is int and abs(o) > INT_MAX for o in objs) or any(isinstance(o, float) and not math.isfinite(o) for o in objs) or any(
        f not in ("-", "*") and int(f) > INT_MAX for s in used for f in (s[3], s[4])
    ):
        g.add("C17-numeric-overflow")
    has_key = any(s[1] != "-" for s in specs)
    if is_bytes and has_key:
        g.add("C17-bytes-mapping-keys")
    if has_key and isinstance(a, dict) and any(not isinstance(k, str) for k in a):
        g.add("C17-nonstr-keys-hide-missing")
    dict_flag = isinstance(a, (dict, list)) or (isinstance(a, bytes) and not is_bytes)
    if dict_flag and specs and all(s[0] == "37" for s in specs) and not has_key:
        g.add("C17-escape-only-mapping-arg")
    return g


def combine_justified(m):
    """Does the template (as CPython parses it) really mix keyed specifiers with specifiers that
    take a positional argument ('*' included)?  "%%" takes no argument."""
    if m is None or m.get("pyscan") in (None, "VE", "none"):
        return False
    sp = [x.split(",") for x in m["pyscan"].split(";")]
    return any(x[1] != "-" for x in sp) and any((x[1] == "-" and x[0] != "37") or x[3] == "*" or x[4] == "*" for x in sp)


# clause -> direction it can excuse: "missed" (CPython raises, nothing reported) / "extra" (reported, CPython fine)
CLAUSE_DIRECTIONS = {
    "C17-key-parentheses": {"missed", "extra"},
    "C17-unicode-digits": {"missed"},
    "C17-precision-without-digits": {"extra"},
    "C17-c-range-str": {"extra"},
    "C17-numeric-overflow": {"missed"},
    "C17-bytes-mapping-keys": {"missed", "extra"},
    "C17-nonstr-keys-hide-missing": {"missed"},
    "C17-escape-only-mapping-arg": {"extra"},
}


# ---------------------------------------------------------------------------
# str.format: encoding, implementation side, oracle

PERR_KINDS = [
    ("expected '}' before end of string", "PExpectedClose"),
    ("single '}' encountered", "PSingleClose"),
    ("expected one of ':', '}'", "PExpectedOneOfTwo"),
    ("expected one of", "PExpectedOneOfAll"),
    ("invalid attribute", "PInvalidAttribute"),
    ("expected ']' before end of string", "PExpectedBracket"),
    ("Unknown conversion specifier", "PUnknownConversion"),
    ("unexpected '{' in field name", "PUnexpectedOpen"),
]
FERR_KINDS = [
    ("cannot switch from", "FMix"),
    ("Too few arguments", "FTooFew"),
    ("Numbered argument(s)", "FUnusedNumbered"),
    ("Numbered argument", "FOutOfRange"),
    ("Named argument(s)", "FUnusedNamed"),
    ("Named argument", "FNotGiven"),
]
FORMAT_LINT = {"FUnusedNumbered", "FUnusedNamed"}


def enc_fobj(o):
    if isinstance(o, bool):
        return f"B {int(o)}"
    if isinstance(o, int):
        return f"I {o}"
    if isinstance(o, float):
        return "F"
    if isinstance(o, complex):
        return "C"
    if isinstance(o, str):
        return "S " + enc_codes(o)
    if isinstance(o, bytes):
        return "Y " + enc_codes(o)
    if o is None:
        return "N"
    if isinstance(o, (tuple, list)):
        return f"Q {int(isinstance(o, list))} {len(o)} " + " ".join(enc_fobj(x) for x in o)
    if isinstance(o, dict) and all(type(k) in (str, int) for k in o):
        return f"D {len(o)} " + " ".join((("S " + enc_codes(k)) if isinstance(k, str) else f"I {k}") + " " + enc_fobj(v) for k, v in o.items())
    return "U"


def enc_format_case(t, args, kwargs):
    return (f"F {enc_codes(t)} {len(args)} " + " ".join(enc_fobj(x) for x in args) + f" {len(kwargs)} "
            + " ".join(enc_codes(k) + " " + enc_fobj(v) for k, v in kwargs.items()))


def s_field(f):
    from pyanalyze.format_strings import IndexOrAttribute

    if f.arg_name is None:
        n = "auto"
    elif isinstance(f.arg_name, int):
        n = "#" + str(f.arg_name)
    else:
        n = "n" + s_codes(f.arg_name)
    path = "".join(("[" if k is IndexOrAttribute.index else ".") + s_codes(v) for k, v in f.index_attribute)
    return n + "/" + path + "/" + ("-" if f.conversion is None else str(ord(f.conversion)))


class _FakeVisitor:
    in_union_decomposition = False


class _FakeCtx:
    def __init__(self, vars):
        self.vars = vars
        self.visitor = _FakeVisitor()
        self.errors = []

    def show_error(self, message, error_code=None, **kw):
        self.errors.append((message, getattr(error_code, "name", str(error_code))))


def impl_format(t, args, kwargs):
    """-> (canonical string, list of kinds shown by _str_format_impl, inferred type)"""
    from pyanalyze.format_strings import parse_format_string
    from pyanalyze.implementation import _str_format_impl
    from pyanalyze.value import KnownValue

    try:
        parsed, errors = parse_format_string(t)
        out = "fields=" + (";".join(s_field(f) for f in parsed.iter_replacement_fields()) or "none")
        out += " errs=" + (",".join(f"{p}:{kind_of(m, PERR_KINDS)}" for p, m in errors) or "none")
        c = _FakeCtx({"self": KnownValue(t), "args": KnownValue(tuple(args)), "kwargs": KnownValue(dict(kwargs))})
        v = _str_format_impl(c)
        typ = getattr(getattr(v, "typ", None), "__name__", repr(v))
        if errors:
            kinds = ["parse:" + kind_of(m, PERR_KINDS) for m, _ in c.errors]
        else:
            kinds = [kind_of(m, FERR_KINDS) for m, _ in c.errors]
        if any(code != "incompatible_call" for _, code in c.errors):
            kinds.append("WRONGCODE")
        out += " check=" + (",".join(kinds) or "none")
        return out, kinds, typ
    except Exception as ex:
        return f"CRASH {type(ex).__name__}: {ex}", None, None


def cpython_format(t, args, kwargs):
    if not safe_for_cpython(t):
        return ("skipped", "")
    try:
        r = t.format(*args, **kwargs)
        return ("ok", type(r).__name__)
    except Exception as ex:
        return ("raise", type(ex).__name__)


FORMAT_CLAUSE_DIRECTIONS = {
    "C17-format-auto-manual-mix": {"missed"},
    "C17-format-field-path": {"missed", "extra"},
    "C17-format-spec-not-validated": {"missed"},
}


def guards_format(t, m):
    """Clauses evaluated by the model on CPython's field tree (nopath / plain); when CPython's
    parser rejects the template the clause is decided on pyanalyze's own field list."""
    g = set()
    if m.get("mix") == "1":
        g.add("C17-format-auto-manual-mix")
    fields = [] if m.get("fields") in (None, "none") else m["fields"].split(";")
    if m.get("nopath") == "0" or (m.get("nopath") == "?" and any(f.split("/")[1] for f in fields)):
        g.add("C17-format-field-path")
    if m.get("plain") == "0" or (m.get("plain") == "?" and (":" in t or "!" in t)):
        g.add("C17-format-spec-not-validated")
    return g


F_ALPHABET = "{}0a.[]!r:x+ "  # 13 symbols ("+" and " ": int() accepts them in a number, the field-name grammar does not)


# characters that distinguish "a plain run of decimal digits" (positional index) from everything
# int() / str.isdigit() would also take: sign, blanks, underscore, a superscript digit (isdigit but
# not decimal), an Arabic-Indic digit (decimal)
NAME_ALPHABET = "01+- _a\u00b2\u0663"


def exhaustive_field_name_cases(maxlen):
    """every field name over NAME_ALPHABET up to maxlen, as a single field, after a numbered field,
    inside a nested spec, and passed as a keyword"""
    for n in range(1, maxlen + 1):
        for tup in itertools.product(NAME_ALPHABET, repeat=n):
            name = "".join(tup)
            yield ("{" + name + "}", ["a", "b"], {})
            yield ("{0} {" + name + "}", ["a", "b"], {})
            yield ("{0:>{" + name + "}}", ["a", 5], {})
            yield ("{" + name + "}", [], {name: "v"})


def exhaustive_format_templates(maxlen):
    for n in range(0, maxlen + 1):
        for tup in itertools.product(F_ALPHABET, repeat=n):
            yield "".join(tup)


F_ATOMS = [None, True, False, 0, 1, -1, 2, 255, 256, 300, 0.0, 1.5, 1j, "", "a", "ab", b"", b"a"]
F_CONTAINERS = [(1, 2), [1, "a"], (), [], {"k": 1}, {"a": "x", 0: 5}, ((1, 2), "ab"), [[0], {"k": [1]}], {"k": (1, "a")}]
F_ARG_POOL = F_ATOMS + F_CONTAINERS
F_PATHS = [".real", ".imag", ".numerator", ".denominator", ".upper", ".nope", ".__doc__", "[0]", "[1]", "[5]", "[k]", "[a]", "[-1]",
           "[0][1]", "[k][0]", ".real.imag", "[0].real", ".a.b", ".", "[", "[0]x", ".1", "[]", "[٣]"]
SPEC_ALPHABET = "<=^05,_.dsxcefn%#+z b"


def gen_spec_text(rng):
    r = rng.random()
    if r < 0.3:
        return ""
    if r < 0.45:
        return "".join(rng.choice(SPEC_ALPHABET) for _ in range(rng.choice([1, 2, 3, 4])))
    fill = rng.choice(["", "", "<", ">", "^", "=", "*<", "0>", "x=", "0="])
    sign = rng.choice(["", "", "", "+", "-", " "])
    z = rng.choice(["", "", "", "", "z"])
    alt = rng.choice(["", "", "", "#"])
    zero = rng.choice(["", "", "0"])
    width = rng.choice(["", "", "5", "12", "{}", "{w}", "99999999999999999999"])
    grp = rng.choice(["", "", "", ",", "_", ",_", "_,"])
    prec = rng.choice(["", "", ".2", ".0", ".", ".{}", ".99999999999999999999"])
    typ = rng.choice(["", "", "d", "s", "x", "X", "o", "b", "c", "e", "f", "g", "n", "%", "E", "q", "dd"])
    return fill + sign + z + alt + zero + width + grp + prec + typ


def gen_format_structured(rng):
    nfields = rng.choice([0, 1, 1, 2, 2, 3])
    parts = []
    mode = rng.choice(["auto", "auto", "manual", "named", "mixed"])
    for i in range(nfields):
        parts.append(rng.choice(["", "", "a", " ", "{{", "}}", "x="]))
        m = mode if mode != "mixed" else rng.choice(["auto", "manual", "named"])
        if m == "auto":
            name = ""
        elif m == "manual":
            name = str(rng.choice([0, 0, 0, 1, 1, 2, 3, 10]))
        else:
            name = rng.choice(["a", "a", "b", "w", "zz", "self", "args", "kwargs", "a b", "0a", "+0", "-1", " 0", "0 ", "0_0", "1_", "\u00b2", "\u0663", "00", "+", "0x1", "1e0", "\u0661\u0660"])
        path = rng.choice(F_PATHS) if rng.random() < 0.3 else ""
        conv = rng.choice(["", "", "", "", "!r", "!s", "!a", "!x", "!"])
        spec = gen_spec_text(rng)
        if spec or rng.random() < 0.1:
            spec = ":" + spec
        close = "" if rng.random() < 0.03 else "}"
        parts.append("{" + name + path + conv + spec + close)
    parts.append(rng.choice(["", "", "z", "}", "{", "}}"]) if rng.random() < 0.2 else "")
    t = "".join(parts)
    nargs = rng.choice([0, 1, 1, 2, 2, 3])
    args = [rng.choice(F_ARG_POOL if rng.random() < 0.7 else [1, 5, 2, "a", 1.5]) for _ in range(nargs)]
    kwargs = {k: rng.choice(F_ARG_POOL) for k in rng.sample(["a", "b", "w", "zz", "self", "args", "kwargs"], rng.choice([0, 0, 1, 2]))}
    return t, args, kwargs


SPEC_OBJECTS = [1, -1, 300, True, 1.5, 1j, "a", None, [1], b"a"]


def exhaustive_spec_cases(maxlen):
    """'{:<spec>}' for every spec over SPEC_ALPHABET up to maxlen, against each kind of object."""
    for n in range(1, maxlen + 1):
        for tup in itertools.product(SPEC_ALPHABET, repeat=n):
            yield "{:" + "".join(tup) + "}"

# ---------------------------------------------------------------------------
# generators

ALPHABET = "%()sdc50.*-lx\n"  # 14 symbols, exhaustive stream
EXTRA = " #+hLbraefgiouXEFG1y{}é٣:"
CONVS_TEXT = "diouxXeEfFgGcrsa"


def exhaustive_templates(maxlen):
    for n in range(0, maxlen + 1):
        for tup in itertools.product(ALPHABET, repeat=n):
            yield "".join(tup)


def random_template_chars(rng, n):
    pool = ALPHABET * 3 + EXTRA
    return "".join(rng.choice(pool) for _ in range(n))


INT_POOL = [0, 1, -1, 2, 5, 42, 255, 256, 257, 300, 0x10FFFF, 0x110000, -5, 2**31 - 1]
OBJ_POOL = [True, False, 1.5, 0.0, "", "a", "ab", "x", b"", b"a", b"ab", None, [1], 1j, (1, 2)]
BIG_POOL = [2**31, 2**63, -(2**63) - 1, 2**1024, float("inf"), float("nan")]


def gen_obj(rng, want=None):
    r = rng.random()
    if want == "int" and r < 0.75:
        return rng.choice(INT_POOL)
    if want == "num" and r < 0.75:
        return rng.choice(INT_POOL + [1.5, True, 0.0])
    if want == "str" and r < 0.6:
        return rng.choice(["a", "x", "ab", ""])
    if want == "bytes" and r < 0.6:
        return rng.choice([b"a", b"x", b"ab", b""])
    if r < 0.93:
        return rng.choice(INT_POOL + OBJ_POOL)
    return rng.choice(BIG_POOL)


def gen_spec(rng, is_bytes, mapping):
    conv = rng.choice(CONVS_TEXT + ("b" if is_bytes or rng.random() < 0.1 else "") + ("%" if rng.random() < 0.15 else ""))
    key = None
    if mapping and rng.random() < 0.9:
        key = rng.choice(["a", "b", "k1", "a b"] + (["", "a(b)c", "a)"] if rng.random() < 0.05 else []))
    flags = "".join(rng.choice("#0- +") for _ in range(rng.choice([0, 0, 0, 1, 2])))
    width = rng.choice(["", "", "", "5", "10", "*", "0"] + (["99999999999999999999"] if rng.random() < 0.03 else []))
    prec = rng.choice(["", "", "", ".2", ".*", ".0"] + ([".", ".99999999999"] if rng.random() < 0.04 else []))
    lm = rng.choice(["", "", "", "l", "h", "L"])
    if conv == "%" and rng.random() < 0.8:
        return "%%", None, []
    want = []
    if width == "*":
        want.append("int")
    if prec == ".*":
        want.append("int")
    if conv in "diouxX":
        want.append("int" if conv in "oxX" else "num")
    elif conv in "eEfFgG":
        want.append("num")
    elif conv == "c":
        want.append(rng.choice(["int", "bytes" if is_bytes else "str"]))
    elif conv in "sb" and is_bytes:
        want.append("bytes")
    elif conv != "%":
        want.append(None)
    txt = "%" + ("(" + key + ")" if key is not None else "") + flags + width + prec + lm + conv
    return txt, key, want


def gen_structured(rng):
    """A (template, args) pair built from specifiers, mostly well-formed, then perturbed."""
    is_bytes = rng.random() < 0.3
    mapping = rng.random() < 0.3
    nspec = rng.choice([0, 1, 1, 1, 2, 2, 3])
    parts = []
    wants = []
    keys = []
    for _ in range(nspec):
        parts.append(rng.choice(["", "", "a", " ", "x=", "{", "\n"]))
        txt, key, want = gen_spec(rng, is_bytes, mapping)
        parts.append(txt)
        if key is not None:
            keys.append((key, want[-1] if want else None))
        wants += want
    parts.append(rng.choice(["", "", "z", "\n", "%" if rng.random() < 0.1 else ""]))
    t = "".join(parts)
    r = rng.random()
    if mapping and r < 0.8:
        d = {}
        for k, w in keys:
            if rng.random() < 0.9:
                kk = k.encode("latin-1") if (is_bytes and rng.random() < 0.7) else k
                d[kk] = gen_obj(rng, w)
        if rng.random() < 0.15:
            d[rng.choice(["zz", 1, b"a", "a"])] = gen_obj(rng)
        a = d
    elif r < 0.75 or mapping:
        objs = [gen_obj(rng, w) for w in wants]
        p = rng.random()
        if p < 0.12 and objs:
            objs.pop(rng.randrange(len(objs)))
        elif p < 0.24:
            objs.insert(rng.randrange(len(objs) + 1), gen_obj(rng))
        a = tuple(objs)
        if len(objs) == 1 and rng.random() < 0.5 and not isinstance(objs[0], tuple):
            a = objs[0]
    else:
        a = rng.choice([(), {}, 5, "a", b"a", [1], None, {"a": 1}, {1: 2}, (1,), 1.5, True])
    if is_bytes:
        try:
            t = t.encode("ascii")
        except UnicodeEncodeError:
            t = t.encode("latin-1", "replace")
    return t, a


def safe_for_cpython(t):
    """CPython would allocate width/precision many characters: keep explicit numbers small or
    absurdly large (the latter raise before allocating)."""
    import re

    txt = t.decode("latin-1") if isinstance(t, bytes) else t
    for m in re.finditer(r"[0-9٠-٩]+", txt):
        v = int(m.group(0))
        if 2000 < v < 10**19:
            return False
    return True


def safe_args(t, a):
    """`*` takes the width/precision from an int argument: same restriction."""
    txt = t.decode("latin-1") if isinstance(t, bytes) else t
    if "*" not in txt:
        return True
    return not any(type(o) is int and 2000 < abs(o) < 2**63 for o in _objs(a))


# ---------------------------------------------------------------------------


def gen_files():
    return {"FormatRe.v": tr_formatre.translate(str(lib.REPO)), "FormatAttrs.v": tr_formatattrs.translate(),
            "FormatAccept.v": tr_formataccept.translate(str(lib.REPO)),
            "FormatLoops.v": tr_formatloops.translate(str(lib.REPO)),
            "FormatSigs.v": tr_formatsigs.translate(str(lib.REPO))}


def load_corpus():
    p = lib.VERIF / "harness" / "corpus" / "C17.json"
    if not p.exists():
        return []
    return json.loads(p.read_text())


def dec_case(c):
    """JSON corpus/replay form -> python objects"""

    def dv(x):
        if isinstance(x, dict) and "__bytes__" in x:
            return bytes(x["__bytes__"])
        if isinstance(x, dict) and "__tuple__" in x:
            return tuple(dv(y) for y in x["__tuple__"])
        if isinstance(x, dict) and "__dict__" in x:
            return {dv(k): dv(v) for k, v in x["__dict__"]}
        if isinstance(x, dict) and "__float__" in x:
            return float(x["__float__"])
        if isinstance(x, dict) and "__complex__" in x:
            return complex(x["__complex__"])
        if isinstance(x, list):
            return [dv(y) for y in x]
        return x

    return {k: dv(v) for k, v in c.items()}


def enc_case(x):
    if isinstance(x, bytes):
        return {"__bytes__": list(x)}
    if isinstance(x, tuple):
        return {"__tuple__": [enc_case(y) for y in x]}
    if isinstance(x, dict):
        return {"__dict__": [[enc_case(k), enc_case(v)] for k, v in x.items()]}
    if isinstance(x, float):
        return {"__float__": repr(x)}
    if isinstance(x, complex):
        return {"__complex__": repr(x)}
    if isinstance(x, list):
        return [enc_case(y) for y in x]
    return x


def src_literal(o):
    """Python source of a literal argument, or None when it has none (inf/nan)."""
    if isinstance(o, float) and not math.isfinite(o):
        return None
    if isinstance(o, (tuple, list)):
        parts = [src_literal(x) for x in o]
        if any(p is None for p in parts):
            return None
        if isinstance(o, tuple):
            return "(" + ", ".join(parts) + ("," if len(parts) == 1 else "") + ")"
        return "[" + ", ".join(parts) + "]"
    if isinstance(o, dict):
        parts = [(src_literal(k), src_literal(v)) for k, v in o.items()]
        if any(a is None or b is None for a, b in parts):
            return None
        return "{" + ", ".join(f"{a}: {b}" for a, b in parts) + "}"
    return repr(o)


REVEAL_RE = None


def revealed(msg):
    """('literal', value) | ('type', name) from a reveal_type diagnostic"""
    import ast as _ast
    import re as _re

    m = _re.search(r"Revealed type is '(.*)' \(code: reveal_type\)", msg, _re.S)
    if not m:
        return ("unparsed", msg[:80])
    txt = m.group(1)
    if txt.startswith("Literal[") and txt.endswith("]"):
        try:
            return ("literal", _ast.literal_eval(txt[8:-1]))
        except Exception:
            return ("unparsed", txt[:80])
    return ("type", txt)


def case_expr(c):
    if c[0] == "percent":
        a = src_literal(c[2])
        if a is None:
            return None
        if isinstance(c[2], (tuple, dict)):
            return f"{c[1]!r} % {a}"
        return f"{c[1]!r} % ({a})"
    if c[0] == "format":
        parts = [src_literal(x) for x in c[2]]
        if all(k.isidentifier() for k in c[3]):
            parts += [f"{k}={src_literal(v)}" for k, v in c[3].items()]
        elif c[3]:
            parts.append("**" + src_literal(dict(c[3])))
        if any(p is None or p.endswith("=None") and False for p in parts):
            return None
        return f"{c[1]!r}.format({', '.join(parts)})"
    return c[1]  # fstring: already source text


def end_to_end(cases, direct):
    """Run a sample of the cases through the real checker (NameCheckVisitor on a module with one
    `reveal_type(<expr>)` statement per case).  Checks (a) 'reported at all' against the direct
    calls, (b) the revealed type against the value obtained by really evaluating the expression
    (a Literal must be equal to it, a type must be its type).
    Returns (n_statements, report mismatches, n_types_checked, type mismatches)."""
    import io
    import contextlib
    from pyanalyze.test_name_check_visitor import TestNameCheckVisitorBase
    from pyanalyze.error_code import ErrorCode

    lines = ["from typing_extensions import reveal_type", "def f():"]
    index = {}
    for ci, c in cases:
        expr = case_expr(c)
        if expr is None or "\n" in expr:
            continue
        if c[0] != "fstring" and not (safe_for_cpython(c[1]) and (c[0] != "percent" or safe_args(c[1], c[2]))):
            continue
        lines.append(f"    reveal_type({expr})")
        index[len(lines)] = (ci, expr, c[0])
    code = "\n".join(lines) + "\n"
    buf = io.StringIO()
    with contextlib.redirect_stderr(buf), contextlib.redirect_stdout(buf):
        errs = TestNameCheckVisitorBase()._run_str(code, fail_after_first=False, settings={ErrorCode.use_fstrings: False, ErrorCode.duplicate_dict_key: False})
    by_line = {}
    for e in errs:
        by_line.setdefault(e["lineno"], []).append(e)
    mismatches = []
    type_mismatches = []
    types_checked = 0
    for ln, (ci, expr, kind) in index.items():
        es = by_line.get(ln, [])
        codes = [e["code"].name for e in es if e["code"].name != "reveal_type"]
        rv = [revealed(e["message"]) for e in es if e["code"].name == "reveal_type"]
        raised = False
        try:
            actual = eval(expr, {})  # the oracle: CPython itself
        except Exception:
            raised = True
        if kind != "fstring":
            want = direct[ci]
            got = any(c in ("bad_format_string", "incompatible_call") for c in codes)
            other = [c for c in codes if c not in ("bad_format_string", "incompatible_call")]
            if got != want or other:
                # the call machinery around the checker (argument binding, signatures) disagrees with
                # the direct call: a concrete failing input when CPython sides with the direct call
                if (got or other) and not want and not raised:
                    mismatches.append((-2, expr, codes, "reported end to end (not by the format checker itself) but CPython evaluates it fine"))
                elif want and not got and raised:
                    mismatches.append((-2, expr, codes, "CPython raises and the format checker reports it, but nothing is reported end to end"))
                else:
                    mismatches.append((ci, expr, codes, want))
        if kind == "fstring":
            # an f-string with literal operands: formatting raises  <=>  bad_format_string is reported
            got = "bad_format_string" in codes
            other = [c for c in codes if c != "bad_format_string"]
            if got != raised or other:
                mismatches.append((ci, expr, codes, raised))
        if raised:
            continue
        types_checked += 1
        if len(rv) != 1:
            type_mismatches.append((ci, expr, rv, repr(actual)[:60]))
        elif rv[0][0] == "literal":
            if type(rv[0][1]) is not type(actual) or rv[0][1] != actual:
                type_mismatches.append((ci, expr, rv, repr(actual)[:60]))
        elif rv[0][0] != "type" or rv[0][1] != type(actual).__name__:
            type_mismatches.append((ci, expr, rv, repr(actual)[:60]))
    return len(index), mismatches, types_checked, type_mismatches


# keyword / field names that collide with something on the way to _str_format_impl: parameter names
# of the hand-written signatures, names commonly used for templates and mappings, Python keywords
# (legal field names, passable through **{...} only), dunder-looking names, non-identifiers
import keyword as _keyword

CALL_NAME_POOL = ["self", "args", "kwargs", "format_string", "template", "mapping", "fmt", "cls", "ctx", "x", "name",
                  "class", "def", "if", "None", "True", "lambda", "__class__", "__init__", "__format__", "__self__", "_", "a b", "0a", "+0"]


def _kw_source(kwargs, force_star=False):
    if not kwargs:
        return []
    simple = all(k.isidentifier() and not _keyword.iskeyword(k) for k in kwargs)
    if simple and not force_star:
        return [f"{k}={src_literal(v)}" for k, v in kwargs.items()]
    return ["**" + src_literal(dict(kwargs))]


def gen_callform(rng):
    """A formatting *call* written in one of the forms Python offers, with keyword names from
    CALL_NAME_POOL.  Returns (source, modelled, description): `modelled` = pyanalyze checks the
    template in this form (then report <=> raise, up to the 'not used' lint); otherwise only
    'no report when CPython formats fine' is required."""
    form = rng.choice(["bound", "bound", "unbound", "unbound", "format_map", "mod_op", "mod_dunder", "mod_unbound", "operator_mod"])
    if form in ("bound", "unbound", "format_map"):
        npos = 0 if form == "format_map" else rng.choice([0, 0, 1, 2])
        numbering = rng.choice(["auto", "manual"])
        names = rng.sample(CALL_NAME_POOL, rng.choice([1, 1, 2]))
        parts = []
        for i in range(npos):
            parts.append("{}" if numbering == "auto" else "{" + str(i) + "}")
        for n in names:
            parts.append("{" + n + rng.choice(["", "", "", "!r", ".real"]) + "}")
        rng.shuffle(parts)
        if numbering == "auto":  # keep automatic fields in order (they are interchangeable)
            pass
        t = " ".join(parts)
        args = [rng.choice([1, "s", 2.5]) for _ in range(npos)]
        kwargs = {n: rng.choice([1, 3, 2.5]) for n in names}
        p = rng.random()
        if p < 0.2 and kwargs:
            kwargs.pop(rng.choice(list(kwargs)))  # KeyError
        elif p < 0.3:
            kwargs[rng.choice(["unused_kw", "self", "args"])] = 0  # 'not used' lint (or used, if it is a field)
        elif p < 0.4 and args:
            args.pop()  # IndexError
        force_star = rng.random() < 0.3
        if form == "bound":
            src = f"{t!r}.format({', '.join([src_literal(a) for a in args] + _kw_source(kwargs, force_star))})"
        elif form == "unbound":
            src = f"str.format({', '.join([repr(t)] + [src_literal(a) for a in args] + _kw_source(kwargs, force_star))})"
        else:
            src = f"{t!r}.format_map({src_literal(dict(kwargs))})"
        return src, form != "format_map", form
    # the % operator and its spellings
    names = rng.sample(CALL_NAME_POOL, rng.choice([1, 2]))
    if rng.random() < 0.5:
        t = " ".join("%(" + n + ")s" for n in names if ")" not in n)
        a = {n: rng.choice([1, "v"]) for n in names}
        if rng.random() < 0.2 and a:
            a.pop(rng.choice(list(a)))
    else:
        k = rng.choice([1, 2])
        t = " ".join(rng.choice(["%s", "%d", "%r"]) for _ in range(k))
        a = tuple(rng.choice([1, 2, "v"]) for _ in range(k + rng.choice([0, 0, 0, -1, 1])))
    if not t:
        t = "%s"
        a = (1,)
    asrc = src_literal(a)
    if form == "mod_op":
        return f"{t!r} % {asrc}", True, form
    if form == "mod_dunder":
        return f"{t!r}.__mod__({asrc})", False, form
    if form == "mod_unbound":
        return f"str.__mod__({t!r}, {asrc})", False, form
    return f"operator.mod({t!r}, {asrc})", False, form


def check_callforms(cases):
    """Run the call forms through NameCheckVisitor and CPython.  Returns (n, failures)."""
    import io
    import contextlib
    from pyanalyze.test_name_check_visitor import TestNameCheckVisitorBase
    from pyanalyze.error_code import ErrorCode

    lines = ["import operator", "def f():"]
    index = {}
    for src, modelled, form in cases:
        lines.append(f"    print({src})")
        index[len(lines)] = (src, modelled, form)
    buf = io.StringIO()
    with contextlib.redirect_stderr(buf), contextlib.redirect_stdout(buf):
        errs = TestNameCheckVisitorBase()._run_str("\n".join(lines) + "\n", fail_after_first=False,
                                                   settings={ErrorCode.use_fstrings: False, ErrorCode.duplicate_dict_key: False, ErrorCode.missing_f: False})
    by_line = {}
    for e in errs:
        by_line.setdefault(e["lineno"], []).append(e)
    failures = []
    hist = {}
    for ln, (src, modelled, form) in index.items():
        es = by_line.get(ln, [])
        msgs = [(e["code"].name, e["message"].strip().splitlines()[0] if e["message"].strip() else "") for e in es]
        try:
            eval(src, {"operator": __import__("operator")})
            raised = None
        except Exception as ex:
            raised = type(ex).__name__
        nonlint = [m for m in msgs if "were not used" not in m[1]]
        _bump(hist, form + ("/raise" if raised else "/ok") + ("/reported" if msgs else "/silent"))
        if raised is None and nonlint:
            failures.append((src, f"reported {nonlint[0][0]}: {nonlint[0][1][:90]} but CPython evaluates the call fine", form))
        elif raised is not None and modelled and not msgs:
            failures.append((src, f"CPython raises {raised}, nothing reported", form))
    return len(index), failures, hist


# ---------------------------------------------------------------------------
# syntactic routes by which a template reaches a formatting operation

PERCENT_ROUTES = ["binop", "augassign", "name", "global", "class_attr", "tuple_subscript", "dict_subscript", "ifexp",
                  "walrus", "default_param", "chained", "in_fstring", "args_name", "augassign_subscript", "augassign_global",
                  "augassign_attr", "nested_def", "lambda", "comprehension", "return_value"]
FORMAT_ROUTES = ["call", "bound_var", "name", "walrus", "ifexp", "getattr", "in_fstring", "class_attr", "tuple_subscript"]


def route_percent(route, i, T, A):
    """-> (module-level lines, body lines of case_i, expression whose revealed type tells whether
    the template is statically known at the point of use (None = the literal itself))"""
    g, b = [], []
    if route == "binop":
        b = [f"r = {T} % {A}"]
        known = None
    elif route == "augassign":
        b = [f"fmt = {T}", "reveal_type(fmt)", f"fmt %= {A}", "r = fmt"]
        known = "fmt"
    elif route == "name":
        b = [f"fmt = {T}", "reveal_type(fmt)", f"r = fmt % {A}"]
        known = "fmt"
    elif route == "global":
        g = [f"G_{i} = {T}"]
        b = [f"reveal_type(G_{i})", f"r = G_{i} % {A}"]
        known = "g"
    elif route == "class_attr":
        g = [f"class C_{i}:", f"    fmt = {T}"]
        b = [f"reveal_type(C_{i}.fmt)", f"r = C_{i}.fmt % {A}"]
        known = "a"
    elif route == "tuple_subscript":
        b = [f"tpl = ({T}, 0)", "reveal_type(tpl[0])", f"r = tpl[0] % {A}"]
        known = "s"
    elif route == "dict_subscript":
        b = [f"d = {{'k': {T}}}", "reveal_type(d['k'])", f"r = d['k'] % {A}"]
        known = "s"
    elif route == "ifexp":
        b = [f"r = ({T} if len('a') == 1 else {T}) % {A}"]
        known = None
    elif route == "walrus":
        b = [f"r = (fmt := {T}) % {A}", "print(fmt)"]
        known = None
    elif route == "default_param":
        b = [f"def h(fmt={T}):", "    reveal_type(fmt)", f"    return fmt % {A}", "r = h()"]
        known = "p"
    elif route == "chained":
        b = [f"fmt = {T}", f"first = fmt % {A}", "reveal_type(first)", "r = first % ()"]
        known = "chained"
    elif route == "in_fstring":
        b = [f"r = f'<{{{T} % {A}}}>'"]
        known = None
    elif route == "args_name":
        b = [f"a = {A}", f"r = {T} % a"]
        known = None
    elif route == "augassign_subscript":
        b = [f"box = [{T}]", f"box[0] %= {A}", "r = box[0]"]
        known = "never"  # visit_AugAssign evaluates only Name targets; other targets are Any by design
    elif route == "augassign_global":
        g = [f"H_{i} = {T}"]
        b = [f"fmt = H_{i}", "reveal_type(fmt)", f"fmt %= {A}", "r = fmt"]
        known = "fmt"
    elif route == "augassign_attr":
        g = [f"class D_{i}:", f"    fmt = {T}"]
        b = [f"o = D_{i}()", f"o.fmt %= {A}", "r = o.fmt"]
        known = "never"
    elif route == "nested_def":
        b = [f"fmt = {T}", "def inner():", "    reveal_type(fmt)", f"    return fmt % {A}", "r = inner()"]
        known = "n"
    elif route == "lambda":
        b = [f"r = (lambda: {T} % {A})()"]
        known = None
    elif route == "comprehension":
        b = [f"r = [{T} % {A} for _i in range(1)][0]"]
        known = None
    else:  # return_value
        b = [f"def h():", f"    return {T} % {A}", "r = h()"]
        known = None
    return g, b, known


def route_format(route, i, T, call_args):
    g, b = [], []
    ca = ", ".join(call_args)
    if route == "call":
        b = [f"r = {T}.format({ca})"]
        known = None
    elif route == "bound_var":
        b = [f"g = {T}.format", f"r = g({ca})"]
        known = None
    elif route == "name":
        b = [f"fmt = {T}", "reveal_type(fmt)", f"r = fmt.format({ca})"]
        known = "fmt"
    elif route == "walrus":
        b = [f"r = (fmt := {T}).format({ca})", "print(fmt)"]
        known = None
    elif route == "ifexp":
        b = [f"r = ({T} if len('a') == 1 else {T}).format({ca})"]
        known = None
    elif route == "getattr":
        b = [f"r = getattr({T}, 'format')({ca})"]
        known = "getattr"
    elif route == "in_fstring":
        b = [f"r = f'<{{{T}.format({ca})}}>'"]
        known = None
    elif route == "class_attr":
        g = [f"class F_{i}:", f"    fmt = {T}"]
        b = [f"reveal_type(F_{i}.fmt)", f"r = F_{i}.fmt.format({ca})"]
        known = "a"
    else:  # tuple_subscript
        b = [f"tpl = ({T}, 0)", "reveal_type(tpl[0])", f"r = tpl[0].format({ca})"]
        known = "s"
    return g, b, known


def check_routes(rng, n_percent, n_format, known_ids=()):
    """Clean (template, args) pairs — the format checker itself agrees with CPython on them — sent
    through every syntactic route; each route is one function, executed under CPython and analysed
    by NameCheckVisitor.  Where the template is statically known at the point of use (its revealed
    type is a Literal) the statement must be reported iff it raises; otherwise it must at least
    not be reported when it runs fine.  Returns (n_functions, failures, histogram)."""
    import io
    import contextlib
    from pyanalyze.test_name_check_visitor import TestNameCheckVisitorBase
    from pyanalyze.error_code import ErrorCode

    clean = []
    tries = 0
    while len(clean) < n_percent and tries < n_percent * 40:
        tries += 1
        t, a = gen_structured(rng)
        if not (safe_for_cpython(t) and safe_args(t, a)) or src_literal(a) is None or "\n" in repr(t):
            continue
        _, lint, acc, _typ = impl_percent(t, a)
        if lint is None:
            continue
        py = cpython_percent(t, a)
        nonlint = [k for k in list(lint) + list(acc) if k not in DOCUMENTED_LINT]
        if py[0] not in ("ok", "raise") or bool(nonlint) != (py[0] == "raise") or (py[0] == "ok" and (lint or acc)):
            continue
        asrc = src_literal(a) if isinstance(a, (tuple, dict)) else "(" + src_literal(a) + ")"
        clean.append(("percent", repr(t), asrc, py[0] == "raise"))
    cleanf = []
    tries = 0
    while len(cleanf) < n_format and tries < n_format * 40:
        tries += 1
        t, args, kwargs = gen_format_structured(rng)
        if not safe_for_cpython(t) or "\n" in repr(t):
            continue
        parts = [src_literal(x) for x in args]
        if any(p is None for p in parts):
            continue
        parts += _kw_source(kwargs)
        _, fk, _typ = impl_format(t, args, kwargs)
        if fk is None:
            continue
        py = cpython_format(t, args, kwargs)
        nonlint = [k for k in fk if k not in FORMAT_LINT]
        if py[0] not in ("ok", "raise") or bool(nonlint) != (py[0] == "raise") or (py[0] == "ok" and fk):
            continue
        cleanf.append(("format", repr(t), parts, py[0] == "raise"))
    # fixed shapes (always): the round-5 demo
    clean = [("percent", repr("%d items"), "('three')", True), ("percent", repr("%d %d"), "(1,)", True),
             ("percent", repr(b"%s"), "('x')", True), ("percent", repr("%(a)s and %(b)s"), "{'a': 1}", True),
             ("percent", repr("%d %s"), "(1, 'a')", False), ("percent", repr(b"%d|%s"), "(3, b'y')", False)] + clean
    header = ["from typing_extensions import reveal_type"]
    funcs = []
    lines = list(header)
    glob_lines = []
    idx = 0
    for c in clean + cleanf:
        routes = PERCENT_ROUTES if c[0] == "percent" else FORMAT_ROUTES
        for route in routes:
            idx += 1
            if c[0] == "percent":
                g, b, known = route_percent(route, idx, c[1], c[2])
            else:
                g, b, known = route_format(route, idx, c[1], c[2])
            glob_lines += g
            funcs.append((idx, c, route, b, known))
    lines += glob_lines
    meta = {}
    for idx, c, route, b, known in funcs:
        start = len(lines) + 1
        lines.append(f"def case_{idx}():")
        lines += ["    " + x for x in b]
        lines.append("    print(r)")
        meta[idx] = (start, len(lines), c, route, b, known)
    code = "\n".join(lines) + "\n"
    buf = io.StringIO()
    with contextlib.redirect_stderr(buf), contextlib.redirect_stdout(buf):
        errs = TestNameCheckVisitorBase()._run_str(code, fail_after_first=False,
                                                   settings={ErrorCode.use_fstrings: False, ErrorCode.duplicate_dict_key: False, ErrorCode.missing_f: False})
        ns = {}
        exec(compile(code, "<routes>", "exec"), ns)
        ns["reveal_type"] = lambda x: x
        outcomes = {}
        for idx in meta:
            try:
                ns[f"case_{idx}"]()
                outcomes[idx] = None
            except Exception as ex:
                outcomes[idx] = type(ex).__name__
    failures = []
    hist = {}
    FORMAT_CODES = ("bad_format_string", "incompatible_call")
    for idx, (start, end, c, route, b, known) in meta.items():
        es = [e for e in errs if start <= e["lineno"] <= end]
        reported = [e["code"].name for e in es if e["code"].name in FORMAT_CODES and "were not used" not in e["message"]]
        reveals = [revealed(e["message"]) for e in es if e["code"].name == "reveal_type"]
        raised = outcomes[idx]
        want_raise = c[3]
        if route == "chained":
            # (T % A) % (): the second operation sees a non-literal str; only the first is comparable
            is_known = True
            expect_raise = want_raise
            if raised is not None and not want_raise:
                continue  # the formatted result itself contained a '%': not this case's business
        else:
            is_known = known is None or (known != "never" and bool(reveals) and reveals[0][0] == "literal")
            expect_raise = raised is not None
            if (raised is not None) != want_raise:
                continue  # the route changed what is executed (e.g. a scalar tuple argument): skip
        _bump(hist, f"{c[0]}/{route}/" + ("known" if is_known else "unknown") + ("/raise" if expect_raise else "/ok") + ("/reported" if reported else "/silent"))
        src = "; ".join(b)
        if expect_raise and is_known and not reported:
            failures.append((f"[{route}] {src}", f"CPython raises {raised}; the template is statically known here, nothing reported", route))
        elif not expect_raise and reported:
            failures.append((f"[{route}] {src}", f"reported {reported[0]} but the statements run fine under CPython", route))
    return len(meta), failures, hist


def gen_fstring(rng):
    """f-string source with literal operands (JoinedStr / FormattedValue)."""
    parts = []
    for _ in range(rng.choice([1, 1, 2, 3])):
        parts.append(rng.choice(["", "a", " ", "{{", "}}", "x="]))
        v = rng.choice([1, -1, 255, True, None, 1.5, "s", "ab", [1, 2], (1,), 1j])
        conv = rng.choice(["", "", "", "!r", "!s", "!a"])
        spec = rng.choice(["", "", "", ":>5", ":d", ":5.2f", ":x", ":{3}", ":>{5}", ":s", ":,", ":%", ":c", ":#x", ":05"])
        parts.append("{" + repr(v) + conv + spec + "}")
    body = "".join(parts)
    if "'" in body and '"' in body:
        body = body.replace('"', "'")
    q = '"' if "'" in body else "'"
    src = "f" + q + body + q
    try:
        compile(src, "<f>", "eval")
    except SyntaxError:
        return None
    return src


def make_cases(tier, rng, stream):
    """The generated streams.  `stream` = 'main' (everything that is not sharded) or
    ('pct', k, n) / ('fmt', k, n) / ('spec', k, n): shard k of n of an exhaustive enumeration."""
    cases = []
    scan_args = [(), (1,), {"a": 1}, 1]
    fargs = [([], {}), ([1], {}), ([1, "s"], {}), ([1], {"a": 2}), ([], {"a": [1, 2]})]
    if stream == "main":
        for c in load_corpus():
            c = dec_case(c)
            if c.get("kind", "percent") == "percent":
                cases.append(("percent", c["template"], c["args"], True))
            else:
                cases.append(("format", c["template"], c["args"], c["kwargs"]))
        for _ in range(8000 if tier == "quick" else 60000):
            t, a = gen_structured(rng)
            cases.append(("percent", t, a, True))
        for _ in range(6000 if tier == "quick" else 80000):
            t = random_template_chars(rng, rng.choice([4, 5, 6, 7, 8, 10]))
            a = rng.choice(scan_args + [(1, 1), {"a": 1, "b": "x"}])
            if rng.random() < 0.25:
                try:
                    t = t.encode("ascii")
                except UnicodeEncodeError:
                    pass
            cases.append(("percent", t, a, True))
        for _ in range(10000 if tier == "quick" else 100000):
            t, args, kwargs = gen_format_structured(rng)
            cases.append(("format", t, args, kwargs))
        for _ in range(3000 if tier == "quick" else 40000):
            t = "".join(rng.choice(F_ALPHABET * 2 + " 1b٣\n+-_\u00b2") for _ in range(rng.choice([5, 6, 7, 8, 10])))
            args, kwargs = rng.choice(fargs)
            cases.append(("format", t, args, kwargs))
        return cases
    kind, k, n = stream
    if kind == "pct":
        maxlen = 4 if tier == "quick" else 6
        for i, t in enumerate(exhaustive_templates(maxlen)):
            if i % n != k:
                continue
            cases.append(("percent", t, scan_args[i % 4], False))
            if len(t) <= 5:
                cases.append(("percent", t.encode("ascii"), scan_args[(i + 1) % 4], False))
    elif kind == "fname":
        maxlen = 3 if tier == "quick" else 5
        for i, c in enumerate(exhaustive_field_name_cases(maxlen)):
            if i % n != k:
                continue
            cases.append(("format", c[0], c[1], c[2]))
    elif kind == "fmt":
        maxlen = 4 if tier == "quick" else 6
        for i, t in enumerate(exhaustive_format_templates(maxlen)):
            if i % n != k:
                continue
            args, kwargs = fargs[i % len(fargs)]
            cases.append(("format", t, args, kwargs))
    else:
        maxlen = 2 if tier == "quick" else 4
        for i, t in enumerate(exhaustive_spec_cases(maxlen)):
            if i % n != k:
                continue
            for j, o in enumerate(SPEC_OBJECTS):
                if tier == "thorough" and maxlen == 4 and len(t) == 7 and (i + j) % 3:
                    continue
                cases.append(("format", t, [o], {}))
    return cases


# ---------------------------------------------------------------------------
# the % operator on typed (non-literal) arguments

TY_NAMES = ["int", "bool", "float", "str", "bytes", "other", "any"]
TY_SAMPLES = {
    "int": [0, 5, 300, -1, True], "bool": [True, False], "float": [1.5, 0.0], "str": ["a", "ab", ""],
    "bytes": [b"a", b"ab", b""], "other": [None], "any": [5, "a", b"a", 1.5, None],
}


def gen_aval(rng, want):
    r = rng.random()
    if r < 0.3:
        return ("K", gen_obj(rng, want))
    if r < 0.75 and want in ("int", "num", "str", "bytes"):
        return ("A", {"int": "int", "num": rng.choice(["int", "float", "bool"]), "str": "str", "bytes": "bytes"}[want])
    return ("A", rng.choice(TY_NAMES))


def gen_typed_case(rng):
    is_bytes = rng.random() < 0.25
    parts, wants = [], []
    for _ in range(rng.choice([1, 1, 2, 2, 3])):
        parts.append(rng.choice(["", "a", " ", "%%"]))
        txt, key, want = gen_spec(rng, is_bytes, False)
        if "9999" in txt:
            continue
        parts.append(txt)
        wants += want
    t = "".join(parts)
    elems = []
    for w in wants:
        n = rng.choice([1, 1, 1, 2])
        elems.append([gen_aval(rng, w) for _ in range(n)])
    p = rng.random()
    if p < 0.1 and elems:
        elems.pop(rng.randrange(len(elems)))
    elif p < 0.2:
        elems.insert(rng.randrange(len(elems) + 1), [gen_aval(rng, None)])
    if len(elems) == 1 and len(elems[0]) == 1 and elems[0][0] == ("A", "any") and rng.random() < 0.5:
        ta = ("OA",)  # AnyValue: assignable to tuple, so it is treated like a tuple of unknown contents
    elif rng.random() < 0.08:
        ta = ("O",)
    elif len(elems) == 1 and len(elems[0]) == 1 and rng.random() < 0.4 and elems[0][0] != ("A", "any") and not (elems[0][0][0] == "K" and isinstance(elems[0][0][1], tuple)):
        ta = ("S", elems[0][0])
    else:
        ta = ("T", elems)
    if is_bytes:
        t = t.encode("latin-1", "replace")
    return t, ta


def enc_aval(a):
    return "K " + enc_obj(a[1]) if a[0] == "K" else f"A {TY_NAMES.index(a[1])}"


def enc_typed_case(t, ta):
    head = f"Y {int(isinstance(t, bytes))} {enc_codes(t)} "
    if ta[0] in ("O", "OA"):
        return head + "O"
    if ta[0] == "S":
        return head + "S " + enc_aval(ta[1])
    return head + f"T {len(ta[1])} " + " ".join(f"{len(u)} " + " ".join(enc_aval(a) for a in u) for u in ta[1])


def typed_value(ta):
    from pyanalyze.value import AnySource, AnyValue, KnownValue, MultiValuedValue, SequenceValue, TypedValue

    def av(a):
        if a[0] == "K":
            return KnownValue(a[1])
        if a[1] == "any":
            return AnyValue(AnySource.marker)
        return TypedValue({"int": int, "bool": bool, "float": float, "str": str, "bytes": bytes, "other": type(None)}[a[1]])

    def uv(u):
        vs = [av(a) for a in u]
        return vs[0] if len(vs) == 1 else MultiValuedValue(vs)

    if ta[0] == "OA":
        return AnyValue(AnySource.marker)
    if ta[0] == "O":
        return TypedValue(tuple)
    if ta[0] == "S":
        return av(ta[1])
    return SequenceValue(tuple, [(False, uv(u)) for u in ta[1]])


def samples_of(a):
    return [a[1]] if a[0] == "K" else TY_SAMPLES[a[1]]


# past failures / shapes that must always run (the seeded "%*.*f" shape on typed arguments too)
TYPED_CORPUS = [
    ("%%a", ("S", ("A", "bytes"))),
    ("%%", ("S", ("K", [1]))),
    ("%%", ("S", ("K", b"x"))),
    (b"%%", ("S", ("A", "bytes"))),
    ("%%", ("S", ("A", "int"))),
    ("%*.*f", ("T", [[("A", "int")], [("A", "int")], [("A", "float")]])),
    ("%*.*f", ("T", [[("A", "int")], [("A", "float")]])),
    ("%d %s", ("T", [[("A", "int"), ("A", "str")], [("A", "any")]])),
    ("%*d", ("T", [[("A", "other"), ("A", "bytes")], [("A", "int")]])),
    ("%c", ("S", ("A", "int"))),
    ("%x", ("S", ("A", "float"))),
]


def gen_typed_cases(n, rng):
    cases = list(TYPED_CORPUS)
    while len(cases) < n:
        t, ta = gen_typed_case(rng)
        txt = t.decode("latin-1") if isinstance(t, bytes) else t
        if "%" in txt and "(" not in txt:
            cases.append((t, ta))
    return cases


def typed_payload(t, ta):
    return {"kind": "typed", "template": enc_case(t), "targs": enc_case(ta), "python": f"{t!r} % <{ta!r}>"}


def typed_stream(cases, rng, exe, known_ids):
    """model vs implementation on typed arguments, and the soundness / completeness statements
    evaluated on sampled run-time members under CPython."""
    from pyanalyze.format_strings import PercentFormatString

    res = {"n": 0, "validated": 0, "corr": [], "new": [], "known": {}, "verdicts": {}, "sound_checked": 0, "complete_checked": 0}
    lines = lib.ocaml_run(exe, [enc_typed_case(t, ta) for t, ta in cases]) if exe is not None else None
    for i, (t, ta) in enumerate(cases):
        res["n"] += 1
        fs = PercentFormatString.from_bytes_pattern(t) if isinstance(t, bytes) else PercentFormatString.from_pattern(t)
        if not fs.specifiers or fs.needs_mapping():
            continue
        lint = [kind_of(m, LINT_KINDS) for m in fs.lint()]
        try:
            acc = [kind_of(m, ACC_KINDS) for m in fs.accept(typed_value(ta), ctx())]
        except Exception as ex:
            res["new"].append((typed_payload(t, ta), f"checker crashed: {type(ex).__name__}: {ex}", ("", "")))
            continue
        agrees = True
        if lines is not None:
            m = model_fields(lines[i])
            if m.get("acc") != (",".join(acc) or "none"):
                agrees = False
                if len(res["corr"]) < 3:
                    res["corr"].append((typed_payload(t, ta), "acc=" + (",".join(acc) or "none"), lines[i], "Format.Typed.accept_tuple_typed vs PercentFormatString.accept on typed Values"))
            else:
                res["validated"] += 1
        if ta[0] in ("O", "OA") or lint or not safe_for_cpython(t):
            continue
        elems = [[ta[1]]] if ta[0] == "S" else ta[1]
        # sampled run-time members: (choice of alternative per position, object per position)
        from pyanalyze.format_strings import StarConversionSpecifier

        serials = [isinstance(x, StarConversionSpecifier) for x in fs.get_serial_specifiers()]
        combos = []
        # every (alternative, sampled member) combination when there are few enough of them;
        # otherwise a random sample, which is only good for the soundness statement (fewer
        # combinations can only make "all of them raise" easier) — the completeness statement
        # ("every member raises") is evaluated on exhaustive enumerations only
        choices = [[(k, o) for k, a in enumerate(u) for o in samples_of(a)] for u in elems]
        size = 1
        for c in choices:
            size *= max(1, len(c))
        exhaustive = size <= 600
        picks = itertools.product(*choices) if exhaustive else ([rng.choice(c) for c in choices] for _ in range(60))
        for pick in picks:
            alts = [k for k, _ in pick]
            objs = [o for _, o in pick]
            if any(type(o) is int and abs(o) > 2000 for o, sp in zip(objs, serials) if sp):
                continue  # a huge '*' width would be allocated
            arg = objs[0] if ta[0] == "S" else tuple(objs)
            if ta[0] == "S" and isinstance(arg, tuple):
                continue
            r = cpython_percent(t, arg)
            if r[0] in ("ok", "raise"):
                combos.append((alts, objs, r[0] == "raise"))
        if not combos:
            continue
        reported = bool(acc)
        all_raise = all(c[2] for c in combos)
        _bump(res["verdicts"], ("reported" if reported else "silent") + "/" + ("all-raise" if all_raise else "some-ok"))
        big = any(a[0] == "K" and ((type(a[1]) is int and abs(a[1]) > INT_MAX) or (isinstance(a[1], float) and not math.isfinite(a[1]))) for u in elems for a in u)
        crange = not isinstance(t, bytes) and any(a[0] == "K" and type(a[1]) is int and 256 <= a[1] < 0x110000 for u in elems for a in u)
        if reported:
            res["sound_checked"] += 1
            ok = False
            if set(acc) & {"ETooFew", "ETooMany"}:
                ok = all_raise
            else:
                for pos, u in enumerate(elems):
                    for k in range(len(u)):
                        sel = [c for c in combos if c[0][pos] == k]
                        if not sel or all(c[2] for c in sel):
                            ok = True  # (no sampled member of this alternative could be executed: inconclusive)
            # C17-escape-only-mapping-arg on the typed stream: a scalar whose run-time members CPython
            # takes for the *mapping* argument (it has __getitem__ and is neither tuple nor str, nor
            # bytes for a bytes template), applied to a template whose only specifiers are "%%":
            # CPython never raises "not all arguments converted" for it, pyanalyze reports ETooMany
            scalar = ta[1] if ta[0] == "S" else None
            escape_only = (
                scalar is not None and acc == ["ETooMany"] and not any(serials) and len(serials) == 0
                and ((scalar[0] == "A" and scalar[1] == "bytes" and not isinstance(t, bytes))
                     or (scalar[0] == "K" and (isinstance(scalar[1], (dict, list)) or (isinstance(scalar[1], bytes) and not isinstance(t, bytes)))))
            )
            if not ok:
                if escape_only and "C17-escape-only-mapping-arg" in known_ids and agrees:
                    _bump(res["known"], "C17-escape-only-mapping-arg")
                elif crange and "ECRange" in acc and "C17-c-range-str" in known_ids and agrees:
                    _bump(res["known"], "C17-c-range-str")
                else:
                    res["new"].append((typed_payload(t, ta), "reported " + ",".join(acc) + " but no alternative raises for all of its sampled members", ("", "")))
        else:
            if not exhaustive:
                continue
            res["complete_checked"] += 1
            if all_raise:
                if big and "C17-numeric-overflow" in known_ids and agrees:
                    _bump(res["known"], "C17-numeric-overflow")
                else:
                    res["new"].append((typed_payload(t, ta), "every sampled member raises, nothing reported", ("", "")))
    return res


def _bump(d, k, n=1):
    d[k] = d.get(k, 0) + n


def merge_hist(a, b):
    for k, v in b.items():
        if isinstance(v, dict):
            merge_hist(a.setdefault(k, {}), v)
        else:
            a[k] = a.get(k, 0) + v


def payload_of(c):
    if c[0] == "percent":
        return {"kind": "percent", "template": enc_case(c[1]), "args": enc_case(c[2]), "python": f"{c[1]!r} % {c[2]!r}"}
    return {"kind": "format", "template": c[1], "args": enc_case(list(c[2])), "kwargs": enc_case(dict(c[3])),
            "python": f"{c[1]!r}.format(*{c[2]!r}, **{c[3]!r})"}


def evaluate(cases, exe, known_ids, keep_direct=False):
    """Model, implementation and CPython on the same cases.  Returns aggregated results
    (picklable: used from worker processes in the thorough tier)."""
    out = {"n": len(cases), "validated": 0, "spec_validated": 0, "type_checked": 0, "distinct": 0,
           "corr": [], "n_corr": 0, "spec": [], "n_spec": 0, "new": [], "n_new": 0, "known": {}, "direct": {},
           "hist": {"percent": {"verdicts": {}, "args_kind": {}, "template_len": {}, "is_bytes": {}},
                    "format": {"verdicts": {}, "structural_verdicts": {}, "full_verdicts": {}, "template_len": {}},
                    "lint_only": 0}}
    model_lines = None
    if exe is not None:
        model_lines = lib.ocaml_run(exe, [enc_percent_case(c[1], c[2]) if c[0] == "percent" else enc_format_case(c[1], c[2], c[3]) for c in cases], timeout=3000)
    hist = out["hist"]
    seen = set()
    for i, c in enumerate(cases):
        kind, t = c[0], c[1]
        ml = model_lines[i] if model_lines is not None else None
        m = model_fields(ml) if ml is not None else None
        agrees = ml is not None
        if kind == "percent":
            a = c[2]
            is_bytes = isinstance(t, bytes)
            impl_line, lint, acc, typ = impl_percent(t, a)
            py = cpython_percent(t, a) if safe_for_cpython(t) and safe_args(t, a) else ("skipped", "")
            h = hist["percent"]
            _bump(h["is_bytes"], int(is_bytes))
            _bump(h["template_len"], min(len(t), 12))
            _bump(h["args_kind"], "tuple" if isinstance(a, tuple) else "dict" if isinstance(a, dict) else "scalar")
            if ml is not None:
                if impl_line != ml.split(" pyscan=")[0]:
                    agrees = False
                    out["n_corr"] += 1
                    if len(out["corr"]) < 3:
                        out["corr"].append((payload_of(c), impl_line, ml, "Format.Percent.pa_check_chars vs PercentFormatString.from_pattern/lint/accept"))
                else:
                    out["validated"] += 1
                if py[0] in ("ok", "raise") and m.get("pyraises") is not None:
                    if (py[0] == "raise") != (m["pyraises"] == "1"):
                        out["n_spec"] += 1
                        if len(out["spec"]) < 3:
                            out["spec"].append((payload_of(c)["python"], py, ml))
                    else:
                        out["spec_validated"] += 1
            if lint is None:
                out["n_new"] += 1
                if len(out["new"]) < 10:
                    out["new"].append((payload_of(c), "checker crashed: " + impl_line, py))
                continue
            kinds = set(lint) | set(acc)
            documented = set(DOCUMENTED_LINT)
            if "LCombine" in kinds and not combine_justified(m):
                # the documented rule is about mixing specifiers that need a mapping with ones that
                # take a positional argument; a report without such a mix is not covered by it
                documented.discard("LCombine")
            nontrivial = "%" in (t.decode("latin-1") if is_bytes else t)
            g = guards_percent(t, a, m) if m is not None else set()
            dirs = CLAUSE_DIRECTIONS
        else:
            args, kwargs = c[2], c[3]
            impl_line, fk, typ = impl_format(t, args, kwargs)
            py = cpython_format(t, args, kwargs)
            h = hist["format"]
            _bump(h["template_len"], min(len(t), 12))
            if ml is not None:
                if impl_line != ml.split(" pyparse=")[0]:
                    agrees = False
                    out["n_corr"] += 1
                    if len(out["corr"]) < 3:
                        out["corr"].append((payload_of(c), impl_line, ml, "Format.StrFormat.pa_format_check vs parse_format_string/_str_format_impl"))
                else:
                    out["validated"] += 1
                v, fv = m.get("verdict"), m.get("full")
                _bump(h["structural_verdicts"], v)
                _bump(h["full_verdicts"], fv)
                bad = False
                for vv in (v, fv):
                    if py[0] in ("ok", "raise") and ((vv == "raises" and py[0] != "raise") or (vv == "fine" and py[0] != "ok")):
                        bad = True
                if v == "FUEL" or fv == "FUEL" or bad:
                    out["n_spec"] += 1
                    if len(out["spec"]) < 3:
                        out["spec"].append((payload_of(c)["python"], py, ml))
                elif fv in ("raises", "fine") and py[0] in ("ok", "raise"):
                    out["spec_validated"] += 1
            if fk is None:
                out["n_new"] += 1
                if len(out["new"]) < 10:
                    out["new"].append((payload_of(c), "checker crashed: " + impl_line, py))
                continue
            kinds = set(fk)
            documented = FORMAT_LINT
            nontrivial = "{" in t or "}" in t
            g = guards_format(t, m) if m is not None else set()
            dirs = FORMAT_CLAUSE_DIRECTIONS
        reported = bool(kinds)
        if keep_direct:
            out["direct"][i] = reported
        if py[0] not in ("ok", "raise"):
            continue
        _bump(h["verdicts"], py[0] + "/" + ("reported" if reported else "silent"))
        if nontrivial:
            key = (kind, t, repr(c[2:]))
            if key not in seen:
                seen.add(key)
                out["distinct"] += 1
        fail = None
        if py[0] == "ok":
            out["type_checked"] += 1
            if typ != py[1]:
                fail = (f"inferred type {typ}, actual result type {py[1]}", set())
        if fail is None and py[0] == "raise" and not reported:
            fail = ("CPython raises, nothing reported", {x for x in g if "missed" in dirs[x]})
        elif fail is None and py[0] == "ok" and reported:
            if kinds <= documented:
                hist["lint_only"] += 1
            else:
                fail = ("reported " + ",".join(sorted(kinds)) + " but CPython formats fine", {x for x in g if "extra" in dirs[x]})
        if fail is not None:
            what, clauses = fail
            # attribute only if the case falls under a listed clause AND the implementation behaved as the model predicts
            cl = sorted(x for x in clauses if x in known_ids)
            if cl and agrees:
                _bump(out["known"], cl[0])
            else:
                out["n_new"] += 1
                if len(out["new"]) < 10:
                    out["new"].append((payload_of(c), what, py))
    return out


def _worker(job):
    tier, stream, exe, known_ids, seed = job
    rng = random.Random(seed)
    cases = make_cases(tier, rng, stream)
    res = {"n": 0}
    # sub-chunks keep the memory of one worker bounded
    total = None
    for k in range(0, len(cases), 200000):
        r = evaluate(cases[k : k + 200000], exe, known_ids)
        if total is None:
            total = r
        else:
            for key in ("n", "validated", "spec_validated", "type_checked", "distinct", "n_corr", "n_spec", "n_new"):
                total[key] += r[key]
            for key in ("corr", "spec", "new"):
                total[key] = (total[key] + r[key])[:10]
            merge_hist(total["known"], r["known"])
            merge_hist(total["hist"], r["hist"])
    return total if total is not None else evaluate([], exe, known_ids)


def run(tier: str, replay: str | None = None):
    rep = lib.Report(PROP, tier, "proof")
    rng = random.Random(lib.seed() * 7919 + 17)
    # 1. regenerate + prove
    broken_translation = None
    proof = None
    try:
        gen = gen_files()
    except (tr_formatre.TranslateError, tr_formataccept.TranslateError, tr_formatloops.TranslateError, tr_formatsigs.TranslateError) as ex:
        broken_translation = str(ex)
        gen = None
    if gen is not None:
        proof = lib.prove(PROP, gen, thorough=(tier == "thorough"))

    # 2. the model: built on its own, so that a broken proof (e.g. a pinned constant that changed)
    # does not take the correspondence and the known-finding attribution down with it
    # (when a translator failed, the Gen files of the previous run are still on disk: the model is
    # built against them, so that the correspondence can still point at the behaviour that changed)
    model_ok, _log = lib.coq_make(["theories/Format/Guards.vo", "theories/Format/FormatEval.vo", "theories/Format/Typed.vo"])
    exe = None
    if model_ok:
        try:
            exe = lib.ocaml_build("c17", "theories/Extract/ExtractC17.v", "c17_driver.ml")
        except RuntimeError as ex:
            rep.violation({"kind": "broken-correspondence", "correspondence": "extracted model (ocaml) failed to build", "detail": str(ex)[-1500:]}, no_failing_input=True)

    findings = lib.load_known_findings(PROP)["findings"]
    known_ids = {f["id"] for f in findings}

    # 3. cases, implementation, oracle
    replay_expr = None
    replay_callform = None
    replay_typed = None
    if replay:
        r = json.loads(Path(replay).read_text())
        c = dec_case(r["input"])
        replay_expr = None
        if c.get("kind") == "expression":
            main_cases = []
            replay_expr = c["python"]
            replay_callform = c.get("callform")
        elif c.get("kind") == "typed":
            main_cases = []
            replay_typed = (c["template"], c["targs"])
        elif c.get("kind", "percent") == "percent":
            main_cases = [("percent", c["template"], c["args"], True)]
        else:
            main_cases = [("format", c["template"], c["args"], c["kwargs"])]
        jobs = []
    else:
        main_cases = make_cases(tier, rng, "main")
        nsh = 1 if tier == "quick" else 6
        jobs = [(tier, (k, j, nsh), exe, known_ids, lib.seed()) for k in ("pct", "fmt", "spec", "fname") for j in range(nsh)]
    try:
        total = evaluate(main_cases, exe, known_ids, keep_direct=True)
    except RuntimeError as ex:
        rep.violation({"kind": "broken-correspondence", "correspondence": "extracted model (ocaml) failed to run", "detail": str(ex)[-1500:]}, no_failing_input=True)
        total = evaluate(main_cases, None, known_ids, keep_direct=True)
    direct_reported = total.pop("direct")
    typed_cases = []
    if replay and replay_typed is not None:
        typed_cases = [replay_typed]
    elif not replay:
        typed_cases = gen_typed_cases(2000 if tier == "quick" else 30000, rng)
    typed = typed_stream(typed_cases, rng, exe, known_ids) if typed_cases else None
    if typed is not None:
        total["n"] += typed["n"]
        total["validated"] += typed["validated"]
        total["n_corr"] += len(typed["corr"])
        total["corr"] = (total["corr"] + typed["corr"])[:10]
        total["n_new"] += len(typed["new"])
        total["new"] = (total["new"] + typed["new"])[:10]
        merge_hist(total["known"], typed["known"])
        total["hist"]["typed"] = {"verdicts": typed["verdicts"], "soundness_checked_on_samples": typed["sound_checked"],
                                  "completeness_checked_on_samples": typed["complete_checked"], "cases": typed["n"]}
    if jobs:
        if tier == "quick":
            parts = [_worker(j) for j in jobs]
        else:
            import multiprocessing as mp

            with mp.get_context("fork").Pool(6) as pool:
                parts = pool.map(_worker, jobs, chunksize=1)
        for r in parts:
            for key in ("n", "validated", "spec_validated", "type_checked", "distinct", "n_corr", "n_spec", "n_new"):
                total[key] += r[key]
            for key in ("corr", "spec", "new"):
                total[key] = (total[key] + r[key])[:10]
            merge_hist(total["known"], r["known"])
            merge_hist(total["hist"], r["hist"])

    # 4. end to end through NameCheckVisitor: reports and revealed types, plus f-strings
    e2e = (0, [], 0, [])
    n_fstrings = 0
    if replay and replay_expr is not None and not replay_callform:
        e2e = end_to_end([(-1, ("fstring", replay_expr))], {})
    if not replay:
        step = max(1, len(main_cases) // (500 if tier == "quick" else 3000))
        sample = [(i, main_cases[i]) for i in list(range(0, min(100, len(main_cases)))) + list(range(100, len(main_cases), step)) if i in direct_reported]
        for _ in range(300 if tier == "quick" else 3000):
            src = gen_fstring(rng)
            if src is not None:
                n_fstrings += 1
                sample.append((-1, ("fstring", src)))
        try:
            e2e = end_to_end(sample, direct_reported)
        except Exception as ex:  # noqa
            rep.harness_error(f"end-to-end stream failed: {type(ex).__name__}: {ex}")
    e2e_checked, e2e_mismatch, e2e_types, e2e_type_mismatch = e2e
    callform_n, callform_fail, callform_hist = 0, [], {}
    if replay and replay_expr is not None and replay_callform:
        callform_n, callform_fail, callform_hist = check_callforms([(replay_expr, replay_callform == "modelled", "replay")])
    elif not replay:
        fixed = [('"{self}".format(self=1)', True, "bound"), ('"{self.real} {self.imag}".format(self=3)', True, "bound"),
                 ('str.format("{} {self}", 1, self=2)', True, "unbound"), ('"{args} {kwargs}".format(args=1, kwargs=2)', True, "bound"),
                 ('"{0} {self!r:>4}".format("a", self="b")', True, "bound"), ('"{self}".format(other=1)', True, "bound"),
                 ('"{class}".format(**{"class": 1})', True, "bound"), ('str.format("{format_string}", format_string=1)', True, "unbound"),
                 ('"{self}".format_map({"self": 1})', False, "format_map"), ('str.__mod__("%(self)s", {"self": 1})', False, "mod_unbound")]
        try:
            callform_n, callform_fail, callform_hist = check_callforms(fixed + [gen_callform(rng) for _ in range(400 if tier == "quick" else 4000)])
        except Exception as ex:  # noqa
            rep.harness_error(f"call-form stream failed: {type(ex).__name__}: {ex}")
    fstring_mismatch = [m for m in e2e_mismatch if m[0] == -1]
    callpath_mismatch = [m for m in e2e_mismatch if m[0] == -2]
    e2e_mismatch = [m for m in e2e_mismatch if m[0] not in (-1, -2)]
    callform_extra = [(m[1], f"{m[3]} (codes: {m[2]})", "bound") for m in callpath_mismatch]

    # 5. verdicts
    for fid, n in total["known"].items():
        rep.known(fid, next(f["what"] for f in findings if f["id"] == fid))
    for pl, what, py in total["new"][:10]:
        rep.violation({"kind": "failing-input", "input": pl, "observed": what, "expected": "report iff CPython raises (outside the documented lint rules); result type = actual type",
                       "cpython": list(py), "how_to_run": "./check C17 --replay <this file>"})
    for ci, expr, rv, actual in e2e_type_mismatch[:5]:
        rep.violation({"kind": "failing-input", "input": {"kind": "expression", "python": expr}, "observed": {"revealed": [list(x) for x in rv]},
                       "expected": actual, "how_to_run": "reveal_type(<expression>) under pyanalyze vs eval under CPython"})
    for ci, expr, codes, raised in fstring_mismatch[:5]:
        rep.violation({"kind": "failing-input", "input": {"kind": "expression", "python": expr},
                       "observed": {"codes": codes, "cpython_raises": raised},
                       "expected": "bad_format_string is reported iff evaluating the f-string raises",
                       "how_to_run": "./check C17 --replay <this file>"})
    callform_fail = callform_fail + callform_extra
    route_n, route_fail, route_hist = 0, [], {}
    if not replay:
        try:
            route_n, route_fail, route_hist = check_routes(rng, 40 if tier == "quick" else 300, 25 if tier == "quick" else 200, known_ids)
        except Exception as ex:  # noqa
            rep.harness_error(f"route stream failed: {type(ex).__name__}: {ex}")
    for src, what, route in route_fail[:5]:
        rep.violation({"kind": "failing-input", "input": {"kind": "statements", "route": route, "python": src},
                       "observed": what, "expected": "a formatting operation on a statically known template is reported iff CPython raises, by whatever syntactic route the template reaches it",
                       "how_to_run": "exec the statements under CPython; run pyanalyze on a function containing them"})
    for src, what, form in callform_fail[:5]:
        rep.violation({"kind": "failing-input", "input": {"kind": "expression", "callform": ("unmodelled" if form in ("format_map", "mod_dunder", "mod_unbound", "operator_mod") else "modelled"), "python": src},
                       "observed": what, "expected": "a formatting call is reported iff CPython raises (the 'not used' lint apart); spellings pyanalyze does not check must at least not be reported when they evaluate fine",
                       "how_to_run": "./check C17 --replay <this file>"})
    found_input = bool(total["new"]) or bool(e2e_type_mismatch) or bool(fstring_mismatch) or bool(callform_fail) or bool(route_fail)
    if total["spec"]:
        expr, py, ml = total["spec"][0]
        # the specification model disagrees with the interpreter: the harness is wrong, not pyanalyze
        rep.harness_error(f"specification model disagrees with CPython on {expr}: cpython={py} model={ml} ({total['n_spec']} cases)")
    if total["corr"] and not found_input:
        pl, il, ml, name = total["corr"][0]
        rep.violation({"kind": "broken-correspondence", "correspondence": name, "input": pl, "observed": il, "model": ml, "mismatches": total["n_corr"]}, no_failing_input=True)
    if e2e_mismatch and not found_input:
        i, line, codes, want = e2e_mismatch[0]
        rep.violation({"kind": "broken-correspondence", "correspondence": "direct calls (check_string_format/_str_format_impl) vs NameCheckVisitor end to end",
                       "input": payload_of(main_cases[i]), "observed": {"statement": line, "codes": codes}, "expected_reported": want, "mismatches": len(e2e_mismatch)}, no_failing_input=True)
    if broken_translation and not found_input:
        rep.violation({"kind": "broken-obligation", "theorem": "Gen/FormatRe.v (translator)", "detail": broken_translation}, no_failing_input=True)
    if proof is not None and not proof.ok and not found_input:
        rep.violation({"kind": "broken-obligation", "theorem": "; ".join(proof.broken), "log": proof.log[-1500:]}, no_failing_input=True)

    hist = total["hist"]
    hist["known"] = total["known"]
    rep.coverage.update(
        evaluations=total["n"],
        distinct_nontrivial=total["distinct"],
        rule="a case = (template, literal args); non-trivial = the template contains '%' (resp. a brace); streams: corpus, structured (specifier/field-built templates with "
        "matching and perturbed args; str.format fields with attribute/index paths, conversions and format specs over the literal universe), exhaustive short templates over a "
        "14-symbol (%) / 11-symbol (format) alphabet, exhaustive '{:spec}' over a 21-symbol spec alphabet x 10 kinds of object, random longer templates, f-strings (end to end only)",
        samples=[payload_of(main_cases[i])["python"] for i in range(0, len(main_cases), max(1, len(main_cases) // 6))][:8],
        traces_validated_against_impl=total["validated"],
        spec_validated_against_cpython=total["spec_validated"],
        result_types_checked=total["type_checked"],
        end_to_end_statements=e2e_checked,
        end_to_end_mismatches=len(e2e_mismatch),
        end_to_end_revealed_types_checked=e2e_types,
        end_to_end_type_mismatches=len(e2e_type_mismatch),
        fstrings=n_fstrings,
        call_forms=callform_n,
        route_functions=route_n,
        route_distribution=route_hist,
        call_form_distribution=callform_hist,
        input_distribution=hist,
        correspondence_mismatches=total["n_corr"],
        spec_mismatches=total["n_spec"],
        exhaustive_template_length={"percent": (4 if tier == "quick" else 6), "format": (4 if tier == "quick" else 6), "format_spec": (2 if tier == "quick" else 4), "field_name": (3 if tier == "quick" else 5)},
    )
    rep.assumptions = ["CPython 3.12 `%` operator, str.format, format() and f-strings as oracle", "translators harness/translate/formatre.py, formatattrs.py", "extraction (ExtrOcamlBasic)"]
    return rep.finish(
        proof,
        "coq_makefile + make theories/Properties/C17.vo; coqc theories/Properties/C17.v (Print Assumptions)" + ("; coqchk -o" if tier == "thorough" else ""),
        ["Coq 8.16.1 kernel", "translators harness/translate/formatre.py and formatattrs.py", "OCaml extraction (ExtrOcamlBasic) + ocaml/c17_driver.ml", "correspondence harness/c17.py", "CPython 3.12 as oracle"],
    )
