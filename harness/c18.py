"""C18 — configuration layering follows the documented precedence.

proof      : Properties/C18.v over Gen/Options.v (translated from options.py) + Options/Parse.v
tie        : translator (lookup functions) + correspondence of the parser model on generated TOML stacks
oracle     : independent implementation of the documented precedence on chains (oracle_lookup)
"""
from __future__ import annotations

import itertools
import random
import shutil
import tempfile
from pathlib import Path

import lib
from translate import options as tr_options

PROP = "C18"

# tracked options: (toml key, kind, default as model value)
BOOL_ON = "undefined_name"  # error code enabled by default
BOOL_OFF = "missing_f"  # error code disabled by default
BOOL_PLAIN = "ignore_none_attributes"  # boolean option that is not an error code
CODES = (BOOL_ON, BOOL_OFF)
BOOLS = (BOOL_ON, BOOL_OFF, BOOL_PLAIN)
INT_OPT = "union_simplification_limit"
LIST_OPT = "disallow_calls_to_dunders"
LIST_VALUES = [[], ["a"], ["b", "c"], ["a", "d"], ["d"]]
MODS = ["pa", "pab", "pb", "pbb"]  # module path components -> N codes; "pab"/"pbb" share string prefixes with "pa"/"pb" (a prefix test on dotted strings instead of components must not pass)


def mod_code(m):
    return MODS.index(m) + 1 if m in MODS else 99  # 99: a module name no generated override mentions


# ---------------------------------------------------------------------------
# abstract configuration stacks
#
# file    := list of entries (key order = TOML key order)
# entry   := ("set", opt, value) | ("invalid", kind) | ("module",) | ("extend", target)
#            | ("overrides", OV) | ("disable_all", bool)
# target  := ("file", idx) | ("notstring",) | ("missing",)
# OV      := ("notlist",) | ("list", [override])
# override:= ("notdict",) | ("sec", path-or-None, [entries])   (path: tuple of MODS, None => missing module key,
#                                                               "nonstr" => module = 3)


def toml_value(v):
    if isinstance(v, bool):
        return "true" if v else "false"
    if isinstance(v, int):
        return str(v)
    if isinstance(v, str):
        return '"' + v + '"'
    if isinstance(v, list):
        return "[" + ", ".join(toml_value(x) for x in v) + "]"
    raise TypeError(v)


INVALID_KINDS = ["unknown_key", "int_as_str", "bool_as_int", "list_as_int"]


def render_entries(entries, names, top):
    """Return list of 'key = value' strings (inline)."""
    out = []
    for e in entries:
        k = e[0]
        if k == "set":
            out.append(f"{e[1]} = {toml_value(e[2])}")
        elif k == "invalid":
            kind = e[1]
            if kind == "unknown_key":
                out.append("bogus_key_xyz = 1")
            elif kind == "int_as_str":
                out.append('comprehension_length_inference_limit = "x"')
            elif kind == "bool_as_int":
                out.append("duplicate_dict_key = 3")
            elif kind == "list_as_int":
                out.append("extra_builtins = 5")
        elif k == "module":
            out.append('module = "pa"')
        elif k == "extend":
            t = e[1]
            if t[0] == "file":
                out.append(f'extend_config = "{names[t[1]]}"')
            elif t[0] == "missing":
                out.append('extend_config = "does_not_exist.toml"')
            else:
                out.append("extend_config = 3")
        elif k == "overrides":
            ov = e[1]
            if ov[0] == "notlist":
                out.append("overrides = 3")
            else:
                items = []
                for o in ov[1]:
                    if o[0] == "notdict":
                        items.append("3")
                    else:
                        _, path, es = o
                        inner = []
                        if path == "nonstr":
                            inner.append("module = 3")
                        elif path is not None:
                            inner.append('module = "' + ".".join(path) + '"')
                        inner += render_entries(es, names, False)
                        items.append("{" + ", ".join(inner) + "}")
                out.append("overrides = [" + ", ".join(items) + "]")
        elif k == "disable_all":
            out.append(f"disable_all = {toml_value(e[1])}")
    return out


def layout_of(stack):
    """Deterministic directory layout for a stack: 0 = one directory, bare names;
    1 = every file in its own sibling directory, referenced through `../dN/fN.toml`
    (the path style of docs/configuration.md); 2 = one directory, referenced as
    `./fN.toml` or through the parent directory `../<dir>/fN.toml`."""
    import zlib

    return zlib.crc32(repr(stack).encode()) % 3


def render_stack(stack, d: Path):
    kind = layout_of(stack)
    n = len(stack)
    if kind == 1:
        paths = [d / f"d{i}" / f"f{i}.toml" for i in range(n)]
    else:
        sub = d / "cfg"
        paths = [sub / f"f{i}.toml" for i in range(n)]
    for pth in paths:
        pth.parent.mkdir(parents=True, exist_ok=True)
    for i, f in enumerate(stack):
        if kind == 0:
            names = [f"f{j}.toml" for j in range(n)]
        elif kind == 1:
            names = [f"../d{j}/f{j}.toml" for j in range(n)]
        else:
            names = [(f"./f{j}.toml" if (i + j) % 2 == 0 else f"../cfg/f{j}.toml") for j in range(n)]
        lines = ["[tool.pyanalyze]"] + render_entries(f, names, True)
        paths[i].write_text("\n".join(lines) + "\n")
    return paths[0]


# ---------------------------------------------------------------------------
# generator


def gen_section(rng, top, nfiles, idx, allow_invalid, chainy):
    """Entries of one section; each keyed entry at most once (TOML)."""
    es = []
    opts = [BOOL_ON, BOOL_OFF, BOOL_PLAIN, INT_OPT, LIST_OPT]
    for o in opts:
        if rng.random() < (0.55 if top else 0.6):
            if o in BOOLS:
                v = rng.random() < 0.5
            elif o == INT_OPT:
                v = rng.randrange(0, 10)
            else:
                v = rng.choice(LIST_VALUES[:4])
            es.append(("set", o, v))
    if rng.random() < 0.2:
        es.append(("disable_all", rng.random() < 0.8))
    if top and idx + 1 < nfiles and rng.random() < 0.85:
        es.append(("extend", ("file", idx + 1)))
    elif not chainy and rng.random() < 0.08 and nfiles > 1:
        es.append(("extend", ("file", rng.randrange(nfiles))))
    if allow_invalid:
        r = rng.random()
        if r < 0.25:
            es.append(("invalid", rng.choice(INVALID_KINDS)))
        elif r < 0.35:
            es = [e for e in es if e[0] != "extend"]
            es.append(("extend", rng.choice([("notstring",), ("missing",)])))
        elif r < 0.45 and top:
            es.append(("module",))
        elif r < 0.55 and not top:
            es.append(("overrides", ("list", [])))
    if top and rng.random() < 0.8:
        n = rng.randrange(0, 4)
        ovs = []
        for _ in range(n):
            if allow_invalid and rng.random() < 0.1:
                ovs.append(("notdict",))
                continue
            plen = rng.choice([1, 1, 2, 2, 3])
            path = tuple(rng.choice(MODS) for _ in range(plen))
            if allow_invalid and rng.random() < 0.1:
                path = rng.choice([None, "nonstr"])
            ovs.append(("sec", path, gen_section(rng, False, nfiles, idx, allow_invalid and rng.random() < 0.3, chainy)))
        if allow_invalid and rng.random() < 0.08:
            es.append(("overrides", ("notlist",)))
        else:
            es.append(("overrides", ("list", ovs)))
    rng.shuffle(es)
    return es


def gen_stack(rng, malformed=False, chainy=True):
    nfiles = rng.choice([1, 2, 2, 3, 3])
    cyclic = malformed and rng.random() < 0.3
    bad_at = rng.randrange(nfiles) if (malformed and not cyclic) else -1
    st = [gen_section(rng, True, nfiles, i, i == bad_at, chainy) for i in range(nfiles)]
    if cyclic:
        # recursive inclusion: the last file of the chain extends itself or an earlier file
        k = 0
        while k + 1 < nfiles and any(e[0] == "extend" and e[1] == ("file", k + 1) for e in st[k]):
            k += 1
        st[k] = [e for e in st[k] if e[0] != "extend"] + [("extend", ("file", rng.randrange(0, k + 1)))]
        rng.shuffle(st[k])
    return st


def exhaustive_small_stacks():
    """All chains of <= 3 files where each file has, for the int option, a
    top-level setting in {none, value}, an override for prefix (pa) and one for
    (pa, pb) in {none, value}, and extend placed first or last."""
    shapes = []
    for top, o1, o2, first in itertools.product([0, 1], [0, 1], [0, 1], [0, 1]):
        shapes.append((top, o1, o2, first))
    for n in (1, 2, 3):
        for combo in itertools.product(shapes, repeat=n):
            stack = []
            val = 0
            for i, (top, o1, o2, first) in enumerate(combo):
                es = []
                if top:
                    val += 1
                    es.append(("set", INT_OPT, val))
                ovs = []
                if o1:
                    val += 1
                    ovs.append(("sec", ("pa",), [("set", INT_OPT, val)]))
                if o2:
                    val += 1
                    ovs.append(("sec", ("pa", "pb"), [("set", INT_OPT, val)]))
                if ovs:
                    es.append(("overrides", ("list", ovs)))
                if i + 1 < n:
                    ext = ("extend", ("file", i + 1))
                    es = [ext] + es if first else es + [ext]
                stack.append(es)
            yield stack


# ---------------------------------------------------------------------------
# implementation side


def impl_effective(stack, cli, queries, via_visitor=False):
    """Returns 'ERR' or {(opt, mp): value}.  via_visitor: build the Options the
    way the command line does (NameCheckVisitor.prepare_constructor_kwargs:
    settings / option kwargs / config_file) instead of calling
    Options.from_option_list directly."""
    import pyanalyze.name_check_visitor  # registers all options  # noqa: F401
    from pyanalyze.options import ConfigOption, InvalidConfigOption, Options

    d = Path(tempfile.mkdtemp(prefix="c18_"))
    try:
        main = render_stack(stack, d)
        insts = []
        for opt, v in cli:
            insts.append(ConfigOption.registry[opt](v, from_command_line=True))
        try:
            if via_visitor:
                from pyanalyze.error_code import ErrorCode as EC
                from pyanalyze.name_check_visitor import NameCheckVisitor

                kwargs = {"config_file": main, "settings": {}}
                for opt, v in cli:
                    if opt in CODES:
                        kwargs["settings"][getattr(EC, opt)] = v
                    else:
                        kwargs[opt] = v
                options = NameCheckVisitor.prepare_constructor_kwargs(kwargs)["checker"].options
            else:
                options = Options.from_option_list(insts, main)
        except InvalidConfigOption:
            return "ERR"
        out = {}
        from pyanalyze.error_code import ErrorCode

        for opt, mp in queries:
            o = options.for_module(tuple(mp))
            if opt in CODES:
                out[(opt, tuple(mp))] = bool(o.is_error_code_enabled(getattr(ErrorCode, opt)))
                v2 = o.get_value_for(ConfigOption.registry[opt])
                if bool(v2) != out[(opt, tuple(mp))]:
                    out[(opt, tuple(mp))] = ("inconsistent", out[(opt, tuple(mp))], v2)
            else:
                v = o.get_value_for(ConfigOption.registry[opt])
                out[(opt, tuple(mp))] = list(v) if isinstance(v, (list, tuple)) else v
        # the whole-run question NameCheckVisitor._run_on_files asks (is a code enabled for ANY module?)
        for opt in sorted({o for o, _ in queries if o in CODES}):
            out[(ANYWHERE, opt)] = bool(options.is_error_code_enabled_anywhere(getattr(ErrorCode, opt)))
        return out
    finally:
        shutil.rmtree(d, ignore_errors=True)


def impl_defaults():
    import pyanalyze.name_check_visitor  # noqa: F401
    from pyanalyze.options import ConfigOption

    return {o: ConfigOption.registry[o].default_value for o in (BOOL_ON, BOOL_OFF, BOOL_PLAIN, INT_OPT, LIST_OPT)}


# ---------------------------------------------------------------------------
# model side: encode a stack for one tracked option


def enc_value(opt, v):
    if opt in BOOLS:
        return 1 if v else 0
    if opt == INT_OPT:
        return v
    return LIST_VALUES.index(list(v))


def enc_entries(entries, opt, top):
    out = []
    for e in entries:
        k = e[0]
        if k == "set":
            out.append(f"ESet {lib.cz(enc_value(opt, e[2]))}" if e[1] == opt else "EOtherSet")
        elif k == "invalid":
            out.append("EInvalid")
        elif k == "module":
            out.append("EModule")
        elif k == "extend":
            t = e[1]
            if t[0] == "file":
                out.append(f"EExtend (XFile {t[1]}%nat)")
            elif t[0] == "missing":
                out.append("EExtend (XFile 99%nat)")
            else:
                out.append("EExtend XNotString")
        elif k == "overrides":
            ov = e[1]
            if not top:
                out.append("EOverrides tt")
            elif ov[0] == "notlist":
                out.append("EOverrides OVNotList")
            else:
                items = []
                for o in ov[1]:
                    if o[0] == "notdict":
                        items.append("ONotDict")
                    else:
                        _, path, es = o
                        if path is None or path == "nonstr":
                            p = "None"
                        else:
                            p = "(Some " + lib.clist([lib.cn(mod_code(m)) for m in path]) + ")"
                        items.append(f"OSec {p} {enc_entries(es, opt, False)}")
                out.append("EOverrides (OVList " + lib.clist(items) + ")")
        elif k == "disable_all":
            out.append(f"EDisableAll {lib.cbool(e[1])}")
    return lib.clist(["(" + x + ")" for x in out])


def model_term(stack, cli, opt, mp, defaults):
    files = lib.clist([enc_entries(f, opt, True) for f in stack])
    cli_vals = [enc_value(opt, v) for (o, v) in cli if o == opt]
    mpc = lib.clist([lib.cn(mod_code(m)) for m in mp])
    if opt == LIST_OPT:
        table = "(fun z => nth (Z.to_nat z) " + lib.clist([lib.clist([lib.cz(LIST_ATOMS.index(x)) for x in l]) for l in LIST_VALUES]) + " [])"
        d = lib.clist([lib.cz(LIST_ATOMS.index(x)) for x in defaults[opt]])
        return f"effective_concat {files} {lib.clist([lib.cz(v) for v in cli_vals])} {table} {d} {mpc}"
    is_code = opt in CODES
    d = enc_value(opt, defaults[opt])
    return f"effective {lib.cbool(is_code)} {files} {lib.clist([lib.cz(v) for v in cli_vals])} {lib.cz(d)} {mpc}"


LIST_ATOMS = ["a", "b", "c", "d"]
ANYWHERE = "@anywhere"  # pseudo-query: Options.is_error_code_enabled_anywhere


def model_term_anywhere(stack, cli, opt, defaults):
    files = lib.clist([enc_entries(f, opt, True) for f in stack])
    cli_vals = [enc_value(opt, v) for (o, v) in cli if o == opt]
    return f"option_map (fun b : bool => Some (if b then 1%Z else 0%Z)) (effective_anywhere {files} {lib.clist([lib.cz(v) for v in cli_vals])} {lib.cz(enc_value(opt, defaults[opt]))})"


def override_paths(stack):
    out = set()
    for f in stack:
        for e in f:
            if e[0] == "overrides" and isinstance(e[1], (list, tuple)) and len(e[1]) > 1 and isinstance(e[1][1], (list, tuple)):
                for ov in e[1][1]:
                    if isinstance(ov, (list, tuple)) and len(ov) > 1 and isinstance(ov[1], (list, tuple)):
                        out.add(tuple(ov[1]))
    return out


def decode_model(opt, res):
    """model result -> same shape as impl ('ERR' or value)."""
    if res is None:
        return "ERR"
    if opt == LIST_OPT:
        assert res[0] == "Some"
        return [LIST_ATOMS[i] for i in res[1]]
    assert res[0] == "Some"
    inner = res[1]
    if inner is None:
        return "NOTFOUND"
    v = inner[1]
    if opt in BOOLS:
        return bool(v)
    return v


# ---------------------------------------------------------------------------
# independent oracle: the documented precedence, evaluated on chains


def is_chain(stack):
    """extend_config only at top level, pointing to the next file, no errors."""

    def bad(entries, top, idx):
        for e in entries:
            if e[0] in ("invalid",):
                return True
            if e[0] == "module" and top:
                return True
            if e[0] == "extend":
                if not top or e[1] != ("file", idx + 1) or idx + 1 >= len(stack):
                    return True
            if e[0] == "overrides":
                if not top or e[1][0] != "list":
                    return True
                for o in e[1][1]:
                    if o[0] != "sec" or o[1] is None or o[1] == "nonstr" or bad(o[2], False, idx):
                        return True
        return False

    reach = 0
    for i, f in enumerate(stack):
        if bad(f, True, i):
            return False, 0
        reach = i
        if not any(e[0] == "extend" for e in f):
            break
    return True, reach + 1


def section_value(entries, opt):
    """value a section gives to opt: explicit setting, else False when
    disable_all is truthy and opt is an error code not set to true here."""
    explicit = [e[2] for e in entries if e[0] == "set" and e[1] == opt]
    dis = [e[1] for e in entries if e[0] == "disable_all"]
    if explicit:
        return True, explicit[0]
    if dis and dis[-1] and opt in CODES:
        return True, False
    return False, None


def oracle_lookup(stack, nreach, cli, opt, mp, defaults):
    mp = tuple(mp)
    ordered = []  # values in documented precedence order
    for o, v in cli:
        if o == opt:
            ordered.append(v)
    for f in stack[:nreach]:
        cands = []  # (-prefix_len, order, value)
        order = 0
        for e in f:
            if e[0] == "overrides":
                for ov in e[1][1]:
                    has, v = section_value(ov[2], opt)
                    if has and mp[: len(ov[1])] == tuple(ov[1]):
                        cands.append((-len(ov[1]), order, v))
                        order += 1
        has, v = section_value(f, opt)
        if has:
            cands.append((0, order, v))
        cands.sort(key=lambda c: c[0])  # stable: most specific first; ties by file order
        ordered += [c[2] for c in cands]
    if opt == LIST_OPT:
        out = []
        for v in ordered:
            out += list(v)
        return out + list(defaults[opt])
    return ordered[0] if ordered else defaults[opt]


# ---------------------------------------------------------------------------


def gen_files():
    return {"Options.v": tr_options.translate(str(lib.REPO))}


def queries_for(rng, n=4):
    qs = [()]
    for _ in range(n):
        qs.append(tuple(rng.choice(MODS) for _ in range(rng.choice([1, 2, 3]))))
    return qs


def run(tier: str, replay: str | None = None):
    rep = lib.Report(PROP, tier, "proof")
    rng = random.Random(lib.seed() * 7919 + 18)
    # 1. regenerate + prove
    broken_translation = None
    try:
        gen = gen_files()
    except tr_options.TranslateError as ex:
        broken_translation = str(ex)
        gen = None
    proof = None
    if gen is not None:
        proof = lib.prove(PROP, gen, thorough=(tier == "thorough"))
    defaults = impl_defaults()

    # 2. cases
    cases = []  # (stack, cli, queries)
    import json

    if replay and "input" not in json.loads(Path(replay).read_text()):
        replay = None  # a broken-obligation replay names a theorem, not an input: re-run the whole check
    if replay:
        r = json.loads(Path(replay).read_text())
        c = r["input"]
        cases.append((totuple(c["stack"]), [tuple(x) for x in c["cli"]], [tuple(q) for q in c["queries"]]))
    else:
        n_rand = 260 if tier == "quick" else 2500
        n_mal = 90 if tier == "quick" else 700
        for _ in range(n_rand):
            st = gen_stack(rng, chainy=rng.random() < 0.85)
            cli = []
            for o in (BOOL_ON, BOOL_OFF, BOOL_PLAIN, INT_OPT, LIST_OPT):
                if rng.random() < 0.25:
                    # truthy and falsy command-line values (a falsy value given on the command line still wins)
                    cli.append((o, rng.choice({BOOL_ON: [False, True], BOOL_OFF: [True, False], BOOL_PLAIN: [False, True],
                                               INT_OPT: [77, 0], LIST_OPT: [["d"], []]}[o])))
            cases.append((st, cli, queries_for(rng)))
        for _ in range(n_mal):
            cases.append((gen_stack(rng, malformed=True), [], [()]))
        ex = list(exhaustive_small_stacks())
        if tier == "quick":
            ex = ex[: 16 + 256] + rng.sample(ex[16 + 256 :], 200)
        for st in ex:
            cases.append((st, [], [(), ("pa",), ("pa", "pb"), ("pa", "pb", "pbb"), ("pb",), ("pab",), ("pa", "pbb")]))

    # 3. run implementation, oracle, and collect model terms
    terms = []
    meta = []
    n_err = 0
    hist = {"files": {}, "err": 0, "chains": 0, "nonchain": 0}
    impl_results = []
    oracle_mismatch = []
    n_via = 0
    n_anywhere = 0
    via_budget = 160 if tier == "quick" else 1500
    for ci, (st, cli, qs) in enumerate(cases):
        opts = sorted({e[1] for f in st for e in all_entries(f) if e[0] == "set"} | {BOOL_ON, INT_OPT})
        queries = [(o, q) for o in opts for q in qs]
        try:
            res = impl_effective(st, cli, queries, via_visitor=(bool(cli) or ci % 7 == 0) and n_via < via_budget)
            if (bool(cli) or ci % 7 == 0) and n_via < via_budget:
                n_via += 1
        except Exception as ex:  # the implementation crashed: not a config error
            res = {"CRASH": repr(ex)}
        impl_results.append(res)
        hist["files"][len(st)] = hist["files"].get(len(st), 0) + 1
        chain, nreach = is_chain(st)
        if res == "ERR":
            n_err += 1
            if chain:
                oracle_mismatch.append((ci, None, "valid chain rejected", None))
        elif "CRASH" in res:
            oracle_mismatch.append((ci, None, "crash: " + res["CRASH"], None))
        if chain:
            hist["chains"] += 1
        else:
            hist["nonchain"] += 1
        for o in opts:
            if o not in CODES:
                continue
            terms.append(model_term_anywhere(st, cli, o, defaults))
            meta.append((ci, o, ANYWHERE))
            if chain and isinstance(res, dict) and "CRASH" not in res:
                # oracle (one direction, as the property needs it): a code that the documented precedence enables
                # for SOME module -- a queried one, one named by an override, or one no setting mentions --
                # must be reported as enabled anywhere
                probes = {tuple(q) for q in qs} | override_paths(st) | {(), ("zz_unmentioned",), ("pa", "zz_unmentioned")}
                witness = next((p for p in sorted(probes) if oracle_lookup(st, nreach, cli, o, p, defaults)), None)
                n_anywhere += 1
                if witness is not None and not res[(ANYWHERE, o)]:
                    oracle_mismatch.append((ci, (o, list(witness)), "is_error_code_enabled_anywhere() = False", f"True: enabled for module {'.'.join(witness) or '<top level>'}"))
        for (o, q) in queries:
            terms.append(model_term(st, cli, o, q, defaults))
            meta.append((ci, o, q))
            if chain and isinstance(res, dict) and "CRASH" not in res:
                want = oracle_lookup(st, nreach, cli, o, q, defaults)
                got = res[(o, tuple(q))]
                if got != want:
                    oracle_mismatch.append((ci, (o, q), got, want))
    hist["err"] = n_err

    # 4. run the model
    model_ok = proof is not None and not any("build failed" in b for b in proof.broken)
    corr_mismatch = []
    distinct = set()
    if model_ok:
        try:
            results = lib.coq_eval(
                "From Coq Require Import ZArith List NArith. Import ListNotations.\nRequire Import PV.Options.Base PV.Options.Parse.",
                terms,
                name="c18",
            )
            for (ci, o, q), r in zip(meta, results):
                m = decode_model(o, r)
                res = impl_results[ci]
                if isinstance(res, dict) and "CRASH" in res:
                    continue
                i = "ERR" if res == "ERR" else (res[(ANYWHERE, o)] if q == ANYWHERE else res[(o, tuple(q))])
                distinct.add((repr(cases[ci][0]), o, q if q == ANYWHERE else tuple(q)))
                if m != i:
                    corr_mismatch.append((ci, (o, q), i, m))
        except RuntimeError as ex:
            rep.violation({"kind": "broken-correspondence", "correspondence": "Options.Parse.effective vs Options.from_option_list", "detail": str(ex)[-1500:]}, no_failing_input=True)

    # 5. verdicts
    def case_payload(ci, q):
        st, cli, qs = cases[ci]
        return {"stack": st, "cli": cli, "queries": [list(q[1])] if q and q[1] != ANYWHERE else [list(x) for x in qs], "toml": [render_entries(f, [f"f{i}.toml" for i in range(len(st))], True) for f in st]}

    for ci, q, got, want in oracle_mismatch[:10]:
        rep.violation({"kind": "failing-input", "input": case_payload(ci, q), "query": q, "observed": got, "expected": want,
                       "how_to_run": "./check C18 --replay <this file>", "oracle": "documented precedence (oracle_lookup)"})
    found_input = bool(oracle_mismatch)
    if corr_mismatch and not found_input:
        ci, q, i, m = corr_mismatch[0]
        rep.violation({"kind": "broken-correspondence", "correspondence": "Options.Parse.effective vs Options.from_option_list",
                       "input": case_payload(ci, q), "query": q, "observed": i, "model": m}, no_failing_input=True)
    if broken_translation and not found_input:
        rep.violation({"kind": "broken-obligation", "theorem": "Gen/Options.v (translator)", "detail": broken_translation}, no_failing_input=True)
    if proof is not None and not proof.ok and not found_input:
        rep.violation({"kind": "broken-obligation", "theorem": "; ".join(proof.broken), "log": proof.log[-1500:]}, no_failing_input=True)

    rep.coverage.update(
        evaluations=len(terms),
        distinct_nontrivial=len(distinct),
        rule="random TOML stacks (<=3 files, top-level + override sections for nested prefixes, disable_all, extend placement shuffled among keys, CLI subsets) "
        "+ a malformed stream (unknown key, ill-typed value, top-level module, nested overrides, non-string/missing/recursive extend_config, non-list overrides, non-dict override, missing module) "
        "+ enumeration of small chains for the integer option; a case = (stack, cli, option, module path); distinct = distinct (stack, option, path) compared model vs implementation",
        samples=[{"toml": case_payload(0, None)["toml"], "cli": cases[0][1], "impl": str(impl_results[0])[:300]}] if cases else [],
        traces_validated_against_impl=len(terms) - len(corr_mismatch),
        input_distribution=hist,
        cases_through_prepare_constructor_kwargs=n_via,
        enabled_anywhere_oracle_checks=n_anywhere,
        correspondence_mismatches=len(corr_mismatch),
        oracle_mismatches=len(oracle_mismatch),
        exhaustive=False,
    )
    rep.assumptions = ["Python's sorted() is a stable sort", "tomli preserves key order", "translator harness/translate/options.py"]
    return rep.finish(
        proof,
        "coq_makefile + make theories/Properties/C18.vo; coqc theories/Properties/C18.v (Print Assumptions)" + ("; coqchk -o" if tier == "thorough" else ""),
        ["Coq 8.16.1 kernel (coqc; vm_compute used in Examples and model evaluation)", "translator harness/translate/options.py", "correspondence harness/c18.py", "CPython sorted() stability, tomli key order"],
    )


def all_entries(f):
    for e in f:
        yield e
        if e[0] == "overrides" and e[1][0] == "list":
            for o in e[1][1]:
                if o[0] == "sec":
                    yield from o[2]


def totuple(stack):
    """JSON form of a stack -> the tuple form used by the generator."""

    def entry(e, top):
        k = e[0]
        if k == "set":
            return ("set", e[1], e[2])
        if k == "extend":
            return ("extend", tuple(e[1]))
        if k == "overrides":
            ov = e[1]
            if ov[0] == "notlist":
                return ("overrides", ("notlist",))
            items = []
            for o in ov[1]:
                if o[0] == "notdict":
                    items.append(("notdict",))
                else:
                    path = o[1]
                    if isinstance(path, list):
                        path = tuple(path)
                    items.append(("sec", path, [entry(x, False) for x in o[2]]))
            return ("overrides", ("list", items))
        return tuple(e)

    return [[entry(e, True) for e in f] for f in stack]
