"""C19 — operations on known objects agree with performing them.

proof      : Properties/C19.v over Gen/Ops.v (translated from implementation.py /
             name_check_visitor.py) + Ops/Dispatch.v + Ops/SeqIndex.v
tie        : translator + correspondence (Dispatch.pa_binop / pa_unop and
             SeqIndex.seq_getitem_int / seq_getitem_slice vs the real checker)
oracle     : CPython itself: every generated expression is really evaluated
             (eval in the module pyanalyze exec'd); attribute access has no model
             and is decided by this differential alone
"""
from __future__ import annotations

import ast
import contextlib
import io
import json
import keyword
import random
import re
import warnings
from pathlib import Path

import lib
from translate import ops as tr_ops

PROP = "C19"
CORPUS = lib.VERIF / "harness" / "corpus" / "C19.json"

PRELUDE = """import os, math, enum, sys
from typing import TYPE_CHECKING
from types import NoneType
class A: pass
class C: pass
class E(enum.Enum):
    a = 1
    b = 2
class IE(enum.IntEnum):
    x = 1
    y = 2
import types as _types
class GA:
    def __getattr__(self, name):
        if name.startswith("dyn"):
            return 1
        raise AttributeError(name)
class SL:
    __slots__ = ("a", "unset")
    def __init__(self):
        self.a = 1
class PR:
    @property
    def good(self):
        return 1
    @property
    def bad(self):
        raise AttributeError("bad")
GA_I = GA()
SL_I = SL()
PR_I = PR()
MODGA = _types.ModuleType("modga")
MODGA.present = 1
MODGA.__getattr__ = lambda name: 2 if name.startswith("dyn") else (_ for _ in ()).throw(AttributeError(name))
"""

# guards: conditions pyanalyze may evaluate definitely (sys.version_info / sys.platform comparisons, TYPE_CHECKING,
# literal True / False), their negations and combinations; an operation is placed in the live or in the dead branch
GUARD_ATOMS = ["sys.version_info >= (3, 0)", "sys.version_info < (3, 0)", "sys.version_info > (3, 8)", "sys.version_info <= (2, 7)",
               "sys.version_info >= (3, 99)", 'sys.platform == "no-such-platform"', 'sys.platform != "no-such-platform"',
               "TYPE_CHECKING", "True", "False", "(3, 0) <= sys.version_info"]
GUARD_SHAPES = ["if", "else", "ifexp_body", "ifexp_else", "and", "or", "if_nested", "elif"]
GUARD_OPS = [("bin", "+", "1", '"x"'), ("bin", "+", "1", "2"), ("sub", "(1, 2, 3)", "7"), ("sub", "(1, 2, 3)", "1"), ("un", "-", '"s"'), ("un", "-", "2"),
             ("attr", "1", "nope"), ("attr", "1", "real"), ("sub", '"abc"', "None"), ("attr", "None", "real"), ("attr", "os", "ptah"), ("attr", "os", "path"),
             ("bin", "*", "(1,)", "1.5"), ("bin", "@", "1", "1"), ("un", "~", "1.5"), ("attr", "E.a", "valu"), ("sub", "None", "0"), ("bin", "|", "int", "None")]

# operations on a variable that an EARLIER statement narrowed / annotated (hasattr, isinstance, callable, ==, truthiness,
# assert, walrus, try/except AttributeError): the narrowing is true at run time by construction, the operation is one the
# narrowing does not vouch for
NARROW_FORMS = ["hasattr", "hasattr_assert", "hasattr_and", "isinstance", "isinstance_assert", "eq", "truthy", "callable", "walrus", "is_none", "tryexc", "hasattr_twice"]

AUGOPS = ["+", "-", "*", "//", "%", "**", "<<", "&", "|", "^", "@", "/", ">>"]
CMPOPS = ["==", "!=", "is", "is not", "in", "not in"]
INSTANCES = {"GA_I": ["dyn_x", "dynamic", "other", "__class__", "__getattr__", "zz"], "SL_I": ["a", "unset", "b", "__slots__", "zz"],
             "PR_I": ["good", "bad", "ugly"], "MODGA": ["present", "dyn_y", "absent", "__name__", "zz"]}
LIT_SUBSCRIPTS = [('"ab"', "0"), ('"ab"', "-1"), ('"ab"', "2"), ('"ab"', '"a"'), ('"ab"', "1:"), ('b"ab"', "0"), ('b"ab"', "5"), ('b"ab"', "None"),
                  ("range(3)", "1"), ("range(3)", "5"), ("range(3)", '"a"'), ("range(3)", "::2"),
                  ('{"a": 1}', '"a"'), ('{"a": 1}', '"b"'), ('{"a": 1}', "0"), ("{1: 2}", "1"), ("{1: 2}", "[]"), ("{1: 2}", "(1,)"), ("{}", "0"),
                  ('{"a": 1, "b": (1, 2)}', '"b"'), ("{(1, 2): 3}", "(1, 2)"), ("{None: 1}", "None")]

# the literal universe (source text); DESIGN.md 8a objects restricted to the
# immutable kinds the property names
NUMBERS = ["True", "False", "0", "1", "-1", "2", "255", "256", "300", "0.0", "1.5", "-2.5", "1j"]
STRINGS = ['""', '"a"', '"ab"', 'b""', 'b"a"', 'b"ab"']
TUPLES = ["()", "(1,)", '(1, "a")', "(1, 2, 3)", "((1,), 2)", '(None, b"a", 1.5, "x")']
OTHERS = ["None", "E.a", "E.b", "IE.x", "IE.y", "int", "str", "bool", "A", "E", "IE", "os", "math"]
OPERANDS = NUMBERS + STRINGS + TUPLES + OTHERS
# thorough tier: a larger universe
EXTRA = ["10", "-7", "3.0", "-0.0", "2j", "1e308", '"abc"', '"A b"', 'b"xyz"', "(0, 1)", '("a", "b")', "((), ())", "(1.5, None)",
         "float", "tuple", "bytes", "complex", "type", "object", "C", "enum", "NoneType", "Ellipsis"]

BINOPS = {
    "+": ("__add__", "__radd__"),
    "-": ("__sub__", "__rsub__"),
    "*": ("__mul__", "__rmul__"),
    "/": ("__truediv__", "__rtruediv__"),
    "//": ("__floordiv__", "__rfloordiv__"),
    "%": ("__mod__", "__rmod__"),
    "**": ("__pow__", "__rpow__"),
    "<<": ("__lshift__", "__rlshift__"),
    ">>": ("__rshift__", "__rrshift__"),
    "&": ("__and__", "__rand__"),
    "|": ("__or__", "__ror__"),
    "^": ("__xor__", "__rxor__"),
    "@": ("__matmul__", "__rmatmul__"),
}
UNOPS = {"-": "__neg__", "+": "__pos__", "~": "__invert__"}

INDICES = ["0", "1", "2", "3", "-1", "-2", "-3", "-4", "-5", "5", "True", "None", '"a"', "1.5", "(0,)"]
SLICES = ["1:", ":1", "::2", ":-1", "::-1", "-2:", "1:3", "3:0:-1", "-1::-2", ":0", "5:", ":-5", "::0", "-4:-1", "::-3"]

ATTR_POOL = [
    "real", "imag", "numerator", "upper", "uper", "name", "value", "_name_", "_value_", "path", "ptah", "a", "b", "x", "zz",
    "__class__", "__doc__", "__name__", "__len__", "__mro__", "__members__", "count", "index", "bit_length", "conjugate",
    "pi", "sep", "__add__", "__hash__", "decode", "encode", "__module__", "is_integer", "called", "call_count", "join",
    "__qualname__", "__bases__", "__index__", "sqrt", "getcwd", "lower", "lowr", "hex", "fromhex", "__getitem__", "e",
]

# classes usable as sequence members: pairwise disjoint under isinstance, no numeric promotion
MEMBER_CLASSES = ["int", "str", "bytes", "A", "C"]
MEMBER_SAMPLES = {"int": ["7", "0"], "str": ['"s"', '""'], "bytes": ['b"b"'], "A": ["A()"], "C": ["C()"]}

RELEVANT = {"undefined_attribute", "unsupported_operation", "incompatible_call", "incompatible_argument", "not_callable", "internal_error",
            "attribute_is_never_set", "unhashable_key"}
# codes that are not about whether the operation is supported (lint / style / other properties)
IGNORED_CODES = {"unsafe_comparison", "unused_variable", "unused_assignment", "value_always_true", "type_always_true", "use_fstrings", "possibly_undefined_name", "implicit_reexport"}
IGNORED_END_OF_REFERENCE = {"call_count", "assert_has_calls", "reset_mock", "called", "assert_called_once", "assert_called_once_with",
                            "assert_called_with", "count", "assert_any_call", "assert_not_called"}


# ---------------------------------------------------------------------------
# cases
#   ("un", op, a) | ("bin", op, a, b) | ("not", a)
#   ("sub", a, index_src)                      literal operand, literal index / slice
#   ("attr", a, name)
#   ("seq", kind, [(is_many, cls)], key_src)   kind: "tuple" | "list" display built from typed parameters


def case_expr(c):
    k = c[0]
    if k == "un":
        return f"{c[1]}({c[2]})"
    if k == "not":
        return f"not ({c[1]})"
    if k == "bin":
        return f"({c[2]}) {c[1]} ({c[3]})"
    if k == "sub":
        return f"({c[1]})[{c[2]}]"
    if k == "attr":
        return f"({c[1]}).{c[2]}"
    if k == "seq":
        return f"s[{c[3]}]"
    if k == "aug":          # evaluated by three statements (see build_module); this is the display form
        return f"_t = ({c[2]}); _t {c[1]}= ({c[3]}); _t"
    if k == "call":
        return f"{c[1]}(" + ", ".join(f"({a})" for a in c[2]) + ")"
    if k == "cmp":
        return f"({c[2]}) {c[1]} ({c[3]})"
    if k == "chain":
        return f"({c[1]}) {c[2]} ({c[3]}) {c[4]} ({c[5]})"
    if k == "guard":
        return guard_lines(c, "_v")[1]
    if k == "narrow":
        return "; ".join(x.strip() for x in narrow_lines(c, "_v")[0])
    raise ValueError(c)


def narrow_lines(c, target, indent=""):
    """-> (lines, index of the line holding the operation); c = ("narrow", form, operand, attr, typ, op)"""
    _, form, operand, attr, typ, op = c
    e = case_expr(norm_case(op))
    i0, i1 = indent, indent + "    "
    ls = [f"{i0}x = ({operand})"]
    if form == "hasattr":
        ls += [f"{i0}if hasattr(x, {attr!r}):", f"{i1}{target} = {e}"]
    elif form == "hasattr_assert":
        ls += [f"{i0}assert hasattr(x, {attr!r})", f"{i0}{target} = {e}"]
    elif form == "hasattr_and":
        ls += [f"{i0}{target} = hasattr(x, {attr!r}) and ({e})"]
    elif form == "hasattr_twice":
        ls += [f"{i0}if hasattr(x, {attr!r}) and hasattr(x, '__class__'):", f"{i1}{target} = {e}"]
    elif form == "isinstance":
        ls += [f"{i0}if isinstance(x, {typ.lstrip('!')}):", f"{i1}{target} = {e}"]
    elif form == "isinstance_assert":
        ls += [f"{i0}assert isinstance(x, {typ.lstrip('!')})", f"{i0}{target} = {e}"]
    elif form == "eq":
        ls += [f"{i0}if x == ({operand}):", f"{i1}{target} = {e}"]
    elif form == "truthy":
        ls += [f"{i0}if x or not x:", f"{i1}{target} = {e}"]
    elif form == "callable":       # typ carries a leading "!" when the operand is not callable: the test is true at run time
        ls += [f"{i0}if {'not ' if typ.startswith('!') else ''}callable(x):", f"{i1}{target} = {e}"]
    elif form == "walrus":
        ls += [f"{i0}if (y := x) is x:", f"{i1}{target} = {e}"]
    elif form == "is_none":
        ls += [f"{i0}if x is not None or x is None:", f"{i1}{target} = {e}"]
    elif form == "tryexc":
        ls += [f"{i0}try:", f"{i1}x.{attr}", f"{i0}except AttributeError:", f"{i1}pass", f"{i0}{target} = {e}"]
    else:
        raise ValueError(form)
    return ls, len(ls) - 1


def guard_lines(c, target, indent=""):
    """-> (lines, one-line display, index of the line that holds the operation)"""
    _, shape, g, op = c
    e = case_expr(norm_case(op))
    i1 = indent + "    "
    if shape == "if":
        ls = [f"{indent}if {g}:", f"{i1}{target} = {e}"]
        at = 1
    elif shape == "else":
        ls = [f"{indent}if {g}:", f"{i1}pass", f"{indent}else:", f"{i1}{target} = {e}"]
        at = 3
    elif shape == "elif":
        ls = [f"{indent}if False:", f"{i1}pass", f"{indent}elif {g}:", f"{i1}{target} = {e}"]
        at = 3
    elif shape == "if_nested":
        ls = [f"{indent}if True:", f"{i1}if {g}:", f"{i1}    {target} = {e}"]
        at = 2
    elif shape == "ifexp_body":
        ls = [f"{indent}{target} = ({e}) if ({g}) else None"]
        at = 0
    elif shape == "ifexp_else":
        ls = [f"{indent}{target} = None if ({g}) else ({e})"]
        at = 0
    elif shape == "and":
        ls = [f"{indent}{target} = ({g}) and ({e})"]
        at = 0
    elif shape == "or":
        ls = [f"{indent}{target} = ({g}) or ({e})"]
        at = 0
    else:
        raise ValueError(shape)
    return ls, "; ".join(x.strip() for x in ls), at


def guard_live(shape, g_value):
    """is the operation performed, given the truth value of the guard at run time"""
    return bool(g_value) if shape in ("if", "elif", "if_nested", "ifexp_body", "and") else not bool(g_value)


def norm_case(c):
    c = list(c)
    if c[0] == "seq":
        c[2] = [(bool(m), str(t)) for m, t in c[2]]
        return ("seq", c[1], tuple(c[2]), c[3])
    if c[0] == "call":
        return ("call", c[1], tuple(c[2]))
    if c[0] == "guard":
        return ("guard", c[1], c[2], norm_case(c[3]))
    if c[0] == "narrow":
        return ("narrow", c[1], c[2], c[3], c[4], norm_case(c[5]))
    return tuple(c)


def gen_cases(rng, tier):
    cases = []
    quick = tier == "quick"
    OPERANDS = globals()["OPERANDS"] + ([] if quick else EXTRA)
    TUPLES = [o for o in OPERANDS if o.startswith("(")]
    # unary: exhaustive
    for a in OPERANDS:
        for u in UNOPS:
            cases.append(("un", u, a))
        cases.append(("not", a))
    # binary: exhaustive in thorough, stratified sample in quick
    pairs = [(a, b) for a in OPERANDS for b in OPERANDS]
    for op in BINOPS:
        ps = pairs
        for a, b in ps:
            if op == "%" and a[:1] in ('"', "b") and a not in ("bool",):
                continue  # str/bytes % x is the format operator: property C17
            cases.append(("bin", op, a, b))
    # subscripts on literal operands
    for a in OPERANDS:
        idx = INDICES + SLICES
        if quick and a not in TUPLES:
            idx = rng.sample(idx, 14)
        for i in idx:
            cases.append(("sub", a, i))
    # attributes: names that exist on the real object, near-misses, and a fixed pool
    ns = {}
    exec(PRELUDE, ns)
    for a in OPERANDS:
        obj = eval(a, ns)
        have = sorted(n for n in dir(obj) if n.isidentifier())
        names = set(rng.sample(have, min(len(have), 14 if quick else 40)))
        for n in rng.sample(have, min(len(have), 8 if quick else 20)):
            j = rng.randrange(len(n))
            names.add(n[:j] + n[j + 1 :] if len(n) > 1 else n + "q")  # drop one character
        pool = ATTR_POOL if not quick else rng.sample(ATTR_POOL, 24)
        names.update(pool)
        for n in sorted(names):
            if keyword.iskeyword(n):
                continue
            if n.isidentifier() and not n.startswith("__") or n in ATTR_POOL:
                cases.append(("attr", a, n))
    # augmented assignment, builtins divmod / three-argument pow, ==, !=, is, in and chains of them
    for op in AUGOPS:
        for a, b in rng.sample(pairs, 110 if quick else 700):
            if op == "%" and a[:1] in ('"', "b") and a != "bool":
                continue
            cases.append(("aug", op, a, b))
    for a, b in rng.sample(pairs, 250 if quick else 1444):
        cases.append(("call", "divmod", (a, b)))
    pw = ["2", "3", "5", "0", "-1", "1.5", '"a"', "None", "True", "IE.x"]
    trip = [(a, b, c) for a in pw for b in pw for c in pw]
    for t in (rng.sample(trip, 250) if quick else trip):
        cases.append(("call", "pow", t))
    for op in CMPOPS:
        for a, b in rng.sample(pairs, 140 if quick else 1444):
            cases.append(("cmp", op, a, b))
    for _ in range(250 if quick else 3000):
        a, b, c = (rng.choice(OPERANDS) for _ in range(3))
        cases.append(("chain", a, rng.choice(CMPOPS), b, rng.choice(CMPOPS), c))
    # attribute access on instances with __getattr__ / __slots__ / raising properties, and a module with __getattr__
    for inst, names in INSTANCES.items():
        for n in names:
            cases.append(("attr", inst, n))
    # str / bytes / range / dict literals subscripted by literal keys
    for a, i in LIT_SUBSCRIPTS:
        cases.append(("sub", a, i))
    # every kind of operation under guards, in the live and in the dead branch
    guards = list(GUARD_ATOMS)
    guards += [f"not {g}" if " " not in g else f"not ({g})" for g in GUARD_ATOMS] + [f"not {g}" for g in GUARD_ATOMS if g.startswith("sys.")]
    guards += [f"not not ({g})" for g in GUARD_ATOMS[:6]]
    for _ in range(24):
        a, b = rng.choice(GUARD_ATOMS), rng.choice(GUARD_ATOMS)
        guards.append(rng.choice(["({}) and ({})", "({}) or ({})", "not (({}) and ({}))", "not (({}) or ({}))", "({}) and not ({})"]).format(a, b))
    guards = list(dict.fromkeys(guards))
    gcases = [("guard", sh, g, op) for g in guards for sh in GUARD_SHAPES for op in GUARD_OPS]
    for gc in (rng.sample(gcases, 1500) if quick else gcases):
        cases.append(gc)
    # operations on a variable narrowed by an earlier statement
    ncases = []
    tname = {int: "int", str: "str", bytes: "bytes", float: "float", complex: "complex", tuple: "tuple", bool: "bool", type(None): "type(None)"}
    for a in OPERANDS:
        obj = eval(a, ns)
        pub = sorted(n for n in dir(obj) if n.isidentifier() and not n.startswith("_") and not keyword.iskeyword(n))
        attr = pub[0] if pub else "__class__"
        other = pub[-1] if pub else "__doc__"
        typ = tname.get(type(obj)) or ("E" if type(obj).__name__ == "E" else "IE" if type(obj).__name__ == "IE" else "type" if isinstance(obj, type) else "object")
        if not callable(obj):
            typ = "!" + typ
        miss = (attr[:-1] if len(attr) > 1 else attr + "q")
        if miss in dir(obj):
            miss = attr + "_zz"
        ops = [("attr", "x", other), ("attr", "x", miss), ("attr", "x", "zz"), ("bin", "+", "x", '"a"'), ("bin", "+", "x", "1"), ("sub", "x", "0"), ("sub", "x", "7"), ("un", "-", "x")]
        for form in NARROW_FORMS:
            for op in ops:
                ncases.append(("narrow", form, a, attr, typ, op))
    for nc in (rng.sample(ncases, 800) if quick else ncases):
        cases.append(nc)
    # typed sequences built by tuple / list displays
    n_seq = 900 if quick else 6000
    for _ in range(n_seq):
        n = rng.choice([0, 1, 2, 2, 3, 3, 4, 5])
        nmany = rng.choice([0, 0, 1, 1, 1, 2])
        ms = [(False, rng.choice(MEMBER_CLASSES)) for _ in range(n)]
        for _ in range(nmany):
            ms.insert(rng.randrange(len(ms) + 1), (True, rng.choice(MEMBER_CLASSES)))
        kind = rng.choice(["tuple", "tuple", "list"])
        if rng.random() < 0.8:
            key = str(rng.randrange(-len(ms) - 2, len(ms) + 2))
        else:
            key = rng.choice(SLICES[:12])
        cases.append(("seq", kind, tuple(ms), key))
    # small exhaustive family around the repaired offset: one unpacked member, every position, every key
    for total in (1, 2, 3, 4, 5) if quick else (1, 2, 3, 4, 5, 6, 7):
        for pos in range(total):
            ms = tuple((i == pos, MEMBER_CLASSES[i % len(MEMBER_CLASSES)]) for i in range(total))
            for key in range(-total - 1, total + 1):
                cases.append(("seq", "tuple", ms, str(key)))
    return cases


# ---------------------------------------------------------------------------
# implementation side: run pyanalyze on modules holding many cases


def build_module(cases):
    """-> (source, [(lineno of the observed assignment)])"""
    lines = PRELUDE.splitlines()
    linenos = []
    plain = [(i, c) for i, c in enumerate(cases) if c[0] not in ("seq", "narrow")]
    narrows = [(i, c) for i, c in enumerate(cases) if c[0] == "narrow"]
    seqs = [(i, c) for i, c in enumerate(cases) if c[0] == "seq"]
    where = {}
    if plain:
        lines.append("def f():")
        for i, c in plain:
            if c[0] == "guard":
                ls, _, at = guard_lines(c, f"_v{i}", "    ")
                start = len(lines)
                lines.extend(ls)
                where[i] = start + at + 1
                continue
            if c[0] == "aug":
                lines.append(f"    _t{i} = ({c[2]})")
                lines.append(f"    _t{i} {c[1]}= ({c[3]})")
                where[("aug", i)] = len(lines)
                lines.append(f"    _v{i} = _t{i}")
            else:
                lines.append(f"    _v{i} = {case_expr(c)}")
            where[i] = len(lines)
    for i, c in narrows:
        lines.append(f"def w{i}():")
        ls, at = narrow_lines(c, f"_v{i}", "    ")
        start = len(lines)
        lines.extend(ls)
        where[i] = start + at + 1
    for i, c in seqs:
        _, kind, ms, key = c
        params = ", ".join(f"a{j}: {'list[' + t + ']' if many else t}" for j, (many, t) in enumerate(ms))
        elts = ", ".join(("*" if many else "") + f"a{j}" for j, (many, t) in enumerate(ms))
        lines.append(f"def g{i}({params}):")
        if kind == "tuple":
            lines.append(f"    s = ({elts}{',' if ms else ''})")
        else:
            lines.append(f"    s = [{elts}]")
        lines.append(f"    _v{i} = s[{key}]")
        where[i] = len(lines)
    return "\n".join(lines) + "\n", [(where[i], where.get(("aug", i))) for i in range(len(cases))]


def describe_value(v, mod):
    """Value -> JSON-able description; fail-closed ('other') on shapes outside the fragment."""
    from pyanalyze.value import AnyValue, GenericValue, KnownValue, MultiValuedValue, SequenceValue, TypedValue

    if isinstance(v, KnownValue):
        return {"k": "known"}
    if isinstance(v, AnyValue):
        return {"k": "any", "source": v.source.name}
    if isinstance(v, SequenceValue):
        return {"k": "seq", "typ": getattr(v.typ, "__name__", str(v.typ)), "members": [[m, describe_value(x, mod)] for m, x in v.members]}
    if isinstance(v, GenericValue):
        return {"k": "generic", "typ": getattr(v.typ, "__name__", str(v.typ)), "args": [describe_value(x, mod) for x in v.args]}
    if isinstance(v, TypedValue):
        return {"k": "typed", "typ": getattr(v.typ, "__name__", str(v.typ))}
    if isinstance(v, MultiValuedValue):
        return {"k": "union", "vals": [describe_value(x, mod) for x in v.vals]}
    return {"k": "other", "repr": str(v)[:80]}


def same_object(a, b):
    """equal in value and type (the property's notion for literals)"""
    if a is b:
        return True
    if type(a) is not type(b):
        return False
    try:
        if isinstance(a, tuple):
            return len(a) == len(b) and all(same_object(x, y) for x, y in zip(a, b))
        if isinstance(a, float):
            return repr(a) == repr(b)
        if isinstance(a, complex):
            return repr(a) == repr(b)
        if hasattr(a, "__self__") and hasattr(b, "__self__") and not isinstance(a, type):
            # bound (builtin) methods compare their receivers by identity: compare structurally instead
            return getattr(a, "__name__", None) == getattr(b, "__name__", None) and same_object(a.__self__, b.__self__)
        return bool(a == b)
    except Exception:
        return False


def short(o):
    try:
        r = repr(o)
    except Exception:
        r = "<unreprable>"
    r = r if len(r) < 90 else r[:87] + "..."
    return f"{type(o).__name__}:{r}"


def run_chunk(cases):
    """Run the real checker and CPython on one module.  Returns per case a dict:
    codes, inferred (description), known_matches_actual, oracle {exc | value}, sides (operators)."""
    from pyanalyze.analysis_lib import make_module
    from pyanalyze.error_code import ErrorCode
    from pyanalyze.name_check_visitor import ClassAttributeChecker, NameCheckVisitor
    from pyanalyze.value import KnownValue

    src, linenos = build_module(cases)
    tree = ast.parse(src)
    mod = make_module(src)
    kwargs = NameCheckVisitor.prepare_constructor_kwargs({})
    with contextlib.redirect_stderr(io.StringIO()), contextlib.redirect_stdout(io.StringIO()):
        with ClassAttributeChecker(enabled=True, options=kwargs["checker"].options) as ac:
            v = NameCheckVisitor("", src, tree, module=mod, settings={c: True for c in ErrorCode}, attribute_checker=ac,
                                 annotate=True, fail_after_first=False, **kwargs)
            errors = v.check_for_test()
        errors = errors + list(getattr(ac, "all_failures", []))
    by_line = {}
    for e in errors:
        by_line.setdefault(e["lineno"], []).append((e["code"].name, (e.get("message") or e.get("description") or "")[:160]))
    assigns = {}
    for node in ast.walk(tree):
        if isinstance(node, ast.Assign) and len(node.targets) == 1 and isinstance(node.targets[0], ast.Name) and node.targets[0].id.startswith("_v"):
            assigns[node.lineno] = node
    ns = mod.__dict__
    out = []
    for c, (ln, aug_ln) in zip(cases, linenos):
        errs = by_line.get(ln, []) + (by_line.get(aug_ln, []) if aug_ln else [])
        node = assigns[ln]
        inferred = getattr(node.value, "inferred_value", None)
        rec = {"codes": sorted({code for code, _ in errs}), "messages": [m for _, m in errs][:3], "inferred": describe_value(inferred, mod)}
        if c[0] == "seq":
            rec["oracle"] = seq_oracle(c, ns, inferred)
        else:
            with warnings.catch_warnings():
                warnings.simplefilter("ignore")
                try:
                    if c[0] == "narrow":
                        loc = {}
                        exec("\n".join(narrow_lines(c, "_v")[0]), ns, loc)
                        rec["live"] = "_v" in loc
                        val = loc.get("_v")
                    elif c[0] == "guard":
                        # run the guarded statement under CPython: the operation is performed only in the live branch
                        rec["live"] = guard_live(c[1], eval(c[2], ns))
                        loc = {}
                        exec("\n".join(guard_lines(c, "_v")[0]), ns, loc)
                        val = loc.get("_v")
                    elif c[0] == "chain":
                        # a op1 b op2 c short-circuits; the property is about each operation being performed
                        excs, vals = [], []
                        for link in (f"({c[1]}) {c[2]} ({c[3]})", f"({c[3]}) {c[4]} ({c[5]})"):
                            try:
                                vals.append(bool(eval(link, ns)))
                            except Exception as ex1:
                                excs.append(ex1)
                        for ex1 in excs:  # a TypeError of any link is what must be diagnosed
                            if isinstance(ex1, TypeError):
                                raise ex1
                        if excs:
                            raise excs[0]
                        val = all(vals)
                    elif c[0] == "aug":
                        loc = {}
                        exec(f"_t = ({c[2]})\n_t {c[1]}= ({c[3]})", ns, loc)
                        val = loc["_t"]
                    else:
                        val = eval(case_expr(c), ns)
                    rec["oracle"] = {"value": short(val)}
                    if isinstance(inferred, KnownValue):
                        rec["literal_ok"] = same_object(inferred.val, val)
                        rec["inferred"]["repr"] = short(inferred.val)
                except Exception as ex:
                    rec["oracle"] = {"exc": type(ex).__name__}
                    if isinstance(inferred, KnownValue):
                        rec["inferred"]["repr"] = short(inferred.val)
            if c[0] == "narrow":
                if c[1] == "hasattr_and":
                    rec.pop("literal_ok", None)
            if c[0] == "guard":
                rec.pop("literal_ok", None)  # the value of the guarded statement is not the value of the operation
            if c[0] in ("un", "bin"):
                rec["sides"] = observe_sides(c, ns)
            if c[0] == "aug":
                a, b = eval(c[2], ns), eval(c[3], ns)
                rec["sides"] = observe_sides(("bin", c[1], c[2], c[3]), ns)
                rec["sides"]["i"] = observe_side(a, "__i" + BINOPS[c[1]][0][2:], [b])
            if c[0] == "sub":
                rec["sub"] = observe_sub(c, ns, inferred)
            if c[0] == "attr":
                obj = eval(c[1], ns)
                rec["only_known_attrs"] = _only_known(v, obj)
                rec["attr_obs"] = observe_attr(v, obj, c[2], c[1])
        out.append(rec)
    return out


def _only_known(visitor, obj):
    try:
        from pyanalyze.name_check_visitor import _has_only_known_attributes

        return bool(_has_only_known_attributes(visitor.checker.ts_finder, obj))
    except Exception:
        return None


def observe_attr(visitor, obj, name, operand_src=""):
    """what the attribute model needs to know about the real object and the stubs"""
    import enum
    import inspect
    import types as _t

    from pyanalyze import attributes
    from pyanalyze.value import UNINITIALIZED_VALUE, CallableValue

    if isinstance(obj, _t.ModuleType):
        kind = "KModule"
    elif isinstance(obj, type) and issubclass(obj, enum.Enum):
        kind = "KEnumClass"
    elif isinstance(obj, type):
        kind = "KClass"
    else:
        kind = "KInstance"
    with warnings.catch_warnings():
        warnings.simplefilter("ignore")
        try:
            getattr(obj, name)
            real = "RHas"
        except AttributeError:
            real = "RRaisesAttr"
        except Exception:
            real = "RRaisesOther"
    bases = []
    if kind in ("KClass", "KEnumClass"):
        for base in type.mro(obj):
            try:
                st = visitor.checker.ts_finder.get_attribute(base, name, on_class=True)
            except Exception:
                st = UNINITIALIZED_VALUE
            stub = "NoStub" if st is UNINITIALIZED_VALUE else ("StubCallable" if isinstance(st, CallableValue) else "StubValue")
            try:
                annot = name in base.__dict__.get("__annotations__", {})
            except Exception:
                annot = False
            bases.append([stub, bool(annot), name in base.__dict__])
    return {
        "kind": kind, "real": real, "bases": bases,
        "enum_dynamic": isinstance(inspect.getattr_static(obj, name, None), _t.DynamicClassAttribute),
        "module_annot": kind == "KModule" and name in getattr(obj, "__annotations__", {}),
        "only_known": bool(_only_known(visitor, obj)),
        "has_getattr": bool(attributes._static_hasattr(obj, "__getattr__")),
        # _should_ignore_val works on the attribute *path*: only a dotted name has one (os.count, E.a.count; not (1).count)
        "ignored_name": name in IGNORED_END_OF_REFERENCE and re.fullmatch(r"[A-Za-z_][A-Za-z_0-9.]*", operand_src) is not None and operand_src not in ("True", "False", "None"),
    }


def attr_term(o):
    bases = lib.clist([f"(mkBase {b[0]} {lib.cbool(b[1])} {lib.cbool(b[2])})" for b in o["bases"]])
    t = (f"(mkObs {o['kind']} {o['real']} {bases} {lib.cbool(o['enum_dynamic'])} {lib.cbool(o['module_annot'])} "
         f"{lib.cbool(o['only_known'])} {lib.cbool(o['has_getattr'])} {lib.cbool(o['ignored_name'])})")
    return f"(pa_attr {t}, attr_guard {t})"


def _lookup(t, name):
    for k in t.__mro__:
        if name in k.__dict__:
            return k.__dict__[name]
    return None


def observe_side(recv, name, args):
    """what type(recv).<name>(recv, *args) really does"""
    t = type(recv)
    if _lookup(t, name) is None:  # operators look the method up on the type's MRO only (not on the metatype)
        return {"exists": False, "out": "missing"}
    with warnings.catch_warnings():
        warnings.simplefilter("ignore")
        try:
            r = getattr(t, name)(recv, *args)
        except TypeError:
            return {"exists": True, "out": "raise_type"}
        except Exception:
            return {"exists": True, "out": "raise_other"}
    if r is NotImplemented:
        return {"exists": True, "out": "notimpl"}
    return {"exists": True, "out": "val", "val": short(r)}


def observe_sides(c, ns):
    if c[0] == "un":
        a = eval(c[2], ns)
        return {"l": observe_side(a, UNOPS[c[1]], [])}
    a, b = eval(c[2], ns), eval(c[3], ns)
    m, rm = BINOPS[c[1]]
    tl, tr = type(a), type(b)
    same = tl is tr or (_lookup(tl, rm) is not None and _lookup(tl, rm) is _lookup(tr, rm))
    prio = tl is not tr and issubclass(tr, tl) and _lookup(tr, rm) is not _lookup(tl, rm)
    return {"l": observe_side(a, m, [b]), "r": observe_side(b, rm, [a]), "same_impl": bool(same), "r_priority": bool(prio)}


def parse_key(src):
    """index source -> ("int", k) | ("slice", (a, b, c)) | None (not an int/slice literal)"""
    try:
        node = ast.parse(f"x[{src}]", mode="eval").body.slice
    except SyntaxError:
        return None

    def lit(n):
        if n is None:
            return None
        v = ast.literal_eval(n)
        if type(v) is int or v is None:
            return v
        raise ValueError

    try:
        if isinstance(node, ast.Slice):
            return ("slice", (lit(node.lower), lit(node.upper), lit(node.step)))
        if isinstance(node, ast.Call) and ast.unparse(node.func) == "slice":
            a = [lit(x) for x in node.args]
            if len(a) == 1:
                a = [None, a[0], None]
            elif len(a) == 2:
                a = [a[0], a[1], None]
            return ("slice", tuple(a))
        v = ast.literal_eval(node)
        if type(v) is int:
            return ("int", v)
    except (ValueError, SyntaxError):
        return None
    return None


def observe_sub(c, ns, inferred):
    """for a literal tuple operand and int/slice key: which element positions the inferred literal is made of"""
    from pyanalyze.value import KnownValue

    a = eval(c[1], ns)
    key = parse_key(c[2])
    if not isinstance(a, tuple) or key is None:
        return None
    info = {"n": len(a), "key": key}
    if isinstance(inferred, KnownValue):
        if key[0] == "int":
            info["got"] = [i for i, x in enumerate(a) if same_object(x, inferred.val)]
        elif isinstance(inferred.val, tuple):
            info["got_tuple"] = [short(x) for x in inferred.val]
            info["elems"] = [short(x) for x in a]
    return info


def decode_classes(desc):
    """inferred value description -> set of class names, or None for Any / out of fragment"""
    if desc["k"] == "typed":
        return {desc["typ"]}
    if desc["k"] == "union":
        out = set()
        for d in desc["vals"]:
            s = decode_classes(d)
            if s is None:
                return None
            out |= s
        return out
    return None


def seq_oracle(c, ns, inferred):
    """instantiate the member pattern with concrete objects (0..2 repetitions of every
    unpacked member), perform s[key] under CPython, and test the result against the inferred value"""
    import itertools

    _, kind, ms, key = c
    desc = describe_value(inferred, None)
    reps = [[1] if not many else [0, 1, 2] for many, _ in ms]
    insts = []
    for combo in itertools.islice(itertools.product(*reps), 0, 27):
        elems = []
        for (many, t), r in zip(ms, combo):
            for q in range(r):
                elems.append((t, eval(MEMBER_SAMPLES[t][q % len(MEMBER_SAMPLES[t])], ns)))
        insts.append(elems)
    n_index_error = 0
    bad = None
    results = []
    for elems in insts:
        seq = tuple(x for _, x in elems) if kind == "tuple" else [x for _, x in elems]
        try:
            val = eval(f"s[{key}]", {"s": seq})
        except IndexError:
            n_index_error += 1
            results.append("IndexError")
            continue
        except ValueError:
            results.append("ValueError")
            continue
        results.append(short(val))
        ok = value_in(val, desc, ns)
        if ok is False and bad is None:
            bad = {"sequence": short(seq), "value": short(val)}
    return {"instances": len(insts), "index_errors": n_index_error, "bad": bad, "results": results[:6]}


def value_in(val, desc, ns):
    """is the runtime object inside the inferred value?  None = cannot decide (Any / out of fragment)"""
    k = desc["k"]
    if k == "any":
        return None
    if k == "typed":
        return type(val).__name__ == desc["typ"]
    if k == "union":
        rs = [value_in(val, d, ns) for d in desc["vals"]]
        if any(r is True for r in rs):
            return True
        if any(r is None for r in rs):
            return None
        return False
    if k == "seq":
        if type(val).__name__ != desc["typ"]:
            return False
        if any(m for m, _ in desc["members"]):
            return None
        if len(val) != len(desc["members"]):
            return False
        rs = [value_in(x, d, ns) for x, (_, d) in zip(val, desc["members"])]
        if any(r is False for r in rs):
            return False
        return None if any(r is None for r in rs) else True
    if k == "generic":
        if type(val).__name__ != desc["typ"]:
            return False
        if len(desc["args"]) != 1:
            return None
        rs = [value_in(x, desc["args"][0], ns) for x in val]
        if any(r is False for r in rs):
            return False
        return None if any(r is None for r in rs) else True
    return None


def _worker(payload):
    cases = [norm_case(c) for c in payload]
    warnings.simplefilter("ignore")
    try:
        return run_chunk(cases)
    except Exception:
        import traceback

        return {"crash": traceback.format_exc()[-2000:]}


def run_impl(cases, jobs=6, chunk=300):
    chunks = [cases[i : i + chunk] for i in range(0, len(cases), chunk)]
    if len(chunks) <= 1:
        res = [_worker(ch) for ch in chunks]
    else:
        import multiprocessing as mp

        with mp.get_context("fork").Pool(min(jobs, len(chunks))) as pool:
            res = pool.map(_worker, chunks)
    out = []
    for ch, r in zip(chunks, res):
        if isinstance(r, dict) and "crash" in r:
            raise RuntimeError("running pyanalyze on a generated module failed:\n" + r["crash"])
        out.extend(r)
    return out


# ---------------------------------------------------------------------------
# model side


def side_term(s, val_id, stub_accepts=False):
    """observation -> Gallina `side nat`; the stub verdict is *predicted* by the
    consistency hypothesis (s_sigerr := NotImplemented or TypeError)"""
    if not s["exists"]:
        return "(@mkSide nat false false false ONotImpl)"
    o = s["out"]
    out = {"val": f"(OVal {val_id}%nat)", "notimpl": "ONotImpl", "raise_type": "ORaiseType", "raise_other": "ORaiseOther"}[o]
    sigerr = o in ("notimpl", "raise_type") and not stub_accepts  # stub_accepts: predicted by a known finding
    return f"(@mkSide nat true {lib.cbool(sigerr)} false {out})"


def seq_repeat_by_class(c, ns_eval):
    """guard of finding C19-seq-repeat-by-class-object -> which sides' stubs wrongly accept ("l", "r")"""
    if c[0] not in ("bin", "aug") or c[1] != "*":
        return ()
    a, b = ns_eval(c[2]), ns_eval(c[3])
    isseq = lambda x: isinstance(x, (str, bytes, tuple))
    iscls = lambda x: isinstance(x, type) and hasattr(x, "__index__")
    if isseq(a) and iscls(b):
        return ("l",)
    if iscls(a) and isseq(b):
        return ("r",)
    return ()


def op_term(c, rec, accept=()):
    sd = rec["sides"]
    if c[0] == "aug":
        i, l, r = side_term(sd["i"], 3), side_term(sd["l"], 1, "l" in accept), side_term(sd["r"], 2, "r" in accept)
        si, rp = lib.cbool(sd["same_impl"]), lib.cbool(sd["r_priority"])
        return (f"(@pa_aug nat {i} {l} {r}, @py_aug nat {si} {rp} {i} {l} {r}, "
                f"(aug_guard {si} {rp} {i} {l} {r}, subclass_priority {rp} {l} {r}))")
    if c[0] == "un":
        s = side_term(sd["l"], 1)
        return f"(@pa_unop nat {s}, @py_unop nat {s})"
    l, r = side_term(sd["l"], 1, "l" in accept), side_term(sd["r"], 2, "r" in accept)
    return (f"(@pa_binop nat {l} {r}, @py_binop nat {lib.cbool(sd['same_impl'])} {lib.cbool(sd['r_priority'])} {l} {r}, "
            f"(binop_guard {lib.cbool(sd['same_impl'])} {lib.cbool(sd['r_priority'])} {l} {r}, subclass_priority {lib.cbool(sd['r_priority'])} {l} {r}))")


def slice_term(key):
    a, b, c = key
    f = lambda x: "None" if x is None else f"(Some {lib.cz(x)})"
    return f"{{| sl_start := {f(a)}; sl_stop := {f(b)}; sl_step := {f(c)} |}}"


def seq_term(kind, ms, key):
    """ms: [(is_many, id:int)]"""
    mem = lib.clist([f"({lib.cbool(m)}, {i}%nat)" for m, i in ms])
    k = {"tuple": "KTuple", "list": "KList"}[kind]
    if key[0] == "int":
        return f"(@seq_getitem_int nat {k} {mem} {lib.cz(key[1])})"
    return f"(@seq_getitem_slice nat {mem} {slice_term(key[1])})"


HEADER = ("From Coq Require Import ZArith List Bool. Import ListNotations.\n"
          "Require Import PV.Ops.AttrBase PV.Gen.Ops PV.Ops.Dispatch PV.Ops.SeqIndex PV.Ops.Attr.\nLocal Open Scope Z_scope.")


def run_model(cases, recs):
    """-> list of model results (None where the case has no model)"""
    terms = {}
    keyof = []
    ns = {}
    exec(PRELUDE, ns)
    for c, rec in zip(cases, recs):
        t = None
        if c[0] in ("un", "bin", "aug"):
            t = op_term(c, rec, seq_repeat_by_class(c, lambda s: eval(s, ns)))
        elif c[0] == "sub" and rec.get("sub"):
            n, key = rec["sub"]["n"], rec["sub"]["key"]
            t = seq_term("tuple", [(False, i) for i in range(n)], key)
        elif c[0] == "seq":
            key = parse_key(c[3])
            if key is not None:
                t = seq_term(c[1], [(m, i) for i, (m, _) in enumerate(c[2])], key)
        elif c[0] == "attr" and rec.get("attr_obs"):
            t = attr_term(rec["attr_obs"])
        keyof.append(t)
        if t is not None:
            terms.setdefault(t, None)
    order = list(terms)
    vals = lib.coq_eval(HEADER, order, name="c19", jobs=6) if order else []
    for t, v in zip(order, vals):
        terms[t] = v
    return [None if t is None else terms[t] for t in keyof], len(order)


# ---------------------------------------------------------------------------
# verdicts


def should_diag(c, rec):
    exc = rec["oracle"].get("exc")
    if exc in ("TypeError", "AttributeError"):
        return True
    if exc == "IndexError" and c[0] == "sub" and c[1].startswith("("):
        return True
    return False


def known_finding(c, rec, ns_eval):
    """-> finding id when the failing case falls under a recorded guard clause AND the
    implementation behaves as the faithful description predicts; else None"""
    if c[0] == "narrow" and c[1] == "callable" and callable(ns_eval(c[2])):
        # after a true callable(x) a known class is replaced by the type Callable[..., Any]: its attributes and its
        # subscripting are then judged on that type, not on the object
        return "C19-callable-narrowing-forgets-known-object"
    if c[0] == "narrow":
        # the operation itself, with the variable replaced by the operand it holds
        op = tuple(c[2] if (isinstance(x, str) and x == "x") else x for x in c[5])
        return known_finding(op, rec, ns_eval)
    diag = bool(set(rec["codes"]) & RELEVANT)
    exc = rec["oracle"].get("exc")
    k = c[0]
    if k == "bin" and c[1] == "*" and exc == "TypeError" and not diag:
        a, b = ns_eval(c[2]), ns_eval(c[3])
        for seq, cls in ((a, b), (b, a)):
            if isinstance(seq, (str, bytes, tuple)) and isinstance(cls, type) and hasattr(cls, "__index__"):
                return "C19-seq-repeat-by-class-object"
    if k == "aug" and c[1] == "*" and exc == "TypeError" and not diag:
        a, b = ns_eval(c[2]), ns_eval(c[3])
        for seq, cls in ((a, b), (b, a)):
            if isinstance(seq, (str, bytes, tuple)) and isinstance(cls, type) and hasattr(cls, "__index__"):
                return "C19-seq-repeat-by-class-object"
    if k in ("cmp", "chain") and exc == "TypeError" and not diag:
        links = [(c[1], c[2], c[3])] if k == "cmp" else [(c[2], c[1], c[3]), (c[4], c[3], c[5])]
        for op, a, b in links:
            if op in ("in", "not in"):
                x, cont = ns_eval(a), ns_eval(b)
                if isinstance(cont, bytes) and isinstance(x, type) and hasattr(x, "__index__"):
                    return "C19-seq-repeat-by-class-object"
    if k == "aug" and c[1] == "*" and exc == "TypeError" and not diag:
        a, b = ns_eval(c[2]), ns_eval(c[3])
        import enum

        if isinstance(a, enum.IntEnum) and isinstance(b, (str, bytes, tuple)):
            return "C19-inplace-repeat-intenum-member"
    if k == "call" and c[1] == "pow" and len(c[2]) == 3 and exc == "TypeError" and not diag:
        return "C19-pow-three-arguments-protocol-overload"
    if k == "attr" and exc == "AttributeError" and not diag and rec["inferred"]["k"] == "any":
        obj = ns_eval(c[1])
        dyn = getattr(type(obj), "__getattr__", None) is not None or (type(obj).__name__ == "module" and "__getattr__" in vars(obj))
        if dyn and not isinstance(obj, type):
            return "C19-getattr-override-not-performed"
    if k == "attr" and exc == "AttributeError" and not diag:
        obj = ns_eval(c[1])
        import enum

        if isinstance(obj, type) and issubclass(obj, enum.Enum) and c[2] in ("_name_", "_value_"):
            return "C19-enum-class-sunder-name-value"
        if c[2] in IGNORED_END_OF_REFERENCE and rec.get("only_known_attrs") is False:
            return "C19-ignored-end-of-reference"
    if k == "sub" and exc == "KeyError" and rec["codes"] == ["incompatible_argument"]:
        obj = ns_eval(c[1])
        import enum

        if isinstance(obj, type) and issubclass(obj, enum.Enum):
            return "C19-enum-class-subscript-nonstr-key"
    return None


def judge(cases, recs, models, rep, findings_text):
    ns = {}
    exec(PRELUDE, ns)
    ns_eval = lambda s: eval(s, ns)
    hist = {"kind": {}, "verdict": {}, "codes": {}, "oracle_exc": {}, "model_branch": {}, "seq_len": {}}
    failing = []  # (case, rec, why)
    corr = []  # (case, rec, model, why)
    spec_bad = []
    distinct = set()
    validated = 0

    def bump(h, k):
        hist[h][str(k)] = hist[h].get(str(k), 0) + 1

    for c, rec, m in zip(cases, recs, models):
        bump("kind", c[0] if c[0] != "bin" else "bin")
        for code in rec["codes"]:
            bump("codes", code)
        unknown = set(rec["codes"]) - RELEVANT - IGNORED_CODES - {"bad_format_string"}
        if unknown:
            rep.harness_error(f"diagnostic code not classified by the harness: {sorted(unknown)} on {case_expr(c)}")
        diag = bool(set(rec["codes"]) & RELEVANT)
        fail_why = None
        if c[0] == "seq":
            o = rec["oracle"]
            bump("seq_len", len(c[2]))
            bump("oracle_exc", f"seq:{o['index_errors']}/{o['instances']} IndexError")
            if diag and o["index_errors"] < o["instances"]:
                fail_why = "diagnostic although some matching sequence has the index"
            elif o["bad"] is not None and not diag:
                fail_why = f"value {o['bad']['value']} of {o['bad']['sequence']} is outside the inferred type"
            bump("verdict", "diag" if diag else rec["inferred"]["k"])
            nontrivial = any(m_ for m_, _ in c[2]) or len(c[2]) > 1
        elif c[0] == "narrow":
            exc = rec["oracle"].get("exc")
            op = c[5]
            obj = ns_eval(c[2])
            want = exc in ("TypeError", "AttributeError") or (exc == "IndexError" and op[0] == "sub" and isinstance(obj, tuple))
            performed = rec.get("live") or exc is not None
            bump("oracle_exc", f"narrow:{exc or 'ok'}")
            bump("verdict", f"narrow:{c[1]}:" + ("diag" if diag else "nodiag") + "/" + ("raises" if want else "ok"))
            if performed and diag != want:
                fail_why = f"operation on a variable narrowed by an earlier statement: diagnosed={diag} but CPython: {exc or 'no exception'}"
            elif performed and rec.get("literal_ok") is False:
                fail_why = f"inferred literal {rec['inferred'].get('repr')} but the result is {rec['oracle'].get('value')}"
            nontrivial = True
        elif c[0] == "guard":
            exc = rec["oracle"].get("exc")
            live = rec.get("live")
            bump("oracle_exc", f"guard:{'live' if live else 'dead'}:{exc or 'ok'}")
            op = c[3]
            want = exc in ("TypeError", "AttributeError") or (exc == "IndexError" and op[0] == "sub" and op[1].startswith("("))
            bump("verdict", f"guard:{'live' if live else 'dead'}:" + ("diag" if diag else "nodiag") + "/" + ("raises" if want else "ok"))
            # only the live branch is demanded: the operation of a dead branch is not performed
            if live and diag != want:
                fail_why = f"guarded operation in the live branch: diagnosed={diag} but CPython: {exc or 'no exception'}"
            nontrivial = True
        else:
            exc = rec["oracle"].get("exc")
            bump("oracle_exc", exc or "ok")
            want = should_diag(c, rec)
            bump("verdict", ("diag" if diag else "nodiag") + "/" + ("raises" if want else "ok"))
            if diag != want:
                fail_why = f"diagnosed={diag} but CPython: {exc or 'no exception'}"
            elif rec.get("literal_ok") is False:
                fail_why = f"inferred literal {rec['inferred'].get('repr')} but the result is {rec['oracle'].get('value')}"
            nontrivial = True
        if nontrivial:
            distinct.add(json.dumps(c, default=str))
        if fail_why:
            fid = known_finding(c, rec, ns_eval)
            if fid and c[0] == "attr" and m is not None and (m[1] is True or bool(m[0]) != diag):
                fid = None  # the attribute model puts the case inside its guard, or does not predict the checker: a new violation
            if fid and fid in findings_text:
                rep.known(fid, findings_text[fid])
            else:
                failing.append((c, rec, fail_why))
        # ---- correspondence with the model
        if m is None:
            continue
        why = None
        if c[0] in ("un", "bin", "aug"):
            pa, py = m[0], m[1]
            bump("model_branch", f"pa:{pa if isinstance(pa, str) else pa[0]} py:{py if isinstance(py, str) else py[0]}")
            # spec vs CPython
            exc = rec["oracle"].get("exc")
            spec_ok = (py == "PTypeError") == (exc == "TypeError") and (py == "POther") == (exc is not None and exc != "TypeError")
            if isinstance(py, tuple) and py[0] == "PVal" and exc is None:
                side = rec["sides"][{1: "l", 2: "r", 3: "i"}[py[1]]]
                spec_ok = spec_ok and side.get("val") == rec["oracle"].get("value")
            if not spec_ok and not (c[0] == "aug" and known_finding(c, rec, ns_eval) == "C19-inplace-repeat-intenum-member"):
                # (the in-place repeat of an IntEnum member is a CPython asymmetry outside the documented protocol: known finding)
                spec_bad.append((c, rec, m))
            # model vs implementation
            if (pa == "VDiag") != diag:
                why = f"model says {'diagnostic' if pa == 'VDiag' else 'no diagnostic'}, checker says {'diagnostic' if diag else 'none'}"
            elif isinstance(pa, tuple) and pa[0] == "VLit":
                side = rec["sides"][{1: "l", 2: "r", 3: "i"}[pa[1]]]
                if rec["inferred"]["k"] == "known" and rec["inferred"].get("repr") != side.get("val"):
                    why = f"model literal {side.get('val')} vs inferred {rec['inferred'].get('repr')}"
        elif c[0] == "attr":
            bump("model_branch", f"attr:{rec['attr_obs']['kind']}:{'diag' if m[0] else 'nodiag'}:{'guard' if m[1] else 'outside-guard'}")
            if bool(m[0]) != diag:
                why = f"model says {'diagnostic' if m[0] else 'no diagnostic'}, checker says {'diagnostic' if diag else 'none'} ({rec['attr_obs']})"
        elif c[0] == "sub":
            key = rec["sub"]["key"]
            bump("model_branch", f"sub:{m if isinstance(m, str) else m[0]}")
            if key[0] == "int":
                if m == "ROutOfRange":
                    if not diag:
                        why = "model: index out of range, checker: no diagnostic"
                elif isinstance(m, tuple) and m[0] == "RMember":
                    if diag:
                        why = "model: member, checker: diagnostic"
                    elif rec["inferred"]["k"] == "known" and m[1] not in rec["sub"].get("got", []):
                        why = f"model: element {m[1]}, checker inferred {rec['inferred'].get('repr')}"
                else:
                    why = f"unexpected model result {m} for a literal tuple"
            else:
                if m == "SGeneric":
                    if diag or rec["inferred"]["k"] != "generic":
                        why = f"model: generic fallback (step 0), checker: {rec['codes']} {rec['inferred']}"
                elif isinstance(m, tuple) and m[0] == "SMembers":
                    want = [rec["sub"]["elems"][i] for i in m[1]] if "elems" in rec["sub"] else None
                    if diag:
                        why = "model: slice of members, checker: diagnostic"
                    elif want is not None and rec["sub"].get("got_tuple") != want:
                        why = f"model: elements {m[1]}, checker inferred {rec['inferred'].get('repr')}"
        elif c[0] == "seq":
            bump("model_branch", f"seq:{m if isinstance(m, str) else m[0]}")
            got = decode_classes(rec["inferred"])
            allc = {t for _, t in c[2]}
            if m == "ROutOfRange":
                if not diag:
                    why = "model: out of range, checker: no diagnostic"
            elif diag:
                why = f"model: {m}, checker: diagnostic {rec['codes']}"
            elif isinstance(m, tuple) and m[0] == "RMember":
                if got != {c[2][m[1]][1]}:
                    why = f"model: member {m[1]} ({c[2][m[1]][1]}), checker inferred {rec['inferred']}"
            elif m == "RCommon":
                if got != allc and not (not c[2] and rec["inferred"]["k"] == "any"):
                    why = f"model: union of all members {sorted(allc)}, checker inferred {rec['inferred']}"
            elif isinstance(m, tuple) and m[0] == "SMembers":
                d = rec["inferred"]
                want = [c[2][i][1] for i in m[1]]
                if d["k"] == "seq":
                    have = [None if mm else (x.get("typ") if x["k"] == "typed" else "?") for mm, x in d["members"]]
                elif d["k"] == "known" and not want:
                    have = []
                else:
                    have = None
                if have != want:
                    why = f"model: members {want}, checker inferred {d}"
            elif m == "SGeneric":
                if rec["inferred"]["k"] != "generic":
                    why = f"model: generic fallback, checker inferred {rec['inferred']}"
        if why:
            corr.append((c, rec, m, why))
        else:
            validated += 1
    return hist, failing, corr, spec_bad, distinct, validated


# ---------------------------------------------------------------------------


def gen_files():
    return {"Ops.v": tr_ops.translate(str(lib.REPO))}


def load_corpus():
    if CORPUS.exists():
        return [norm_case(c) for c in json.loads(CORPUS.read_text())["cases"]]
    return []


def run(tier: str, replay: str | None = None):
    rep = lib.Report(PROP, tier, "proof")
    rng = random.Random(lib.seed() * 7907 + 19)
    broken_translation = None
    proof = None
    try:
        gen = gen_files()
    except tr_ops.TranslateError as ex:
        broken_translation = str(ex)
        gen = None
    if gen is not None:
        proof = lib.prove(PROP, gen, thorough=(tier == "thorough"))
    model_ok = proof is not None and not any("build failed" in b for b in proof.broken)
    if not model_ok:
        # the model must still run so that the correspondence / oracle can look for an input:
        # build the model files alone (Gen/Ops.v has been rewritten when translation succeeded)
        if gen is not None:
            ok, _ = lib.coq_make(["theories/Ops/Dispatch.vo", "theories/Ops/SeqIndex.vo"])
            model_ok = ok

    if replay:
        r = json.loads(Path(replay).read_text())
        cases = [norm_case(r["input"]["case"])] if "input" in r and "case" in r["input"] else []
    else:
        cases = load_corpus() + [norm_case(c) for c in gen_cases(rng, tier)]
        seen = set()
        uniq = []
        for c in cases:
            k = json.dumps(c)
            if k not in seen:
                seen.add(k)
                uniq.append(c)
        cases = uniq

    recs = run_impl(cases) if cases else []
    n_terms = 0
    if model_ok:
        try:
            models, n_terms = run_model(cases, recs)
        except RuntimeError as ex:
            models = [None] * len(cases)
            rep.violation({"kind": "broken-correspondence", "correspondence": "Ops model evaluation failed", "detail": str(ex)[-1500:]}, no_failing_input=True)
    else:
        models = [None] * len(cases)

    kf = lib.load_known_findings(PROP)
    findings_text = {f["id"]: f["what"] for f in kf["findings"]}
    hist, failing, corr, spec_bad, distinct, validated = judge(cases, recs, models, rep, findings_text)

    def payload(c, rec):
        src, _ = build_module([c])
        return {"case": c, "expression": case_expr(c), "module": src}

    for c, rec, why in failing[:8]:
        rep.violation({"kind": "failing-input", "input": payload(c, rec), "observed": {"codes": rec["codes"], "messages": rec["messages"], "inferred": rec["inferred"]},
                       "expected": {"cpython": rec["oracle"], "why": why}, "how_to_run": "./check C19 --replay <this file>"})
    found_input = bool(failing)
    if corr and not found_input:
        c, rec, m, why = corr[0]
        name = ("Dispatch.pa_binop/pa_unop vs _visit_binop_no_mvv/_check_dunder_call" if c[0] in ("un", "bin") else
                "Attr.pa_attr vs _get_attribute_from_mro/_get_attribute_fallback" if c[0] == "attr" else
                "SeqIndex.seq_getitem_int/slice vs _sequence_common_getitem_impl")
        rep.violation({"kind": "broken-correspondence", "correspondence": name, "input": payload(c, rec), "observed": {"codes": rec["codes"], "inferred": rec["inferred"]},
                       "model": str(m), "why": why, "mismatches": len(corr)}, no_failing_input=True)
    for c, rec, m in spec_bad[:3]:
        rep.harness_error(f"spec py_binop/py_unop disagrees with CPython on {case_expr(c)}: model {m[1]}, CPython {rec['oracle']}")
    if broken_translation and not found_input:
        rep.violation({"kind": "broken-obligation", "theorem": "Gen/Ops.v (translator)", "detail": broken_translation}, no_failing_input=True)
    if proof is not None and not proof.ok and not found_input:
        rep.violation({"kind": "broken-obligation", "theorem": "; ".join(proof.broken), "log": proof.log[-1500:]}, no_failing_input=True)

    samples = []
    for c, rec in list(zip(cases, recs))[:: max(1, len(cases) // 6)][:6]:
        samples.append({"expression": case_expr(c), "case": c, "codes": rec["codes"], "inferred": rec["inferred"], "cpython": rec["oracle"]})
    rep.coverage.update(
        evaluations=len(cases),
        distinct_nontrivial=len(distinct),
        rule="a case = one operation on statically known operands: unary/binary operator over the literal universe (numbers, str, bytes, tuples, None, enum members, classes, modules), "
        "subscript of a literal by a literal int/slice/other key, attribute access (existing names, one-character near-misses, fixed pool), or s[key] on a tuple/list display built from typed "
        "parameters with unpacked members; every case is really evaluated by CPython; non-trivial = every literal case, and typed sequences with >1 member or an unpacked member; distinct = distinct cases",
        samples=samples,
        traces_validated_against_impl=validated,
        model_terms_evaluated=n_terms,
        cases_with_model=sum(1 for m in models if m is not None),
        input_distribution=hist,
        correspondence_mismatches=len(corr),
        failing_inputs=len(failing),
        spec_vs_cpython_mismatches=len(spec_bad),
        exhaustive=(tier == "thorough"),
    )
    rep.assumptions = [
        "stub_consistent (typeshed signature rejects an argument iff the real dunder returns NotImplemented / raises TypeError) is a hypothesis of the operator theorems; it is measured by the correspondence, not proved",
        "attribute access and the dunder calls themselves are performed on the real objects by pyanalyze; they are decided only by the differential against CPython",
        "translator harness/translate/ops.py",
    ]
    return rep.finish(
        proof,
        "coq_makefile + make theories/Properties/C19.vo; coqc theories/Properties/C19.v (Print Assumptions)" + ("; coqchk -o" if tier == "thorough" else ""),
        ["Coq 8.16.1 kernel (coqc; vm_compute in Examples and model evaluation)", "translator harness/translate/ops.py", "correspondence + oracle harness/c19.py", "CPython 3.12 as the oracle (eval of every case)"],
    )
