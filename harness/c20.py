"""C20 — type evaluation functions follow their specification.

proof      : Properties/C20.v over Eval/TypeEval.v (hand model of ConditionEvaluator / EvaluateVisitor,
             decompose_union, unite_varmaps, CombinedReturn) against the reference interpreter of
             docs/type_evaluation.md
tie        : correspondence — generated @evaluated functions are checked end to end by the real checker
             (reveal_type + show_error diagnostics); the model is instantiated with the real
             can_assign_maybe_exclude_any / constrain_value tables and, per call, the real
             Signature.bind_arguments positions and values, and must predict the end-to-end verdict
oracle     : (a) independent reference interpreter (docs) over a subtype table and the documented argument
             kinds for union-free calls; (b) for union calls: the real checker's result must be the union
             of its own results on the member calls
"""
from __future__ import annotations

import itertools
import json
import random
import re
import sys
import types
from pathlib import Path

import lib

PROP = "C20"
HERE = Path(__file__).resolve().parent

# ---------------------------------------------------------------------------
# vocabulary: member atoms (argument types) and tested types

# name-resolution variants (round 4): "Shadow" = module-level class TimeoutError shadowing the builtin, "Nested" =
# Outer.Inner, "Late" = a class defined after every evaluated function, "Dec" = decimal.Decimal imported under an alias
ATOMS = ["int", "str", "None", "Lit1", "Lit2", "LitA", "A", "B", "object", "Any", "Shadow", "Nested", "Late", "Dec"]
TYPES = ["int", "str", "None", "Lit1", "LitA", "A", "B", "object", "Any", "Shadow", "Nested", "Late", "Dec"]
SRC = {"int": "int", "str": "str", "None": "None", "Lit1": "Literal[1]", "Lit2": "Literal[2]", "LitA": 'Literal["a"]',
       "A": "A", "B": "B", "object": "object", "Any": "Any",
       "Shadow": "TimeoutError", "Nested": "Outer.Inner", "Late": "LateT", "Dec": "Dec"}
LITS = {"Lit1": "1", "Lit2": "2", "LitA": '"a"', "None": "None"}
# return types; RN = nested class Outer.RN, RL = defined late, RS = module-level class Warning shadowing the builtin,
# RI = collections.OrderedDict imported under the alias RI
RETS = ["R1", "R2", "R3", "R4", "RD", "RN", "RL", "RS", "RI"]
RET_SRC = {"RN": "Outer.RN", "RS": "Warning"}
VARS = ["x", "y", "z", "args", "kw"]

PRELUDE = """import sys
from typing import Any, Union, Optional
from typing_extensions import reveal_type, Literal
from pyanalyze.extensions import evaluated, is_provided, is_positional, is_keyword, is_of_type, show_error
from decimal import Decimal as Dec
from collections import OrderedDict as RI
class A: pass
class B(A): pass
class R1: pass
class R2: pass
class R3: pass
class R4: pass
class RD: pass
class TimeoutError(Exception): pass
class Warning: pass
class Outer:
    class Inner: pass
    class RN: pass
"""

# defined AFTER every evaluated function (names are resolved when the call is checked)
LATE = """class LateT: pass
class RL: pass
"""


def members(t):
    return [t] if isinstance(t, str) else list(t[1])


def render_type(t):
    ms = members(t)
    if len(ms) == 1:
        return SRC[ms[0]]
    return "Union[" + ", ".join(SRC[m] for m in ms) + "]"


# ---------------------------------------------------------------------------
# evaluated functions
#
# case  := {"params": [param], "ret": bool (has `-> RD`), "body": [stmt], "calls": [call]}
# param := {"name", "kind": pk|po|ko|va|vk, "default": None | "dots" | atom with a literal (Lit1, LitA, None)}
#          (annotation is always `object`, for "dots" defaults `int`)
# cond  := ["kind", fn, var] | ["type", var, T, ex] | ["cmp", var, op, atom] | ["ver", op, minor] | ["plat", op, name]
#          | ["not", c] | ["and", [c]] | ["or", [c]]
# stmt  := ["pass"] | ["ret", R] | ["err", k] | ["if", c, [stmt], [stmt]]
# call  := {"pos": [TYPE], "kw": [[name, TYPE]], "star": bool, "dstar": bool}


def render_params(params):
    out = []
    seen_po = False
    kinds = [p["kind"] for p in params]
    for i, p in enumerate(params):
        k = p["kind"]
        if k != "po" and seen_po:
            out.append("/")
            seen_po = False
        if k == "ko" and "va" not in kinds[:i] and "*" not in out:
            out.append("*")
        ann = "int" if p["default"] == "dots" else "object"
        s = {"va": "*", "vk": "**"}.get(k, "") + p["name"] + ": " + ann
        if p["default"] == "dots":
            s += " = ..."
        elif p["default"] is not None:
            s += " = " + LITS[p["default"]]
        out.append(s)
        if k == "po":
            seen_po = True
    if seen_po:
        out.append("/")
    return ", ".join(out)


def render_cond(c):
    k = c[0]
    if k == "kind":
        return f"{c[1]}({c[2]})"
    if k == "type":
        return f"is_of_type({c[1]}, {SRC[c[2]]}" + ("" if c[3] else ", exclude_any=False") + ")"
    if k == "cmp":
        return f"{c[1]} {c[2]} {LITS[c[3]]}"
    if k == "ver":
        return f"sys.version_info {c[1]} (3, {c[2]})"
    if k == "plat":
        return f'sys.platform {c[1]} "{c[2]}"'
    if k == "not":
        return f"not ({render_cond(c[1])})"
    sep = " and " if k == "and" else " or "
    return "(" + sep.join(render_cond(x) for x in c[1]) + ")"


def render_block(stmts, ind):
    out = []
    pad = "    " * ind
    for s in stmts:
        if s[0] == "pass":
            out.append(pad + "pass")
        elif s[0] == "ret":
            out.append(pad + f"return {RET_SRC.get(s[1], s[1])}")
        elif s[0] == "err":
            out.append(pad + f'show_error("E{s[1]}")')
        else:
            out.append(pad + f"if {render_cond(s[1])}:")
            out += render_block(s[2], ind + 1)
            if s[3]:
                out.append(pad + "else:")
                out += render_block(s[3], ind + 1)
    return out or [pad + "pass"]


def render_function(fname, case):
    lines = ["@evaluated", f"def {fname}({render_params(case['params'])})" + (" -> RD" if case["ret"] else "") + ":"]
    lines += render_block(case["body"], 1)
    lines.append(f"def {fname}(*args, **kwargs): raise NotImplementedError")
    return lines


def render_call(fname, tname, call):
    ps, args = [], []
    for i, t in enumerate(call["pos"]):
        ps.append(f"a{i}: {render_type(t)}")
        args.append(f"a{i}")
    for i, (k, t) in enumerate(call["kw"]):
        ps.append(f"k{i}: {render_type(t)}")
        args.append(f"{k}=k{i}")
    if call.get("star"):
        ps.append("s: tuple[int, ...]")
        args.append("*s")
    if call.get("dstar"):
        ps.append("d: dict[str, int]")
        args.append("**d")
    return [f"def {tname}({', '.join(ps)}):", f"    reveal_type({fname}({', '.join(args)}))"]


def render_module(cases):
    lines = PRELUDE.splitlines()
    where = {}
    for ci, case in enumerate(cases):
        lines += render_function(f"f{ci}", case)
    lines += LATE.splitlines()
    for ci, case in enumerate(cases):
        for ki, call in enumerate(case["calls"]):
            lines += render_call(f"f{ci}", f"t{ci}_{ki}", call)
            where[(ci, ki)] = len(lines)
    return "\n".join(lines) + "\n", where


# ---------------------------------------------------------------------------
# implementation side

_MODCOUNT = [0]


def parse_revealed(desc):
    m = re.match(r"Revealed type is '(.*)'$", desc.strip(), flags=re.S)
    if not m:
        return None
    out = []
    for p in (x.strip() for x in m.group(1).split(" | ")):
        mm = re.match(r"<test input [0-9a-f]+>\.(.*)$", p)
        if mm:
            # a class of the checked module (a module-level class that shadows a builtin is told apart from the
            # builtin by this prefix)
            name = {"Outer.RN": "RN", "Warning": "RS"}.get(mm.group(1), mm.group(1))
            if name not in RETS:
                return ["?" + p]
            out.append(name)
        elif p in ("collections.OrderedDict", "OrderedDict"):
            out.append("RI")
        elif p.startswith("Any["):
            out.append("RD")  # no return annotation: the default is Any
        else:
            return ["?" + p]
    return sorted(set(out))


def impl_end_to_end(cases):
    import contextlib
    import io

    from pyanalyze.test_name_check_visitor import TestNameCheckVisitorBase

    src, where = render_module(cases)
    sink = io.StringIO()
    with contextlib.redirect_stderr(sink), contextlib.redirect_stdout(sink):
        errors = TestNameCheckVisitorBase()._run_str(src, fail_after_first=False)
    by_line = {}
    for e in errors:
        by_line.setdefault(int(e["lineno"]), []).append(e)
    out = {}
    for key, ln in where.items():
        revealed, errs, other = None, [], []
        for e in by_line.get(ln, []):
            code = e["code"].name
            if code == "reveal_type":
                revealed = parse_revealed(e["description"])
            else:
                m = re.search(r"\bE(\d+)\b", e["description"])
                if m:
                    errs.append(int(m.group(1)))
                else:
                    other.append(code + ": " + e["description"][:80])
        out[key] = {"rets": revealed, "errs": sorted(set(errs)), "other": other}
    call_lines = set(where.values())
    stray = sorted({(int(e["lineno"]), e["code"].name, e["description"][:60]) for e in errors if int(e["lineno"]) not in call_lines})
    return out, stray


def impl_tables():
    """acc / narrow tables from the real can_assign_maybe_exclude_any / constrain_value."""
    from pyanalyze.checker import Checker
    from pyanalyze.predicates import IsAssignablePredicate
    from pyanalyze.stacked_scopes import Constraint, ConstraintType, VarnameWithOrigin, constrain_value
    from pyanalyze.type_evaluation import can_assign_maybe_exclude_any
    from pyanalyze.value import flatten_values

    mod, vals = atom_values()
    checker = Checker()
    acc = {}
    narrow = {}
    for T in TYPES:
        tv = vals[T]
        constraint = Constraint(VarnameWithOrigin(""), ConstraintType.predicate, True, IsAssignablePredicate(tv, checker, positive_only=False))
        for m in ATOMS:
            for ex in (True, False):
                acc[(T, m, ex)] = isinstance(can_assign_maybe_exclude_any(tv, vals[m], checker, ex), dict)
            res = list(flatten_values(constrain_value(vals[m], constraint)))
            names = []
            for r in res:
                hit = [a for a in ATOMS if vals[a] == r]
                names.append(hit[0] if hit else "?" + str(r))
            narrow[(T, m)] = names
    return acc, narrow


_ATOMVALS = None


def atom_values():
    global _ATOMVALS
    if _ATOMVALS is None:
        from pyanalyze.value import AnySource, AnyValue, KnownValue, TypedValue

        mod = types.ModuleType("c20_atoms")
        exec(PRELUDE + LATE, mod.__dict__)
        vals = {"int": TypedValue(int), "str": TypedValue(str), "None": KnownValue(None), "Lit1": KnownValue(1), "Lit2": KnownValue(2),
                "LitA": KnownValue("a"), "A": TypedValue(mod.A), "B": TypedValue(mod.B), "object": TypedValue(object),
                "Any": AnyValue(AnySource.explicit), "Shadow": TypedValue(mod.TimeoutError), "Nested": TypedValue(mod.Outer.Inner),
                "Late": TypedValue(mod.LateT), "Dec": TypedValue(mod.Dec)}
        _ATOMVALS = (mod, vals)
    return _ATOMVALS


def impl_positions(cases):
    """Per call: what the real Signature.bind_arguments says (position kind and value of every parameter)."""
    from pyanalyze.checker import Checker
    from pyanalyze.signature import ARGS, DEFAULT, KWARGS, UNKNOWN, ActualArguments, Signature, _CanAssignBasedContext
    from pyanalyze.stacked_scopes import Composite
    from pyanalyze.value import GenericValue, KnownValue, MultiValuedValue, TypedValue, flatten_values

    _MODCOUNT[0] += 1
    name = f"c20mod_{_MODCOUNT[0]}"
    lines = PRELUDE.splitlines()
    for ci, case in enumerate(cases):
        lines += render_function(f"f{ci}", case)
    lines += LATE.splitlines()
    mod = types.ModuleType(name)
    sys.modules[name] = mod
    try:
        import linecache

        src = "\n".join(lines) + "\n"
        linecache.cache[name + ".py"] = (len(src), None, src.splitlines(True), name + ".py")
        exec(compile(src, name + ".py", "exec"), mod.__dict__)
        checker = Checker()
        ctx = _CanAssignBasedContext(checker)
        vals = {"int": TypedValue(int), "str": TypedValue(str), "None": KnownValue(None), "Lit1": KnownValue(1), "Lit2": KnownValue(2),
                "LitA": KnownValue("a"), "A": TypedValue(mod.A), "B": TypedValue(mod.B), "object": TypedValue(object),
                "Shadow": TypedValue(mod.TimeoutError), "Nested": TypedValue(mod.Outer.Inner), "Late": TypedValue(mod.LateT),
                "Dec": TypedValue(mod.Dec)}
        ret_of = {mod.R1: "R1", mod.R2: "R2", mod.R3: "R3", mod.R4: "R4", mod.RD: "RD", mod.Outer.RN: "RN", mod.RL: "RL",
                  mod.Warning: "RS", mod.RI: "RI"}
        from pyanalyze.value import AnySource, AnyValue

        vals["Any"] = AnyValue(AnySource.explicit)

        def type_value(t):
            ms = members(t)
            return vals[ms[0]] if len(ms) == 1 else MultiValuedValue([vals[m] for m in ms])

        def atoms_of(v):
            out = []
            for sub in flatten_values(v):
                hit = [a for a in ATOMS if vals[a] == sub]
                if not hit:
                    return None
                out.append(hit[0])
            return out

        result = {}
        for ci, case in enumerate(cases):
            sig = checker.arg_spec_cache.get_argspec(getattr(mod, f"f{ci}"))
            if not isinstance(sig, Signature) or sig.evaluator is None:
                result[ci] = {"error": f"no evaluator signature: {sig}"}
                continue
            per_call = []
            for call in case["calls"]:
                actual = ActualArguments(
                    positionals=[(True, Composite(type_value(t))) for t in call["pos"]],
                    star_args=TypedValue(int) if call.get("star") else None,
                    keywords={k: (True, Composite(type_value(t))) for k, t in call["kw"]},
                    star_kwargs=TypedValue(int) if call.get("dstar") else None,
                    kwargs_required=False,
                    pos_or_keyword_params=set(),
                )
                ctx.errors.clear()
                bound = sig.bind_arguments(actual, ctx)
                if bound is None:
                    per_call.append(None)
                    continue
                info = {}
                for pname, (position, composite) in bound.items():
                    if isinstance(position, int) and not isinstance(position, bool):
                        pk = "PInt"
                    elif isinstance(position, str):
                        pk = "PStr"
                    else:
                        pk = {id(DEFAULT): "PDefault", id(ARGS): "PArgs", id(KWARGS): "PKwargs", id(UNKNOWN): "PUnknown"}[id(position)]
                    v = composite.value
                    param = sig.parameters[pname]
                    if param.default is not None and v is param.default and isinstance(v, KnownValue) and v.val is Ellipsis:
                        v = param.annotation  # default `...`: the type is the annotation
                    info[pname] = {"pos": pk, "val": atoms_of(v)}
                # the real evaluator, called directly (the checker shows only one diagnostic per call node,
                # so the full list of show_error calls is observed here)
                ctx.errors.clear()
                cret = sig.check_call_with_bound_args(actual, bound, ctx)
                value = cret.return_value
                msgs = list(ctx.errors)
                rets = []
                for sub in flatten_values(value):
                    if isinstance(sub, TypedValue) and sub.typ in ret_of:
                        rets.append(ret_of[sub.typ])
                    elif isinstance(sub, AnyValue):
                        rets.append("RD")
                    else:
                        rets.append("?" + str(sub))
                errs = []
                for e in msgs:
                    mm = re.search(r"\bE(\d+)\b", e)
                    errs.append(int(mm.group(1)) if mm else -1)
                info["__direct__"] = {"rets": sorted(set(rets)), "errs": errs}
                per_call.append(info)
            result[ci] = {"calls": per_call}
        return result
    finally:
        sys.modules.pop(name, None)
        import linecache

        linecache.cache.pop(name + ".py", None)


def worker(payload):
    cid, cases = payload
    try:
        e2e, stray = impl_end_to_end(cases)
        crash = None
    except Exception as ex:
        e2e, stray, crash = {}, [], repr(ex)
    pos = impl_positions(cases)
    out = []
    for ci, case in enumerate(cases):
        calls = []
        for ki in range(len(case["calls"])):
            calls.append({"e2e": e2e.get((ci, ki)), "bound": (pos[ci]["calls"][ki] if "calls" in pos[ci] else None), "err": pos[ci].get("error")})
        out.append(calls)
    return cid, out, stray, crash


# ---------------------------------------------------------------------------
# independent oracle (a): the documented interpreter on union-free calls

SUBTYPE = {("Lit1", "int"), ("Lit2", "int"), ("LitA", "str"), ("B", "A")}


def o_acc(T, m, ex):
    """docs: with exclude_any (default) Any is compatible only with Any; every type is compatible with Any / object"""
    if m == "Any":
        return T == "Any" if ex else True
    if T in ("Any", "object") or T == m:
        return True
    return (m, T) in SUBTYPE


def o_kinds(case, call):
    """docs "argument kinds": POSITIONAL / KEYWORD / DEFAULT / UNKNOWN per parameter, computed from the call
    shape alone (never from bind_arguments), and the member each parameter holds; None if the call shape cannot
    be bound.  For a call with `*s` / `**d` of unknown size the documented table is applied:
      - positional-only with a default, not filled by an explicit positional, call has *args  -> UNKNOWN
      - keyword-only with a default, not named, call has **kwargs                              -> UNKNOWN
      - positional-or-keyword matching either of the above                                     -> UNKNOWN
      - positional-or-keyword (default or not) not explicitly given, call has both             -> UNKNOWN
      - without a default the parameter must come from the star argument: POSITIONAL (*args) / KEYWORD (**kwargs)
      - *args / **kwargs parameters: POSITIONAL / KEYWORD if arguments may be provided, else DEFAULT
    An argument taken from `*s` / `**d` has the element type of s / d (int in the generated calls)."""
    params = case["params"]
    star, dstar = bool(call.get("star")), bool(call.get("dstar"))
    npos = len(call["pos"])
    tys = list(call["pos"]) + [t for _, t in call["kw"]]
    kwidx = {k: npos + i for i, (k, _) in enumerate(call["kw"])}
    if len(kwidx) != len(call["kw"]):
        return None
    out = {}
    nextpos = 0
    used_kw = set()
    has_va = any(p["kind"] == "va" for p in params)
    has_vk = any(p["kind"] == "vk" for p in params)
    for p in params:
        n, k, d = p["name"], p["kind"], p["default"]
        dval = "int" if d == "dots" else d
        if k in ("po", "pk") and nextpos < npos:
            if k == "pk" and n in kwidx:
                return None  # given twice
            out[n] = ("POSITIONAL", tys[nextpos])
            nextpos += 1
        elif k == "pk" and n in kwidx:
            out[n] = ("KEYWORD", tys[kwidx[n]])
            used_kw.add(n)
        elif k == "ko" and n in kwidx:
            out[n] = ("KEYWORD", tys[kwidx[n]])
            used_kw.add(n)
        elif k == "po":
            if star:
                out[n] = ("UNKNOWN" if d is not None else "POSITIONAL", "int")
            elif d is not None:
                out[n] = ("DEFAULT", dval)
            else:
                return None
        elif k == "pk":
            if star and dstar:
                out[n] = ("UNKNOWN", "int")
            elif star:
                out[n] = ("UNKNOWN" if d is not None else "POSITIONAL", "int")
            elif dstar:
                out[n] = ("UNKNOWN" if d is not None else "KEYWORD", "int")
            elif d is not None:
                out[n] = ("DEFAULT", dval)
            else:
                return None
        elif k == "ko":
            if dstar:
                out[n] = ("UNKNOWN" if d is not None else "KEYWORD", "int")
            elif d is not None:
                out[n] = ("DEFAULT", dval)
            else:
                return None
        elif k == "va":
            out[n] = ("POSITIONAL" if (npos > nextpos or star) else "DEFAULT", None)
            nextpos = npos
        elif k == "vk":
            extra = [kk for kk in kwidx if kk not in used_kw and kk not in {q["name"] for q in params if q["kind"] in ("pk", "ko")}]
            out[n] = ("KEYWORD" if (extra or dstar) else "DEFAULT", None)
    if nextpos < npos and not has_va:
        return None
    names = {q["name"] for q in params if q["kind"] in ("pk", "ko")}
    if any(kk not in names for kk in kwidx) and not has_vk:
        return None
    if any(q["kind"] == "po" and q["name"] in kwidx for q in params) and not has_vk:
        return None
    return out


def o_kinds_checked(case, call):
    """o_kinds, validated against CPython's own binder for calls without star arguments"""
    out = o_kinds(case, call)
    if not (call.get("star") or call.get("dstar")):
        import inspect

        ns = {}
        exec(f"def f({re.sub(r': (object|int)', '', render_params(case['params']))}): pass", ns)
        try:
            inspect.signature(ns["f"]).bind(*range(len(call["pos"])), **{k: 0 for k, _ in call["kw"]})
            ok = True
        except TypeError:
            ok = False
        if ok != (out is not None):
            raise AssertionError(f"harness: documented binder disagrees with CPython on {case['params']} {call}")
    return out


def o_cond(c, kinds, sigma):
    """-> (truth, narrowing if true, narrowing if false).  The only narrowing a union-free argument can
    undergo: an Any argument that matched `is_of_type(x, T, exclude_any=False)` is T from then on
    ("normal type narrowing rules")."""
    k = c[0]
    if k == "kind":
        kd = kinds[c[2]][0]
        return {"is_provided": kd in ("POSITIONAL", "KEYWORD"), "is_positional": kd == "POSITIONAL", "is_keyword": kd == "KEYWORD"}[c[1]], {}, {}
    if k == "type":
        m = sigma[c[1]]
        t = o_acc(c[2], m, c[3])
        upd = {c[1]: c[2]} if (t and m == "Any" and c[2] != "Any") else {}
        return t, upd, {}
    if k == "cmp":
        r = o_acc(c[3], sigma[c[1]], True)
        return (r if c[2] in ("==", "is") else not r), {}, {}
    if k == "ver":
        return eval(f"sys.version_info {c[1]} (3, {c[2]})"), {}, {}
    if k == "plat":
        return eval(f"sys.platform {c[1]} {c[2]!r}"), {}, {}
    if k == "not":
        t, p, n = o_cond(c[1], kinds, sigma)
        return (not t), n, p
    if k == "and":
        cur = dict(sigma)
        acc_p = {}
        for x in c[1]:
            t, p, n = o_cond(x, kinds, cur)
            if not t:
                return False, {}, n
            cur.update(p)
            acc_p.update(p)
        return True, acc_p, {}
    cur = dict(sigma)
    acc_n = {}
    for x in c[1]:
        t, p, n = o_cond(x, kinds, cur)
        if t:
            return True, p, {}
        cur.update(n)
        acc_n.update(n)
    return False, {}, acc_n


def o_block(stmts, kinds, sigma, errs):
    for s in stmts:
        if s[0] == "ret":
            return s[1]
        if s[0] == "err":
            errs.append(s[1])
        elif s[0] == "if":
            t, p, n = o_cond(s[1], kinds, sigma)
            r = o_block(s[2] if t else s[3], kinds, {**sigma, **(p if t else n)}, errs)
            if r is not None:
                return r
    return None


def oracle_unionfree(case, call):
    kinds = o_kinds_checked(case, call)
    if kinds is None:
        return None
    sigma = {n: t for n, (_, t) in kinds.items()}
    errs = []
    r = o_block(case["body"], kinds, sigma, errs)
    return {"rets": [r if r is not None else "RD"], "errs": sorted(set(errs))}


# ---------------------------------------------------------------------------
# model side


def coq_cond(c):
    k = c[0]
    if k == "kind":
        return "(CKind " + {"is_provided": "KProvided", "is_positional": "KPositional", "is_keyword": "KKeyword"}[c[1]] + f" {VARS.index(c[2])})"
    if k == "type":
        return f"(CType {VARS.index(c[1])} {TYPES.index(c[2])} {lib.cbool(c[3])})"
    if k == "cmp":
        base = f"(CType {VARS.index(c[1])} {TYPES.index(c[3])} true)"
        return base if c[2] in ("==", "is") else f"(CNot {base})"
    if k == "ver":
        return f"(CConst {lib.cbool(eval(f'sys.version_info {c[1]} (3, {c[2]})'))})"
    if k == "plat":
        return f"(CConst {lib.cbool(eval(f'sys.platform {c[1]} {c[2]!r}'))})"
    if k == "not":
        return f"(CNot {coq_cond(c[1])})"
    items = "CNil"
    for x in reversed(c[1]):
        items = f"(CCons {coq_cond(x)} {items})"
    return f"({'CAnd' if k == 'and' else 'COr'} {items})"


def coq_block(stmts):
    out = "BNil"
    for s in reversed(stmts):
        if s[0] == "pass":
            t = "SPass"
        elif s[0] == "ret":
            t = f"(SReturn {RETS.index(s[1])})"
        elif s[0] == "err":
            t = f"(SError {s[1]})"
        else:
            t = f"(SIf {coq_cond(s[1])} {coq_block(s[2])} {coq_block(s[3])})"
        out = f"(BCons {t} {out})"
    return out


def coq_header(acc, narrow):
    rows_acc = []
    for T in TYPES:
        rows_acc.append(lib.clist([lib.clist([lib.cbool(acc[(T, m, True)]) for m in ATOMS]), lib.clist([lib.cbool(acc[(T, m, False)]) for m in ATOMS])]))
    rows_nar = []
    for T in TYPES:
        rows_nar.append(lib.clist([lib.clist([str(ATOMS.index(a)) for a in narrow[(T, m)]]) for m in ATOMS]))
    return (
        "From Coq Require Import List Bool Arith. Import ListNotations.\n"
        "Require Import PV.Eval.TypeEval.\n"
        f"Definition acc_tbl : list (list (list bool)) := {lib.clist(rows_acc)}.\n"
        f"Definition nar_tbl : list (list (list nat)) := {lib.clist(rows_nar)}.\n"
        "Definition acc (T m : nat) (ex : bool) : bool := nth m (nth (if ex then 0 else 1) (nth T acc_tbl []) []) false.\n"
        "Definition narrow (T m : nat) : list nat := nth m (nth T nar_tbl []) [].\n"
        "Definition pos_of (l : list posn) (v : nat) : posn := nth v l PDefault.\n"
        f"Definition is_any (m : nat) : bool := m =? {ATOMS.index('Any')}.\n"
        "Definition run (l : list posn) (rho : varmap) (b : block) := evaluate acc narrow (pos_of l) is_any rho b 4.\n"
    )


def model_term(case, bound):
    pos = []
    rho = []
    for i, v in enumerate(VARS):
        b = bound.get(v)
        pos.append(b["pos"] if b else "PDefault")
        if b and b["val"] is not None:
            rho.append(f"({i}, {lib.clist([str(ATOMS.index(a)) for a in b['val']])})")
    return f"run {lib.clist(pos)} {lib.clist(rho)} {coq_block(case['body'])}"


def decode_model(r):
    rets, errs = r
    return {"rets": sorted({RETS[i] for i in rets}), "errs": sorted(set(errs))}


# ---------------------------------------------------------------------------
# generator


def gen_cond(rng, names, depth, used_vars):
    r = rng.random()
    val_vars = [n for n in names if n in ("x", "y", "z")]
    if depth > 0 and r < 0.30:
        k = rng.choice(["and", "or"])
        return [k, [gen_cond(rng, names, depth - 1, used_vars) for _ in range(rng.choice([2, 2, 3]))]]
    if depth > 0 and r < 0.40:
        return ["not", gen_cond(rng, names, depth - 1, used_vars)]
    r = rng.random()
    if r < 0.50:
        v = rng.choice(val_vars)
        T = rng.choice(["int", "int", "str", "None", "Lit1", "LitA", "A", "B", "object", "Any", "Shadow", "Nested", "Late", "Dec"])
        return ["type", v, T, rng.random() < 0.8]
    if r < 0.70:
        v = rng.choice(val_vars)
        lit = rng.choice(["Lit1", "LitA", "None"])
        op = rng.choice(["is", "is not"]) if lit == "None" else rng.choice(["==", "!="])
        return ["cmp", v, op, lit]
    if r < 0.93:
        return ["kind", rng.choice(["is_provided", "is_positional", "is_keyword"]), rng.choice(names)]
    if r < 0.97:
        return ["ver", rng.choice([">=", "<"]), rng.choice([8, 12, 13])]
    return ["plat", rng.choice(["==", "!="]), rng.choice(["linux", "win32"])]


def gen_block(rng, names, depth, counter, tail):
    n = rng.choice([1, 1, 2, 2, 3])
    out = []
    for i in range(n):
        r = rng.random()
        if depth > 0 and r < 0.55:
            body = gen_block(rng, names, depth - 1, counter, tail)
            orelse = gen_block(rng, names, depth - 1, counter, tail) if rng.random() < 0.7 else []
            out.append(["if", gen_cond(rng, names, 2, None), body, orelse])
        elif r < 0.80:
            out.append(["ret", rng.choice(RETS[:4] + RETS[:4] + RETS[5:])])
            break
        elif r < 0.95:
            counter[0] += 1
            out.append(["err", counter[0]])
        else:
            out.append(["pass"])
    return out


def gen_case(rng, ncalls):
    params = [{"name": "x", "kind": rng.choice(["pk", "pk", "pk", "po"]), "default": None}]
    if rng.random() < 0.8:
        params.append({"name": "y", "kind": "pk" if params[0]["kind"] == "pk" or rng.random() < 0.7 else "po", "default": rng.choice(["Lit1", "None", "LitA", "dots", None])})
        if params[1]["kind"] == "po" and params[0]["kind"] != "po":
            params[1]["kind"] = "pk"
    if rng.random() < 0.15:
        params.append({"name": "args", "kind": "va", "default": None})
    if rng.random() < 0.5:
        params.append({"name": "z", "kind": "ko", "default": rng.choice(["Lit1", "None", "dots"])})
    if rng.random() < 0.15:
        params.append({"name": "kw", "kind": "vk", "default": None})
    names = [p["name"] for p in params]
    counter = [0]
    body = gen_block(rng, names, 3, counter, False)
    case = {"params": params, "ret": rng.random() < 0.7, "body": body, "calls": []}
    seen = set()
    tries = 0
    while len(case["calls"]) < ncalls and tries < ncalls * 5:
        tries += 1
        c = gen_call(rng, case)
        k = json.dumps(c, sort_keys=True)
        if k not in seen:
            seen.add(k)
            case["calls"].append(c)
    return case


def mentioned_types(body):
    out = []

    def walk_c(c):
        if c[0] == "type":
            out.append(c[2])
        elif c[0] == "cmp":
            out.append(c[3])
        elif c[0] == "not":
            walk_c(c[1])
        elif c[0] in ("and", "or"):
            for x in c[1]:
                walk_c(x)

    def walk(b):
        for s in b:
            if s[0] == "if":
                walk_c(s[1])
                walk(s[2])
                walk(s[3])

    walk(body)
    return out


def gen_call(rng, case):
    pool = [t for t in mentioned_types(case["body"]) if t in ATOMS and t != "object"]
    sub = {"int": ["int", "Lit1", "Lit2"], "str": ["str", "LitA"], "A": ["A", "B"], "Any": ["Any"]}

    def atom(allowed=None):
        if pool and rng.random() < 0.7:
            t = rng.choice(pool)
            t = rng.choice(sub.get(t, [t]))
        else:
            t = rng.choice(ATOMS)
        if allowed is not None and t not in allowed:
            t = rng.choice(allowed)
        return t

    def ty(allowed=None):
        r = rng.random()
        if r < 0.42:
            ms = []
            k = rng.choice([2, 2, 3])
            tries = 0
            while len(ms) < k and tries < 20:
                tries += 1
                a = atom(allowed)
                if a not in ms and not (a in ("object",) and ms):
                    ms.append(a)
            if len(ms) >= 2:
                return ["U", ms]
        return atom(allowed)

    pos, kw = [], []
    star = dstar = False
    for p in case["params"]:
        allowed = ["int", "Lit1", "Lit2"] if p["default"] == "dots" else None
        if p["kind"] in ("va", "vk"):
            if p["kind"] == "va" and not kw and rng.random() < 0.4:
                pos.append(ty())
            if p["kind"] == "vk" and rng.random() < 0.4:
                kw.append(["extra", ty()])
            continue
        omit = p["default"] is not None and rng.random() < 0.4
        if omit:
            if p["kind"] in ("pk", "po"):
                # later positional parameters must go by keyword (or be omitted too)
                pass
            continue
        if p["kind"] == "ko" or (p["kind"] == "pk" and (kw or len(pos) < sum(1 for q in case["params"] if q["kind"] in ("pk", "po") and case["params"].index(q) < case["params"].index(p)) or rng.random() < 0.3)):
            kw.append([p["name"], ty(allowed)])
        else:
            pos.append(ty(allowed))
    r = rng.random()
    if r < 0.09:
        star = True
    elif r < 0.18:
        dstar = True
    elif r < 0.21:
        star = dstar = True
    if (star or dstar) and rng.random() < 0.6:
        # leave parameters to be filled from the star arguments: drop trailing explicit arguments
        if star and pos and rng.random() < 0.7:
            pos = pos[: rng.randrange(len(pos))]
        if dstar and kw and rng.random() < 0.7:
            kw = kw[: rng.randrange(len(kw))]
    call = {"pos": pos, "kw": kw, "star": star, "dstar": dstar}
    kinds = o_kinds(case, call)
    if kinds is not None:
        # a parameter declared `int = ...` must receive an int-compatible argument
        ok = {"int", "Lit1", "Lit2"}
        for p in case["params"]:
            if p["default"] == "dots":
                kd, t = kinds[p["name"]]
                if kd != "DEFAULT" and not set(members(t)) <= ok:
                    good = rng.choice(["int", "Lit1", ["U", ["int", "Lit1"]], ["U", ["Lit1", "Lit2"]]])
                    for i, tt in enumerate(call["pos"]):
                        if tt is t:
                            call["pos"][i] = good
                    for kv in call["kw"]:
                        if kv[1] is t:
                            kv[1] = good
    return call


def member_calls(call):
    """the calls obtained by replacing the (single) union argument by each member"""
    tys = [("pos", i, t) for i, t in enumerate(call["pos"])] + [("kw", i, t) for i, (_, t) in enumerate(call["kw"])]
    us = [(w, i, t) for (w, i, t) in tys if not isinstance(t, str)]
    if len(us) != 1:
        return None
    w, i, t = us[0]
    out = []
    for m in t[1]:
        c = json.loads(json.dumps(call))
        if w == "pos":
            c["pos"][i] = m
        else:
            c["kw"][i][1] = m
        out.append(c)
    return out


def n_unions(call):
    return sum(1 for t in list(call["pos"]) + [t for _, t in call["kw"]] if not isinstance(t, str))


def gen_files():
    from translate import typeeval as tr_typeeval

    return {"TypeEvalGen.v": tr_typeeval.translate(str(lib.REPO))}


def changed_regions():
    """names of the pinned source regions whose digest differs from the committed one"""
    from translate import regions as tr_regions
    from translate import typeeval as tr_typeeval

    try:
        pins = tr_typeeval.pins(str(lib.REPO))
    except tr_regions.TranslateError as ex:
        return [str(ex)]
    txt = (lib.THEORIES / "Proofs" / "TypeEvalPins.v").read_text()
    out = []
    for name, (region, dg) in pins.items():
        m = re.search(r"Lemma %s_ok : %s = \"([0-9a-f]+)\"" % (name, name), txt)
        if not m or m.group(1) != dg:
            out.append(f"{name}: {region}")
    return out


# ---------------------------------------------------------------------------
# guards of the known findings (decidable on the generated syntax)


def has_return(stmts):
    return any(s[0] == "ret" or (s[0] == "if" and (has_return(s[2]) or has_return(s[3]))) for s in stmts)


def fallthrough_after_return(stmts):
    """an `if` that contains a return is followed by further statements (or is nested in such a block)"""
    for i, s in enumerate(stmts):
        if s[0] == "if":
            if (has_return(s[2]) or has_return(s[3])) and i + 1 < len(stmts):
                return True
            if fallthrough_after_return(s[2]) or fallthrough_after_return(s[3]):
                return True
    return False


def any_union_guard(case, call):
    """guard of finding C20-any-union-fallthrough (= hypothesis "no Any member" of C20_union_distributes fails):
    the union argument has an Any member"""
    tys = list(call["pos"]) + [t for _, t in call["kw"]]
    return any((not isinstance(t, str)) and "Any" in t[1] for t in tys)


def has_permissive_test(body):
    """the body contains an is_of_type(..., exclude_any=False) test"""

    def cond(c):
        if c[0] == "type":
            return not c[3]
        if c[0] == "not":
            return cond(c[1])
        if c[0] in ("and", "or"):
            return any(cond(x) for x in c[1])
        return False

    return any(s_[0] == "if" and (cond(s_[1]) or has_permissive_test(s_[2]) or has_permissive_test(s_[3])) for s_ in body)


def load_corpus():
    p = HERE / "corpus" / "C20.json"
    return json.loads(p.read_text()) if p.exists() else []


def run(tier: str, replay: str | None = None):
    import concurrent.futures as cf

    rep = lib.Report(PROP, tier, "proof")
    rng = random.Random(lib.seed() * 9173 + 20)
    broken_translation = None
    try:
        gen = gen_files()
    except Exception as ex:  # TranslateError: the translated / pinned source no longer has the expected shape
        broken_translation = str(ex)
        gen = {}
    proof = lib.prove(PROP, gen, thorough=(tier == "thorough"))

    if replay:
        r = json.loads(Path(replay).read_text())
        c = r["input"]
        cases = [{"params": c["params"], "ret": c["ret"], "body": c["body"], "calls": [c["call"]] if "call" in c else c["calls"]}]
    else:
        cases = [dict(c) for c in load_corpus()]
        n = 900 if tier == "quick" else 9000
        for _ in range(n):
            cases.append(gen_case(rng, 6))
    # add the member calls of every one-union call (oracle (b))
    for case in cases:
        extra = []
        have = {json.dumps(c, sort_keys=True) for c in case["calls"]}
        for call in case["calls"]:
            for mc in member_calls(call) or []:
                k = json.dumps(mc, sort_keys=True)
                if k not in have:
                    have.add(k)
                    extra.append(mc)
        case["calls"] = case["calls"] + extra

    chunk = 20 if tier == "quick" else 40
    payloads = [(i, cases[i : i + chunk]) for i in range(0, len(cases), chunk)]
    if len(payloads) == 1:
        outs = [worker(payloads[0])]
    else:
        with cf.ProcessPoolExecutor(max_workers=6) as ex:
            outs = list(ex.map(worker, payloads))
    results, stray, crashes = {}, [], []
    for cid, out, st, crash in outs:
        for j, calls in enumerate(out):
            results[cid + j] = calls
        if st:
            stray.append((cid, st[:3]))
        if crash:
            crashes.append((cid, crash))

    acc, narrow = impl_tables()
    table_mismatch = [(T, m, ex, acc[(T, m, ex)]) for T in TYPES for m in ATOMS for ex in (True, False) if acc[(T, m, ex)] != o_acc(T, m, ex)]
    narrow_oof = [(k, v) for k, v in narrow.items() if any(x.startswith("?") for x in v)]

    # model terms
    terms, meta = [], []
    oof = 0
    for ci, case in enumerate(cases):
        for ki, call in enumerate(case["calls"]):
            b = results[ci][ki]["bound"]
            if b is None:
                continue
            if any(n in ("x", "y", "z") and v["val"] is None for n, v in b.items() if n != "__direct__"):
                oof += 1
                continue
            terms.append(model_term(case, b))
            meta.append((ci, ki))
    model = {}
    model_ok = not any("build failed" in x for x in proof.broken)
    if not model_ok:
        # a pin / translation obligation / proof is broken: the search for a failing input goes on, and the model
        # itself is still used when its own file builds (only Proofs/ and Properties/ depend on the broken part)
        model_ok, _ = lib.coq_make(["theories/Eval/TypeEval.vo"], timeout=600)
    model_ok = model_ok and not narrow_oof
    if model_ok and terms:
        try:
            vals = lib.coq_eval(coq_header(acc, narrow), terms, name="c20", jobs=6)
            for k, v in zip(meta, vals):
                model[k] = decode_model(v)
        except RuntimeError as ex:
            rep.violation({"kind": "broken-correspondence", "correspondence": "Eval.TypeEval.evaluate vs Evaluator.evaluate", "detail": str(ex)[-1500:]}, no_failing_input=True)

    failing, known, corr = [], [], []
    undecided = 0
    hist = {"mode": {}, "impl_nrets": {}, "impl_nerrs": {}, "bind": {}, "cond_kinds": {}}
    distinct = set()
    n_eval = 0
    samples = []

    def bump(h, k):
        hist[h][str(k)] = hist[h].get(str(k), 0) + 1

    for ci, case in enumerate(cases):
        index = {json.dumps(c, sort_keys=True): ki for ki, c in enumerate(case["calls"])}
        for ki, call in enumerate(case["calls"]):
            n_eval += 1
            res = results[ci][ki]
            e2e = res["e2e"]
            nun = n_unions(call)
            star = call.get("star") or call.get("dstar")
            bump("mode", ("star," if star else "") + f"unions={min(nun, 2)}")
            if e2e is None or e2e["rets"] is None:
                failing.append((ci, ki, "no reveal_type for the call (checker crashed?)", str(e2e), None))
                continue
            obs = {"rets": e2e["rets"], "errs": e2e["errs"]}
            bound = res["bound"]
            bump("bind", "ok" if bound is not None else "rejected")
            if bound is None:
                # the call shape is rejected by the binder: not this property's business, but the oracle must agree
                if not star and o_kinds(case, call) is not None:
                    failing.append((ci, ki, "bind_arguments rejects a call CPython binds", obs, None))
                continue
            if any(x.startswith("?") for x in obs["rets"]) or any("internal_error" in o for o in e2e["other"]):
                failing.append((ci, ki, "unparseable type / internal error", {"obs": obs, "other": e2e["other"]}, None))
                continue
            if e2e["other"] and star:
                bump("bind", "star call rejected by the checker")
                continue
            if e2e["other"]:
                failing.append((ci, ki, "unexpected diagnostic on an accepted call", {"obs": obs, "other": e2e["other"]}, None))
                continue
            direct = bound.get("__direct__")
            dset = {"rets": direct["rets"], "errs": sorted(set(direct["errs"]))}
            bump("impl_nrets", len(obs["rets"]))
            bump("impl_nerrs", len(dset["errs"]))
            # end to end vs direct evaluator: same types; the one diagnostic shown is the first show_error executed
            if obs["rets"] != dset["rets"] or obs["errs"] != direct["errs"][:1]:
                failing.append((ci, ki, "diagnostics / revealed type disagree with the evaluator's own result", obs, direct))
                continue
            m = model.get((ci, ki))
            if m is not None:
                distinct.add(json.dumps([case["params"], case["body"], call], sort_keys=True))
                if m != dset:
                    corr.append((ci, ki, dset, m))
            if nun == 0:
                want = oracle_unionfree(case, call)
                if want is None and star:
                    continue  # a star call the documented table cannot bind: not decided here
                if want is None:
                    failing.append((ci, ki, "call accepted although CPython rejects its shape", dset, None))
                elif want != dset:
                    failing.append((ci, ki, "result differs from the documented interpreter", dset, want))
                elif len(samples) < 4 and len(case["body"]) > 1:
                    samples.append({"function": render_function("f", case), "call": call, "impl": dset})
            elif nun == 1 and not star:
                want_r, want_e, ok = set(), set(), True
                for mc in member_calls(call):
                    kj = index.get(json.dumps(mc, sort_keys=True))
                    b2 = results[ci][kj]["bound"] if kj is not None else None
                    if b2 is None:
                        ok = False
                        break
                    want_r |= set(b2["__direct__"]["rets"])
                    want_e |= set(b2["__direct__"]["errs"])
                if not ok:
                    continue
                want = {"rets": sorted(want_r), "errs": sorted(want_e)}
                if want != dset:
                    sup = set(dset["rets"]) >= want_r and set(dset["errs"]) >= want_e
                    if sup and any_union_guard(case, call) and m is not None and m == dset:
                        known.append(("C20-any-union-fallthrough", ci, ki))
                    elif any_union_guard(case, call) and has_permissive_test(case["body"]) and m is not None and m == dset:
                        # hypothesis narrow_id fails: the Any member is converted by an exclude_any=False test
                        known.append(("C20-any-permissive-conversion", ci, ki))
                    elif sup and any_union_guard(case, call) and m is None and not model_ok:
                        # the model could not be evaluated; a superset is the direction the finding predicts
                        undecided += 1
                    else:
                        failing.append((ci, ki, "union call is not the union of the member calls" + (" (superset)" if sup else " (members' results missing: unsound)"), dset, want))

    def payload(ci, ki):
        case = cases[ci]
        return {"params": case["params"], "ret": case["ret"], "body": case["body"], "call": case["calls"][ki],
                "source": "\n".join(render_function("f", case) + render_call("f", "t", case["calls"][ki]))}

    findings = {f["id"]: f for f in lib.load_known_findings(PROP)["findings"]}
    for fid, ci, ki in known:
        if fid in findings:
            rep.known(fid, findings[fid]["what"])
        else:
            failing.append((ci, ki, f"unlisted finding {fid}", None, None))
    for ci, ki, what, obs, want in failing[:10]:
        rep.violation({"kind": "failing-input", "input": payload(ci, ki), "what": what, "observed": obs, "expected": want,
                       "oracle": "documented interpreter (union-free) / union of the member calls", "how_to_run": "./check C20 --replay <this file>"})
    found_input = bool(failing)
    if corr and not found_input:
        ci, ki, obs, m = corr[0]
        rep.violation({"kind": "broken-correspondence", "correspondence": "Eval.TypeEval.evaluate vs Evaluator.evaluate (end to end)",
                       "input": payload(ci, ki), "observed": obs, "model": m, "n_mismatches": len(corr)}, no_failing_input=True)
    if broken_translation and not found_input:
        rep.violation({"kind": "broken-obligation", "theorem": "Gen/TypeEvalGen.v (translator harness/translate/typeeval.py)", "detail": broken_translation}, no_failing_input=True)
    if not proof.ok and not found_input:
        rep.violation({"kind": "broken-obligation", "theorem": "; ".join(proof.broken), "changed_source_regions": changed_regions(),
                       "log": proof.log[-1500:]}, no_failing_input=True)
    for cid, crash in crashes[:3]:
        rep.violation({"kind": "broken-correspondence", "correspondence": "checker raised on a generated module", "detail": crash, "chunk": cid}, no_failing_input=True)
    if table_mismatch:
        rep.harness_error(f"oracle subtype table disagrees with can_assign_maybe_exclude_any on {len(table_mismatch)} entries, e.g. {table_mismatch[:3]}")
    if narrow_oof:
        rep.harness_error(f"constrain_value leaves the vocabulary: {narrow_oof[:3]}")
    if stray:
        rep.harness_error(f"diagnostics outside the call lines: {stray[:2]}")

    rep.coverage.update(
        evaluations=n_eval,
        distinct_nontrivial=len(distinct),
        rule="a case = (generated @evaluated function, one call); counted when the binder accepts the call, the model could be instantiated and "
        "was compared with the end-to-end result; distinct = distinct (function, call) pairs",
        samples=samples,
        traces_validated_against_impl=len(model) - len(corr),
        model_evaluated=len(model),
        out_of_fragment=oof,
        correspondence_mismatches=len(corr),
        oracle_failures=len(failing),
        known_finding_hits=len(known),
        undecided_without_model=undecided,
        input_distribution=hist,
        exhaustive=False,
    )
    rep.assumptions = [
        "acc / narrow / positions are abstract in the model; instantiated from can_assign_maybe_exclude_any, constrain_value and Signature.bind_arguments",
        "oracle (a): subtype table of the vocabulary (validated against the implementation on every run) and CPython's inspect.Signature.bind for argument kinds",
    ]
    return rep.finish(
        proof,
        "coq_makefile + make theories/Properties/C20.vo; coqc theories/Properties/C20.v (Print Assumptions)" + ("; coqchk -o" if tier == "thorough" else ""),
        ["Coq 8.16.1 kernel (coqc; vm_compute for model evaluation)", "correspondence + oracle harness/c20.py", "CPython inspect.Signature.bind as the binding oracle"],
    )
