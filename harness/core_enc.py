"""pyanalyze Value / Python object  <->  term of the Coq core model (Core/Obj.v, Core/Val.v).

Terms are kept in the shape lib.parse_term produces (tuples ("Ctor", args...), lists,
ints, bools, bare strings for nullary constructors) so that a model result can be
compared with the encoding of the implementation's result by ==.  Fail-closed:
anything outside the modelled fragment raises OutOfFragment (counted by callers).
"""
from __future__ import annotations

import enum

import universe as U


class OutOfFragment(Exception):
    pass


class Zi(int):
    """an int that must be printed as a Coq Z"""


class Nat(int):
    """an int that must be printed as a Coq nat"""


class Pair(tuple):
    """a Coq pair (a, b) (as opposed to a constructor application)"""


def show(t) -> str:
    """AST -> Coq concrete syntax."""
    if isinstance(t, bool):
        return "true" if t else "false"
    if isinstance(t, Zi):
        return f"({int(t)})%Z"
    if isinstance(t, Nat):
        return f"{int(t)}%nat"
    if isinstance(t, int):
        return f"{t}%N"
    if isinstance(t, str):
        return t
    if isinstance(t, list):
        return "[" + "; ".join(show(x) for x in t) + "]"
    if isinstance(t, Pair):
        return "(" + ", ".join(show(x) for x in t) + ")"
    if isinstance(t, tuple):
        if t and isinstance(t[0], str) and t[0][:1].isupper():
            return "(" + " ".join([t[0]] + [show(x) for x in t[1:]]) + ")"
        return "(" + ", ".join(show(x) for x in t) + ")"
    raise TypeError(t)


def norm(t):
    """normal form for comparison (Zi/Nat -> int, tuples stay tuples)."""
    if isinstance(t, bool):
        return t
    if isinstance(t, int):
        return int(t)
    if isinstance(t, list):
        return [norm(x) for x in t]
    if isinstance(t, tuple):
        return tuple(norm(x) for x in t)
    return t


class Ctx:
    """per-case identity tokens for mutable / possibly unhashable objects"""

    def __init__(self):
        self.ids = {}
        self.keep = []

    def ident(self, o) -> int:
        k = id(o)
        if k not in self.ids:
            self.ids[k] = len(self.ids) + 1
            self.keep.append(o)
        return self.ids[k]


def class_code(c) -> int:
    try:
        return U.CLASS_CODES[c]
    except (KeyError, TypeError):
        raise OutOfFragment(f"class {c!r}")


def is_hashable(o) -> bool:
    try:
        hash(o)
        return True
    except TypeError:
        return False


def halves(x: float) -> int:
    h = x * 2
    if h != h or h in (float("inf"), float("-inf")) or h != int(h):
        raise OutOfFragment(f"float {x!r}")
    return int(h)


def enc_obj(o, cx: Ctx):
    t = type(o)
    if o is None:
        return "ONone"
    if t is bool:
        return ("OBool", o)
    if t is int:
        return ("OInt", Zi(o))
    if t is float:
        if o == 0 and str(o).startswith("-"):
            raise OutOfFragment("-0.0")
        return ("OFloat", Zi(halves(o)))
    if t is complex:
        return ("OComplex", Zi(halves(o.real)), Zi(halves(o.imag)))
    if t is str:
        return ("OStr", [ord(ch) for ch in o])
    if t is bytes:
        return ("OBytes", list(o))
    if isinstance(o, int) and t in U.CLASS_CODES:  # IntEnum members, instances of int subclasses
        return ("OIntInst", class_code(t), Zi(int(o)))
    if isinstance(o, float) and t in U.CLASS_CODES:  # float subclasses, float-Enum members
        return ("OFloatInst", class_code(t), Zi(halves(float(o))))
    if isinstance(o, enum.Enum) and t in U.ENUM_MEMBERS:
        return ("OInst", class_code(t), U.ENUM_MEMBERS[t].index(o))
    if t in U.INSTANCES:
        for i, inst in enumerate(U.INSTANCES[t]):
            if inst is o:
                return ("OInst", class_code(t), i)
        raise OutOfFragment("unknown instance")
    if isinstance(o, type):
        if type(o) is not type:  # enum classes / ABCs as objects: their metaclass makes them iterable, sized, ...
            raise OutOfFragment("class object with a metaclass")
        return ("OClass", class_code(o))
    if t is tuple:
        ident = 0 if is_hashable(o) else cx.ident(o)
        return ("OTuple", ident, [enc_obj(x, cx) for x in o])
    if t is list:
        return ("OList", cx.ident(o), [enc_obj(x, cx) for x in o])
    if t is set:
        return ("OSet", cx.ident(o), [enc_obj(x, cx) for x in o])
    if t is frozenset:
        return ("OFrozenset", [enc_obj(x, cx) for x in o])
    if t is dict:
        return ("ODict", cx.ident(o), [Pair((enc_obj(k, cx), enc_obj(v, cx))) for k, v in o.items()])
    raise OutOfFragment(f"object of type {t.__name__}")


def enc_val(v, cx: Ctx):
    from pyanalyze import value as V
    from pyanalyze.signature import ParameterKind, Signature

    t = type(v)
    if t is V.AnyValue:
        return ("VLeaf", ("LAny", v.source.value))
    if t is V.KnownValue:
        return ("VLeaf", ("LKnown", enc_obj(v.val, cx)))
    if t is V.KnownValueWithTypeVars:
        return ("VLeaf", ("LKnownTV", enc_obj(v.val, cx)))
    if t is V.TypedValue:
        if not isinstance(v.typ, type):
            raise OutOfFragment("synthetic type")
        return ("VLeaf", ("LTyped", class_code(v.typ), bool(v.literal_only)))
    if t is V.NewTypeValue:
        if v.newtype not in U.NEWTYPES:
            raise OutOfFragment("newtype")
        return ("VLeaf", ("LNewType", U.NEWTYPES[v.newtype], class_code(v.typ)))
    if t is V.UninitializedValue:
        return ("VLeaf", "LUninit")
    if t is V.TypeAliasValue:
        # a type alias denotes the aliased value (with its type arguments substituted)
        return enc_val(v.get_value(), cx)
    if t is V.MultiValuedValue:
        return ("VUnion", [enc_val(x, cx) for x in v.vals])
    if t is V.GenericValue:
        if v.literal_only or not isinstance(v.typ, type):
            raise OutOfFragment("generic")
        return ("VNode", ("TGeneric", class_code(v.typ)), [enc_val(x, cx) for x in v.args])
    if t is V.SequenceValue:
        if v.literal_only or not isinstance(v.typ, type) or len(v.args) != 1:
            raise OutOfFragment("sequence")
        flags = [bool(f) for f, _ in v.members]
        return ("VNode", ("TSeq", class_code(v.typ), flags), [enc_val(v.args[0], cx)] + [enc_val(m, cx) for _, m in v.members])
    if t is V.DictIncompleteValue:
        if v.literal_only or not isinstance(v.typ, type) or len(v.args) != 2:
            raise OutOfFragment("dictinc")
        flags = [Pair((bool(p.is_many), bool(p.is_required))) for p in v.kv_pairs]
        kids = [enc_val(v.args[0], cx), enc_val(v.args[1], cx)]
        for p in v.kv_pairs:
            kids += [enc_val(p.key, cx), enc_val(p.value, cx)]
        return ("VNode", ("TDictInc", class_code(v.typ), flags), kids)
    if t is V.TypedDictValue:
        keys = list(v.items)
        if any(len(k) != 1 for k in keys) or v.literal_only:  # keys in declaration (insertion) order
            raise OutOfFragment("typeddict keys")
        if v.args[0] != V.TypedValue(str) or len(v.args) != 2:
            raise OutOfFragment("typeddict args")
        tagkeys = [Pair((ord(k), Pair((bool(e.required), bool(e.readonly))))) for k, e in v.items.items()]
        kids = [enc_val(v.args[1], cx)] + [enc_val(e.typ, cx) for e in v.items.values()]
        if v.extra_keys is not None:
            kids.append(enc_val(v.extra_keys, cx))
        return ("VNode", ("TTypedDict", tagkeys, v.extra_keys is not None, bool(v.extra_keys_readonly)), kids)
    if t is V.SubclassValue:
        return ("VNode", ("TSubclass", bool(v.exactly)), [enc_val(v.typ, cx)])
    if t is V.AnnotatedValue:
        md = []
        for m in v.metadata:
            if type(m) is V.KnownValue and type(m.val) is int and 0 <= m.val < 50:
                md.append(m.val)
            else:
                raise OutOfFragment("metadata")
        return ("VNode", ("TAnnot", md), [enc_val(v.value, cx)])
    if t is V.TypeVarValue:
        if v.typevar not in U.TYPEVARS or v.default is not None or v.is_paramspec or v.is_typevartuple:
            raise OutOfFragment("typevar")
        if not isinstance(v.constraints, tuple):
            raise OutOfFragment("typevar constraints not a tuple (unhashable)")
        kids = ([enc_val(v.bound, cx)] if v.bound is not None else []) + [enc_val(c, cx) for c in v.constraints]
        return ("VNode", ("TTypeVar", U.TYPEVARS.index(v.typevar) + 1, v.bound is not None), kids)
    if t is V.CallableValue:
        sig = v.signature
        import collections.abc

        if type(sig) is not Signature or v.typ is not collections.abc.Callable or v.literal_only:
            raise OutOfFragment("callable")
        if sig.is_asynq or not sig.has_return_annotation or sig.allow_call or sig.evaluator is not None or sig.deprecated is not None:
            raise OutOfFragment("callable flags")
        kids, kw, npos = [], [], 0
        for i, (name, p) in enumerate(sig.parameters.items()):
            if p.default is not None:
                raise OutOfFragment("callable parameter default")
            if p.kind is ParameterKind.POSITIONAL_ONLY and name == f"@{i}" and not kw:
                npos += 1
            elif p.kind is ParameterKind.KEYWORD_ONLY and len(name) == 1:
                kw.append(ord(name))  # keyword-only names in declaration order
            else:
                raise OutOfFragment("callable parameter")
            kids.append(enc_val(p.annotation, cx))
        kids.append(enc_val(sig.return_value, cx))
        return ("VNode", ("TCallable", Nat(npos), kw), kids)
    raise OutOfFragment(f"value class {t.__name__}")


def depth(t) -> int:
    """depth of a value term as Core/Val.v computes it"""
    if t[0] == "VLeaf":
        return 1
    kids = t[2] if t[0] == "VNode" else t[1]
    return 1 + max([depth(k) for k in kids] or [0])
