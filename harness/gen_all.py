"""All translators: name of generated file -> text.  A translator that fails
contributes nothing here (setup must not fail); the property's own check reports it."""
from translate import options as tr_options


def all_gen_files():
    out = {}
    for name, fn in [("Options.v", tr_options.translate)]:
        try:
            out[name] = fn("/repo")
        except Exception as ex:  # noqa
            print(f"translator for {name} failed: {ex}")
    return out
