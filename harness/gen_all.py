"""All translators: name of generated file -> text.  Every harness module
c<NN>.py may define gen_files() -> {filename: text}.  A translator that fails
contributes nothing here (setup must not fail); the property's own check
reports the failure as a broken obligation."""
import importlib
import re
import sys
from pathlib import Path

HERE = Path(__file__).resolve().parent


def all_gen_files():
    out = {}
    for p in sorted(HERE.glob("c[0-9][0-9].py")):
        try:
            mod = importlib.import_module(p.stem)
            fn = getattr(mod, "gen_files", None)
            if fn is not None:
                out.update(fn())
        except Exception as ex:  # noqa
            print(f"gen_files of {p.name} failed: {ex}", file=sys.stderr)
    return out
