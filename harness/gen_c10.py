"""Program generator for C10 (and reused by C12): small modules that import
cleanly and exercise the places where pyanalyze builds unions, lists of names
and detail text: branch joins, narrowing by `or`/`and`/isinstance/`in`/
truthiness, try/except/finally, suppressing `with`, loops with break/else,
nested functions, wrong keyword names / arities, protocols with several
members, overloads, type variables, TypedDicts, unused variables,
reveal_locals().  Everything is derived from one random.Random."""
from __future__ import annotations

import random

NAMES = ["alpha", "beta", "gamma", "delta", "eps", "zeta", "eta", "theta", "iota", "kappa", "lam", "mu", "nu", "xi",
         "omicron", "rho", "sigma", "tau", "ups", "phi", "chi", "psi", "omega", "aa", "zz", "mid", "q1", "w2"]
LITS = ["1", "2", "0", "-1", "'a'", "'bc'", "''", "2.5", "0.0", "b'x'", "b''", "None", "True", "False", "(1, 'a')", "()",
        "[1, 2]", "[]", "{'k': 1}", "{1, 2}", "1j", "range(3)", "int", "str", "len", "object()", "...", "10**20"]
TYPES = ["int", "str", "bytes", "float", "bool", "list", "dict", "tuple", "type(None)", "complex", "set", "object"]
ANNOTS = ["int", "str", "bytes", "float", "bool", "None", "object", "list[int]", "dict[str, int]", "tuple[int, str]",
          "tuple[int, ...]", "set[str]", "type[int]"]

GLOBAL_NAMES = ["g", "cfg", "state", "limit"]

# library objects and stub-declared supertypes: (import, constructor expression, accepted annotation, other annotation)
LIBRARY = [
    ("io", "io.StringIO()", "typing.TextIO", "typing.BinaryIO"),
    ("io", "io.BytesIO()", "typing.BinaryIO", "typing.TextIO"),
    ("collections", "collections.OrderedDict()", "typing.MutableMapping", "typing.Sequence"),
    ("collections", "collections.deque()", "typing.Iterable", "typing.Mapping"),
    ("collections", "collections.Counter()", "typing.Mapping", "typing.Sequence"),
    ("pathlib", "pathlib.Path('x')", "os.PathLike", "typing.TextIO"),
    ("fractions", "fractions.Fraction(1, 2)", "typing.SupportsFloat", "typing.Sequence"),
    ("decimal", "decimal.Decimal(1)", "typing.SupportsAbs", "typing.Mapping"),
    ("array", "array.array('i')", "typing.MutableSequence", "typing.Mapping"),
    ("re", "re.compile('x')", "typing.Pattern", "typing.Match"),
    ("datetime", "datetime.datetime(2020, 1, 1)", "datetime.date", "datetime.time"),
    ("string", "string.Template('x')", "object", "typing.Sequence"),
    ("tempfile", "tempfile.TemporaryFile()", "typing.IO", "typing.Mapping"),
]
# generic protocols / ABCs of the standard library with one type argument, and argument expressions
STD_GENERICS = ["typing.SupportsAbs", "typing.SupportsRound", "typing.Iterable", "typing.Sequence", "typing.Collection",
                "typing.Container", "typing.Iterator", "typing.Reversible", "typing.AbstractSet", "typing.Awaitable"]
STD_ARGS = ["int", "str", "float", "bytes", "bool", "None", "object"]
STD_VALUES = ["1", "'s'", "2.5", "b'x'", "[1]", "['a']", "(1, 2)", "('a',)", "{1}", "{'a': 1}", "True", "range(3)", "iter([1])", "1j"]

HEADER = """import typing
import os
from typing import Union, Optional, Protocol, TypeVar, overload, Callable, Generic, Sequence, Mapping
from typing_extensions import TypedDict, Literal, NotRequired
from contextlib import suppress
from dataclasses import dataclass
from pyanalyze.extensions import reveal_locals
try:
    import c10lib
except ImportError:
    c10lib = None
"""


class Gen:
    def __init__(self, rng: random.Random):
        self.rng = rng
        self.lines: list[str] = []
        self.features: set[str] = set()
        self.uid = 0

    def fresh(self, prefix="f"):
        self.uid += 1
        return f"{prefix}{self.uid}"

    def emit(self, ind, text):
        self.lines.append("    " * ind + text)

    def union_annot(self):
        k = self.rng.randrange(2, 6)
        return "Union[" + ", ".join(self.rng.sample(ANNOTS, k)) + "]"

    # -- conditions ---------------------------------------------------------
    def cond(self, vars_):
        r = self.rng
        v = r.choice(vars_)
        kind = r.randrange(9)
        if kind == 0:
            return f"isinstance({v}, {r.choice(TYPES)})"
        if kind == 1:
            ts = r.sample(TYPES, r.randrange(2, 4))
            return f"isinstance({v}, ({', '.join(ts)}))"
        if kind == 2:
            return f"{v} is None" if r.random() < 0.5 else f"{v} is not None"
        if kind == 3:
            return v if r.random() < 0.5 else f"not {v}"
        if kind == 4:
            return f"{v} == {r.choice(LITS[:12])}"
        if kind == 5:
            self.features.add("or")
            n = r.randrange(2, 5)
            return " or ".join(self.simple_cond(v) for _ in range(n))
        if kind == 6:
            self.features.add("and")
            n = r.randrange(2, 4)
            return " and ".join(self.simple_cond(r.choice(vars_)) for _ in range(n))
        if kind == 7:
            self.features.add("in")
            ls = r.sample(LITS[:12], r.randrange(2, 5))
            return f"{v} in ({', '.join(ls)},)"
        return f"callable({v})"

    def simple_cond(self, v):
        r = self.rng
        k = r.randrange(4)
        if k == 0:
            return f"isinstance({v}, {r.choice(TYPES)})"
        if k == 1:
            return f"{v} is None"
        if k == 2:
            return f"{v} == {r.choice(LITS[:12])}"
        return f"isinstance({v}, ({', '.join(r.sample(TYPES, 2))}))"

    # -- statements ---------------------------------------------------------
    def block(self, ind, vars_, depth, n=None):
        r = self.rng
        n = n if n is not None else r.randrange(1, 4)
        for _ in range(n):
            self.stmt(ind, vars_, depth)

    def assign(self, ind, vars_):
        r = self.rng
        v = r.choice(NAMES[:10]) if r.random() < 0.7 or not vars_ else r.choice(vars_)
        self.emit(ind, f"{v} = {r.choice(LITS)}")
        if v not in vars_:
            vars_.append(v)

    def reveal(self, ind, vars_):
        if vars_:
            self.emit(ind, f"reveal_type({self.rng.choice(vars_)})")

    def stmt(self, ind, vars_, depth):
        r = self.rng
        k = r.randrange(16) if depth < 3 else r.randrange(3)
        if k <= 1 or not vars_:
            self.assign(ind, vars_)
        elif k == 2:
            self.reveal(ind, vars_)
        elif k == 3:
            self.features.add("if")
            self.emit(ind, f"if {self.cond(vars_)}:")
            inner = list(vars_)
            self.block(ind + 1, inner, depth + 1)
            self.reveal(ind + 1, inner)
            for _ in range(r.randrange(0, 3)):
                self.emit(ind, f"elif {self.cond(vars_)}:")
                b = list(vars_)
                self.block(ind + 1, b, depth + 1)
                inner += [x for x in b if x not in inner]
            if r.random() < 0.6:
                self.emit(ind, "else:")
                b = list(vars_)
                self.block(ind + 1, b, depth + 1)
                self.reveal(ind + 1, b)
                inner += [x for x in b if x not in inner]
            vars_ += [x for x in inner if x not in vars_]
        elif k == 4:
            self.features.add("try")
            self.emit(ind, "try:")
            b = list(vars_)
            for _ in range(r.randrange(2, 5)):
                self.assign(ind + 1, b)
                if r.random() < 0.5:
                    self.emit(ind + 1, "cb()")
            self.emit(ind, f"except {r.choice(['Exception', 'ValueError', '(KeyError, TypeError)'])}:")
            self.reveal(ind + 1, b)
            self.block(ind + 1, b, depth + 1, 1)
            if r.random() < 0.3:
                self.emit(ind, "else:")
                self.block(ind + 1, b, depth + 1, 1)
            if r.random() < 0.3:
                self.emit(ind, "finally:")
                self.reveal(ind + 1, b)
                self.emit(ind + 1, "pass")
            vars_ += [x for x in b if x not in vars_]
        elif k == 5:
            self.features.add("with")
            self.emit(ind, "with suppress(Exception):")
            b = list(vars_)
            for _ in range(r.randrange(2, 5)):
                self.assign(ind + 1, b)
                if r.random() < 0.4:
                    self.emit(ind + 1, "cb()")
            vars_ += [x for x in b if x not in vars_]
        elif k == 6:
            self.features.add("for")
            it = r.choice(["range(3)", "cb()", "[1, 'a', None]", "'abc'", "{1: 'a'}"])
            tgt = r.choice(NAMES[:10])
            self.emit(ind, f"for {tgt} in {it}:")
            b = list(vars_) + ([tgt] if tgt not in vars_ else [])
            self.block(ind + 1, b, depth + 1)
            if r.random() < 0.4:
                self.emit(ind + 1, f"if {self.cond(b)}:")
                self.emit(ind + 2, r.choice(["break", "continue"]))
            if r.random() < 0.3:
                self.emit(ind, "else:")
                self.block(ind + 1, b, depth + 1, 1)
            vars_ += [x for x in b if x not in vars_]
        elif k == 7:
            self.features.add("while")
            self.emit(ind, f"while {self.cond(vars_)}:")
            b = list(vars_)
            self.block(ind + 1, b, depth + 1)
            if r.random() < 0.5:
                self.emit(ind + 1, f"if {self.cond(b)}:")
                self.emit(ind + 2, "break")
            vars_ += [x for x in b if x not in vars_]
        elif k == 8:
            self.features.add("nested")
            fn = self.fresh("inner")
            self.emit(ind, f"def {fn}():")
            for v in r.sample(vars_, min(len(vars_), r.randrange(1, 4))):
                self.emit(ind + 1, f"reveal_type({v})")
            self.emit(ind + 1, "return 0")
            self.emit(ind, f"{fn}()")
        elif k == 9:
            self.features.add("locals")
            self.emit(ind, "reveal_locals()")
            if r.random() < 0.5:
                self.features.add("imported")
                call = r.choice(["answer()", "make_pair(1)", "pick(cb)", "Box().get()"])
                self.emit(ind, f"reveal_type(c10lib.{call})")
        elif k == 10 and r.random() < 0.35:
            # set displays: the runtime set has no order, the text derived from it must
            self.features.add("setlit")
            v = r.choice(vars_)
            elems = r.sample(["'a'", "'b'", "'cc'", "'dd'", "'e'", "None", "b'x'", "b'yy'", "1", "2.5", "'zeta'", "'omega'", "(1, 'a')", "True"], r.randrange(2, 7))
            disp = "{" + ", ".join(elems) + "}"
            form = r.randrange(8)
            if form == 0:
                self.emit(ind, f"if {v} in {disp}:")
                self.emit(ind + 1, f"reveal_type({v})")
            elif form == 1:
                t = r.choice(NAMES[:10])
                self.emit(ind, f"for {t} in {disp}:")
                self.emit(ind + 1, f"reveal_type({t})")
                if t not in vars_:
                    vars_.append(t)
            elif form == 2:
                self.emit(ind, f"reveal_type({disp})")
            elif form == 3:
                self.emit(ind, f"reveal_type(frozenset({disp}))")
            elif form == 4:
                self.emit(ind, f"if {v} not in {disp}: reveal_type({v})")
            elif form == 5:
                self.emit(ind, f"helper({disp}, zz={disp})")
            else:
                # a set literal as a MEMBER of a union (displayed through the union's own text)
                t = r.choice(NAMES[:10])
                other = r.choice(["None", "frozenset({'p', 'q', 'rr'})", "{'x', 'yy', 'zzz'}", "1"])
                self.emit(ind, f"{t} = {r.choice(['', 'frozenset('])}{disp}{')' if False else ''} if {v} else {other}".replace("frozenset({", "frozenset({").replace("} if", "} if"))
                self.emit(ind, f"reveal_type({t})")
                if t not in vars_:
                    vars_.append(t)
        elif k == 10 and r.random() < 0.45:
            # a plain string that looks like an f-string: every name is looked up (and marked
            # as used) until the first unknown one
            self.features.add("missing_f")
            names = r.sample(vars_, min(len(vars_), r.randrange(1, 4))) + r.sample(["zzz_undefined", "qq_undefined"], r.randrange(0, 2))
            r.shuffle(names)
            fresh = r.choice(NAMES[:10]) + "_u"
            self.emit(ind, f"{fresh} = {r.choice(LITS[:8])}")
            names.insert(r.randrange(0, len(names) + 1), fresh)
            text = " ".join("{" + n + "}" for n in names)
            self.emit(ind, f"print({text!r})")
        elif k == 10 and r.random() < 0.5:
            self.features.add("format")
            keys = r.sample(NAMES, r.randrange(2, 6))
            given = r.sample(keys, r.randrange(0, len(keys)))
            tmpl = " ".join(f"%({k})s" for k in keys)
            self.emit(ind, f"print({tmpl!r} % {{{', '.join(repr(k) + ': 1' for k in given)}}})")
        elif k == 10:
            self.features.add("attr")
            v = r.choice(vars_)
            attrs = r.sample(NAMES, r.randrange(1, 5))
            self.emit(ind, "print(" + ", ".join(f"{v}.{a}" for a in attrs) + ")")
        elif k == 11:
            self.features.add("badcall")
            v = r.choice(vars_)
            kws = r.sample(NAMES, r.randrange(0, 5))
            self.emit(ind, f"helper({v}, " + ", ".join(f"{k}=1" for k in kws) + ")")
        elif k >= 14:
            # a condition stored in a variable and reused, nested and negated, in several tests:
            # the constraint objects form a DAG that is applied / inverted repeatedly
            self.features.add("condvar")
            f1, f2 = r.sample(["ok", "flag", "good", "chk"], 2)
            v = r.choice(vars_)
            self.emit(ind, f"{f1} = {self.cond(vars_)}")
            self.emit(ind, f"{f2} = {f1} {r.choice(['and', 'or'])} {self.simple_cond(v)}")
            self.emit(ind, f"if {f1} and not {f2}:")
            self.emit(ind + 1, f"reveal_type({v})")
            self.emit(ind, f"elif {f2} or not {f1}:")
            self.emit(ind + 1, f"reveal_type({v})")
            self.emit(ind, f"if not ({f1} or {f2}) or ({f2} and {self.simple_cond(v)}):")
            self.emit(ind + 1, f"reveal_type({v})")
            self.emit(ind, f"assert {f1} or {f2}")
            self.emit(ind, f"reveal_type({v})")
            for f in (f1, f2):
                if f not in vars_:
                    vars_.append(f)
        elif k == 12:
            self.features.add("binop")
            a, b = r.choice(vars_), r.choice(vars_)
            op = r.choice(["+", "*", "-", "%", "<", "[]"])
            if op == "[]":
                self.emit(ind, f"reveal_type({a}[{b}])")
            else:
                self.emit(ind, f"reveal_type({a} {op} {b})")
        else:
            self.features.add("walrus")
            v = r.choice(vars_)
            t = r.choice(NAMES[:10])
            self.emit(ind, f"if ({t} := {v}):")
            self.emit(ind + 1, f"reveal_type({t})")
            if t not in vars_:
                vars_.append(t)

    # -- top-level pieces ---------------------------------------------------
    def flow_function(self):
        r = self.rng
        fn = self.fresh("flow")
        nparams = r.randrange(1, 4)
        params = r.sample(NAMES[10:20], nparams)
        sig = ", ".join(f"{p}: {self.union_annot()}" if r.random() < 0.7 else p for p in params)
        self.emit(0, f"def {fn}({sig}, cb=None):")
        vars_ = list(params)
        self.block(1, vars_, 0, r.randrange(3, 8))
        for v in r.sample(vars_, min(len(vars_), 3)):
            self.emit(1, f"reveal_type({v})")
        if r.random() < 0.5:
            self.emit(1, "reveal_locals()")
        self.emit(1, f"return {r.choice(vars_)}")
        self.emit(0, "")

    def call_section(self):
        r = self.rng
        self.features.add("calls")
        fn = self.fresh("target")
        params = r.sample(NAMES, r.randrange(1, 5))
        kind = r.randrange(4)
        if kind == 0:
            sig = ", ".join(params)
        elif kind == 1:
            sig = ", ".join(params[:1]) + ", *, " + ", ".join(f"{p}=0" for p in params[1:]) if len(params) > 1 else params[0]
        elif kind == 2:
            sig = ", ".join(f"{p}: {r.choice(ANNOTS)}" for p in params)
        else:
            sig = ", ".join(params) + ", /"
        self.emit(0, f"def {fn}({sig}): return 0")
        caller = self.fresh("caller")
        self.emit(0, f"def {caller}(*args, **kwargs):")
        for _ in range(r.randrange(1, 4)):
            npos = r.randrange(0, 4)
            kws = r.sample(NAMES, r.randrange(0, 6))
            parts = [r.choice(LITS[:12]) for _ in range(npos)] + [f"{k}={r.choice(LITS[:12])}" for k in kws]
            if r.random() < 0.15:
                parts.append("*args")
            if r.random() < 0.15:
                parts.append("**kwargs")
            self.emit(1, f"{fn}({', '.join(parts)})")
        self.emit(0, "")

    def protocol_section(self):
        r = self.rng
        self.features.add("protocol")
        pn, cn = self.fresh("Proto"), self.fresh("Impl")
        members = r.sample(NAMES, r.randrange(2, 6))
        self.emit(0, f"class {pn}(Protocol):")
        for m in members:
            if r.random() < 0.7:
                self.emit(1, f"def {m}(self) -> {r.choice(ANNOTS[:6])}: ...")
            else:
                self.emit(1, f"{m}: {r.choice(ANNOTS[:6])}")
        self.emit(0, f"class {cn}:")
        have = r.sample(members, r.randrange(0, len(members)))
        if not have:
            self.emit(1, "pass")
        for m in have:
            self.emit(1, f"def {m}(self) -> {r.choice(ANNOTS[:6])}: return None  # type: ignore")
        w = self.fresh("want")
        self.emit(0, f"def {w}(p: {pn}) -> None: pass")
        self.emit(0, f"def {self.fresh('use')}():")
        self.emit(1, f"{w}({cn}())")
        self.emit(1, f"{w}({r.choice(LITS[:8])})")
        self.emit(1, f"reveal_type({pn})")
        self.emit(0, "")

    def overload_section(self):
        r = self.rng
        self.features.add("overload")
        fn = self.fresh("ov")
        ts = r.sample(ANNOTS[:7], r.randrange(2, 5))
        for t in ts:
            self.emit(0, "@overload")
            self.emit(0, f"def {fn}(a: {t}, {r.choice(NAMES)}: int = 0) -> {t}: ...")
        self.emit(0, f"def {fn}(a, **kw): return a")
        self.emit(0, f"def {self.fresh('use')}(x: {self.union_annot()}, y: Union[{', '.join(ts)}]):")
        self.emit(1, f"reveal_type({fn}(x))")
        self.emit(1, f"reveal_type({fn}(y))")
        kws = r.sample(NAMES, r.randrange(1, 4))
        self.emit(1, f"{fn}(1.5j, " + ", ".join(f"{k}=2" for k in kws) + ")")
        self.emit(0, "")

    def typevar_section(self):
        r = self.rng
        self.features.add("typevar")
        tvs = [self.fresh("T") for _ in range(r.randrange(1, 4))]
        for t in tvs:
            if r.random() < 0.3:
                self.emit(0, f"{t} = TypeVar('{t}', bound={r.choice(['int', 'str', 'float'])})")
            elif r.random() < 0.3:
                self.emit(0, f"{t} = TypeVar('{t}', int, str)")
            else:
                self.emit(0, f"{t} = TypeVar('{t}')")
        fn = self.fresh("gen")
        shapes = ["{t}", "list[{t}]", "Union[{t}, list[{t}]]", "Callable[[{t}], None]", "dict[str, {t}]", "Sequence[{t}]",
                  "Optional[{t}]", "tuple[{t}, {t}]"]
        params = []
        for i in range(r.randrange(1, 4)):
            params.append(f"p{i}: " + r.choice(shapes).format(t=r.choice(tvs)))
        self.emit(0, f"def {fn}({', '.join(params)}) -> {r.choice(shapes).format(t=r.choice(tvs))}: ...  # type: ignore")
        self.emit(0, f"def {self.fresh('takes')}(s: str) -> None: ...")
        self.emit(0, f"def {self.fresh('use')}(a: list[int], b: {self.union_annot()}):")
        for _ in range(r.randrange(1, 4)):
            args = [r.choice(["a", "b", "1", "'s'", "[1]", "['x', 1]", "None", "b''", "print", "{'k': 2.0}", "(1, 'a')"]) for _ in params]
            self.emit(1, f"reveal_type({fn}({', '.join(args)}))")
        self.emit(0, "")

    def typeddict_section(self):
        r = self.rng
        self.features.add("typeddict")
        td = self.fresh("TD")
        keys = r.sample(NAMES, r.randrange(2, 5))
        self.emit(0, f"class {td}(TypedDict):")
        for k in keys:
            self.emit(1, f"{k}: {r.choice(['int', 'str', 'NotRequired[int]'])}")
        self.emit(0, f"def {self.fresh('use')}(d: {td}):")
        given = r.sample(keys, r.randrange(0, len(keys))) + r.sample(NAMES, r.randrange(0, 3))
        self.emit(1, f"v: {td} = {{{', '.join(repr(k) + ': 1' for k in dict.fromkeys(given))}}}")
        self.emit(1, f"reveal_type(d[{r.choice(keys + NAMES[:2])!r}])")
        self.emit(1, "reveal_type(v)")
        self.emit(1, f"for key in d: reveal_type(key)")
        self.emit(0, "")

    def class_section(self):
        r = self.rng
        self.features.add("class")
        cn = self.fresh("Cls")
        attrs = r.sample(NAMES, r.randrange(1, 5))
        dec = "@dataclass\n" if r.random() < 0.4 else ""
        if dec:
            self.emit(0, "@dataclass")
            self.emit(0, f"class {cn}:")
            for a in attrs:
                self.emit(1, f"{a}: {r.choice(ANNOTS[:6])} = None  # type: ignore")
        else:
            self.emit(0, f"class {cn}:")
            self.emit(1, "def __init__(self, v=None):")
            for a in attrs:
                self.emit(2, f"self.{a} = {r.choice(LITS)}")
            self.emit(1, "def meth(self):")
            self.emit(2, "return (" + ", ".join(f"self.{a}" for a in r.sample(NAMES, 3)) + ")")
        self.emit(0, f"def {self.fresh('use')}(o: {cn}):")
        self.emit(1, f"reveal_type(o.{r.choice(attrs)})")
        self.emit(1, f"o.{r.choice(NAMES)}")
        self.emit(1, f"{cn}({', '.join(k + '=1' for k in r.sample(NAMES, r.randrange(0, 4)))})")
        self.emit(0, "")

    def global_section(self):
        """Module-level and closure variables with few, REUSED names and varying types,
        narrowed in only one branch and used after the merge: what one program says
        about `g` must not leak into another program's `g`."""
        r = self.rng
        self.features.add("globals")
        gname = r.choice(GLOBAL_NAMES)
        pairs = [("int", "1"), ("str", "'x'"), ("bytes", "b'x'"), ("float", "1.5"), ("list", "[1]"), ("None", "None"), ("tuple", "(1,)")]
        chosen = r.sample(pairs, r.randrange(1, 4))
        ann = chosen[0][0] if len(chosen) == 1 else "Union[" + ", ".join(t for t, _ in chosen) + "]"
        self.emit(0, f"{gname}: {ann} = {chosen[0][1]}")
        c = self.fresh("cond")
        self.emit(0, f"def {c}() -> bool: return True")
        mflag = r.choice(["ok", "flag"])
        self.emit(0, f"{mflag} = isinstance({gname}, {chosen[0][0] if chosen[0][0] != 'None' else 'int'}) or {gname} is None")
        narrow_t = r.choice([t for t, _ in chosen if t != "None"] or ["int"])
        fn = self.fresh("glob")
        self.emit(0, f"def {fn}():")
        self.emit(1, f"if {c}():")
        self.emit(2, r.choice([f"assert isinstance({gname}, {narrow_t})", f"assert {gname} is not None", f"assert {gname}",
                               f"assert not isinstance({gname}, {narrow_t})"]))
        self.emit(1, f"reveal_type({gname})")
        self.emit(1, f"print({gname}.{r.choice(['upper', 'real', 'append', 'nope'])})")
        self.emit(1, f"if {c}() and isinstance({gname}, {narrow_t}): pass")
        self.emit(1, f"if {mflag} and {c}(): reveal_type({gname})")
        self.emit(1, f"if not {mflag} or {c}(): reveal_type({gname})")
        self.emit(1, f"return {gname}")
        outer = self.fresh("outer")
        pname = r.choice(GLOBAL_NAMES)
        self.emit(0, f"def {outer}({pname}: {self.union_annot()}):")
        self.emit(1, "def inner():")
        self.emit(2, f"if {c}():")
        self.emit(3, f"assert isinstance({pname}, {r.choice(TYPES)})")
        self.emit(2, f"reveal_type({pname})")
        self.emit(2, f"return {pname}")
        self.emit(1, "return inner")
        cls = self.fresh("Holder")
        self.emit(0, f"class {cls}:")
        self.emit(1, f"{r.choice(GLOBAL_NAMES)}: {r.choice(ANNOTS)} = None  # type: ignore")
        self.emit(1, "def meth(self):")
        self.emit(2, f"if {c}(): assert isinstance({gname}, {narrow_t})")
        self.emit(2, f"reveal_type({gname})")
        self.emit(2, f"reveal_type(self.{r.choice(GLOBAL_NAMES)})")
        self.emit(0, "")

    def rebind_section(self):
        """Functions (never called at import) that rebind / delete / augment names of builtins and
        of shared imported modules for THEIR OWN module through global / nonlocal / del / import-as /
        attribute assignment, next to ordinary uses of the same names.  What one program does to
        `len` or `os.sep` must not be visible in another program."""
        r = self.rng
        self.features.add("rebind")
        names = r.sample(["input", "len", "print", "sorted", "max", "abs", "range", "isinstance", "callable", "str", "int", "open", "repr"], r.randrange(1, 4))
        for nm in names:
            fn = self.fresh("rb")
            form = r.randrange(6)
            self.emit(0, f"def {fn}(v=None):")
            if form == 0:
                self.emit(1, f"global {nm}")
                self.emit(1, f"{nm} = {r.choice(['None', '3', 'lambda *a: 0', 'v'])}")
            elif form == 1:
                self.emit(1, f"global {nm}")
                self.emit(1, f"del {nm}")
            elif form == 2:
                self.emit(1, f"global {nm}")
                self.emit(1, f"import os as {nm}")
            elif form == 3:
                self.emit(1, f"global {nm}")
                self.emit(1, f"{nm} += 1")
            elif form == 4:
                self.emit(1, f"{nm} = 1")
                self.emit(1, "def inner():")
                self.emit(2, f"nonlocal {nm}")
                self.emit(2, f"{nm} = 'shadow'")
                self.emit(1, f"return inner, {nm}")
            else:
                self.emit(1, f"global {nm}")
                self.emit(1, f"for {nm} in (1, 2): pass")
        mod = r.choice(["os", "sys", "typing"])
        attr = {"os": ["sep", "name", "getcwd", "path"], "sys": ["maxsize", "platform", "argv"], "typing": ["TYPE_CHECKING", "Any"]}[mod]
        fn = self.fresh("patch")
        self.emit(0, f"import {mod}")
        self.emit(0, f"def {fn}():")
        self.emit(1, f"{mod}.{r.choice(attr)} = {r.choice(['None', '3', chr(39) + 'x' + chr(39)])}")
        self.emit(1, f"del {mod}.{r.choice(attr)}")
        # ordinary uses of builtin and module names
        use = self.fresh("useb")
        self.emit(0, f"def {use}(xs: list, s: str):")
        for nm in r.sample(["input", "len", "print", "sorted", "max", "abs", "range", "isinstance", "callable", "str", "int", "repr"], 5):
            call = {"input": "input('x').strip()", "len": "len(xs) + 1", "print": "print(s)", "sorted": "sorted(xs)", "max": "max(xs)", "abs": "abs(-1) + 1",
                    "range": "list(range(3))", "isinstance": "isinstance(s, str)", "callable": "callable(s)", "str": "str(1).upper()", "int": "int(s) + 1",
                    "repr": "repr(xs).strip()"}[nm]
            self.emit(1, f"reveal_type({call})")
        self.emit(1, f"reveal_type({mod}.{r.choice(attr)})")
        self.emit(0, "")

    def library_section(self, libs=None):
        """The same library objects used in different contexts: bare expression statement,
        argument of a stub-typed parameter, annotation, base class, isinstance, return value.
        What an earlier use leaves behind on shared objects (cached signatures, type objects)
        must not change what a later use reports."""
        r = self.rng
        self.features.add("library")
        libs = libs if libs is not None else r.sample(range(len(LIBRARY)), r.randrange(1, 4))
        self.emit(0, "# libs: " + ",".join(map(str, libs)))
        for li in libs:
            mod, ctor, good, other = LIBRARY[li]
            self.emit(0, f"import {mod}")
            n = self.fresh("lib")
            ctxs = r.sample(range(8), r.randrange(2, 6))
            self.emit(0, f"def want_good_{n}(p: {good}) -> None: pass")
            self.emit(0, f"def want_other_{n}(p: {other}) -> None: pass")
            self.emit(0, f"def {n}(q):")
            for c in ctxs:
                if c == 0:
                    self.emit(1, ctor)                       # bare expression statement
                elif c == 1:
                    self.emit(1, f"want_good_{n}({ctor})")
                elif c == 2:
                    self.emit(1, f"want_other_{n}({ctor})")
                elif c == 3:
                    self.emit(1, f"v_{n}: {good} = {ctor}")
                    self.emit(1, f"reveal_type(v_{n})")
                elif c == 4:
                    self.emit(1, f"reveal_type({ctor})")
                elif c == 5:
                    self.emit(1, f"if isinstance(q, type({ctor})): reveal_type(q)")
                elif c == 6:
                    self.emit(1, f"w_{n}: {other} = {ctor}")
                else:
                    self.emit(1, f"x_{n} = {ctor}")
                    self.emit(1, f"want_good_{n}(x_{n})")
                    self.emit(1, f"x_{n}.definitely_not_an_attribute")
            self.emit(1, "return q")
        # builtins whose stubs are generic protocols sharing a type variable between parameters
        # (pow: _SupportsPow2[_E, _T_co] x _E, divmod, round, sum, max/min with key, sorted with key):
        # the same first argument with CONFLICTING second arguments, in this program and in its history
        n = self.fresh("bp")
        firsts = r.sample([("fractions", "fractions.Fraction"), ("decimal", "decimal.Decimal"), ("", "int"), ("", "float"),
                           ("", "complex"), ("", "bool"), ("", "str"), ("datetime", "datetime.timedelta")], r.randrange(1, 3))
        for mod, _t in firsts:
            if mod:
                self.emit(0, f"import {mod}")
        self.emit(0, f"def {n}({', '.join(f'q{i}: {t}' for i, (_m, t) in enumerate(firsts))}, other=None):")
        seconds = ["2", "1j", "2.5", "'x'", "None", "-1", "0", "True", "q0", "other", "(1,)", "b'x'"]
        for _ in range(r.randrange(3, 8)):
            q = f"q{r.randrange(len(firsts))}"
            sec = r.choice(seconds)
            call = r.choice([f"pow({q}, {sec})", f"pow({q}, {sec}, {r.choice(seconds)})", f"divmod({q}, {sec})", f"round({q}, {sec})",
                             f"sum([{q}], {sec})", f"max({q}, {sec})", f"min({q}, {sec}, key=abs)", f"sorted([{q}, {sec}], key=abs)",
                             f"abs({q})", f"{q} ** {sec}", f"{q} // {sec}", f"{q} % {sec}", f"{sec} ** {q}"])
            self.emit(1, r.choice([f"reveal_type({call})", f"v{self.uid}: int = {call}", call]))
        self.emit(1, f"return pow(q0, 2)")
        # generic protocols of the standard library with varying type arguments
        g = r.choice(STD_GENERICS)
        n = self.fresh("proto")
        args = r.sample(STD_ARGS, r.randrange(1, 4))
        for a in args:
            self.emit(0, f"def want_{n}_{a.lower()}(p: {g}[{a}]) -> None: pass")
        self.emit(0, f"def {n}(i: int, s: str, f: float):")
        for _ in range(r.randrange(2, 6)):
            a = r.choice(args)
            v = r.choice(STD_VALUES + ["i", "s", "f", "i", "s"])
            self.emit(1, f"want_{n}_{a.lower()}({v})")
        self.emit(0, "")

    def program(self):
        r = self.rng
        self.lines = [HEADER, "def helper(x, *, aa=0): return x", ""]
        self.features = set()
        pieces = [self.flow_function] * 5 + [self.call_section, self.protocol_section, self.overload_section,
                                             self.typevar_section, self.typeddict_section, self.class_section,
                                             self.global_section, self.global_section,
                                             self.library_section, self.library_section, self.library_section,
                                             self.rebind_section, self.rebind_section]
        for _ in range(r.randrange(3, 7)):
            r.choice(pieces)()
        return "\n".join(self.lines) + "\n", sorted(self.features)


def gen_program(rng: random.Random):
    """Returns (source, feature list); the source is guaranteed to compile and
    to import (exec) without raising -- otherwise it is regenerated."""
    g = Gen(rng)
    for _ in range(50):
        src, feats = g.program()
        try:
            import warnings

            with warnings.catch_warnings():
                warnings.simplefilter("ignore")
                code = compile(src, "<gen>", "exec")
        except SyntaxError:
            continue
        try:
            exec(code, {"__name__": "c10gen_probe"})
        except BaseException:  # noqa
            continue
        return src, feats
    raise RuntimeError("generator could not produce an importable program")


# ---------------------------------------------------------------------------
# related histories: a variant H of P with the same global / closure / function /
# class / attribute NAMES but different types and values


class _Relate(__import__("ast").NodeTransformer):
    TYPE_NAMES = ["int", "str", "bytes", "float", "list", "dict", "tuple", "set", "complex", "bool"]

    def __init__(self, rng):
        self.rng = rng

    def visit_Constant(self, node):
        import ast

        if self.rng.random() < 0.5:
            return node
        v = node.value
        if isinstance(v, bool) or v is Ellipsis:
            return node
        if isinstance(v, int):
            return ast.copy_location(ast.Constant("m"), node)
        if isinstance(v, str):
            return ast.copy_location(ast.Constant(7), node)
        if isinstance(v, float):
            return ast.copy_location(ast.Constant(b"f"), node)
        if isinstance(v, bytes):
            return ast.copy_location(ast.Constant(2.25), node)
        if v is None:
            return ast.copy_location(ast.Constant(3), node)
        return node

    def visit_Name(self, node):
        if node.id in self.TYPE_NAMES and self.rng.random() < 0.6:
            others = [t for t in self.TYPE_NAMES if t != node.id]
            node.id = self.rng.choice(others)
        return node

    def visit_ImportFrom(self, node):
        return node  # keep imports intact

    def visit_Import(self, node):
        return node


def related_variant(src: str, rng: random.Random) -> str:
    """A program with the same names as `src` but other types/values; importable.
    Falls back to `src` itself (still the most related history there is)."""
    import ast
    import warnings

    for _ in range(6):
        tree = _Relate(rng).visit(ast.parse(src))
        ast.fix_missing_locations(tree)
        try:
            out = ast.unparse(tree)
            libs = sorted({int(x) for line in src.splitlines() if line.startswith("# libs: ") for x in line[8:].split(",") if x})
            if libs:
                g = Gen(rng)
                g.lines = []
                g.library_section(libs)   # the same library objects, used in other contexts
                out = out + "\n" + "\n".join(g.lines) + "\n"
            with warnings.catch_warnings():
                warnings.simplefilter("ignore")
                exec(compile(out, "<rel>", "exec"), {"__name__": "c10rel_probe"})
        except BaseException:  # noqa
            continue
        return out + "\n"
    return src
