"""Program generator for C12: the flow/call/protocol/overload/typevar/TypedDict/
class pieces of gen_c10 plus the constructs the property names explicitly:
decorators, comprehensions, lambdas, star-expressions, f-strings, walrus,
match, async, odd annotations (string annotations of every expression kind,
PEP 695 aliases, ParamSpec), wrong arities and bad operands.  Every program
compiles and imports (exec) cleanly; errors live inside function bodies."""
from __future__ import annotations

import random

import gen_c10
from gen_c10 import ANNOTS, LITS, NAMES, TYPES

ODD_ANNOTATIONS = [
    '"int if True else str"', '"lambda: 1"', '"[k for k in ()]"', "\"f'{int}'\"", '"1 < 2"', '"(k := int)"', '"{k for k in ()}"',
    '"int[1:2]"', '"not int"', '"int and str"', '"{k: k for k in ()}"', '"(k for k in ())"', '"tuple[int, *tuple[str, ...]]"',
    '"list[int"', '"1 +"', '""', '"   "', '"undefined_name_xyz"', '"int.nope"', '"typing.List[int]"', '"int | None"', '"-1"', '"print(1)"',
    '"{\'a\': int}"', '"[int, str]"', '"None"', '"..."', '"list[...]"', '"dict[int]"', '"Literal[1, \'a\']"', '"Callable[..., int]"',
    '"Callable[[int], str]"', '"type[int]"', '"tuple[()]"', '"Annotated[int, 1]"', '"Optional[int, str]"', '"Union[()]"', '"int()"',
    "1", "None", "...", "(int, str)", "[int]", "{'a': int}", "int | str", "list[int]", "'int' | None" if False else "int",
    "print", "len(())", "X12", "Alias12", "Callable[P12, int]", "P12", "T12", "list[T12]",
]

TYPING_FORMS = ["Annotated", "Final", "ClassVar", "Unpack", "Callable", "Literal", "Union", "Optional", "Type", "type", "TypeGuard",
                "TypeIs", "Required", "NotRequired", "ReadOnly", "tuple", "Tuple", "list", "List", "dict", "Dict", "set", "frozenset",
                "Sequence", "Mapping", "Generic", "Protocol", "Concatenate", "LiteralString", "Never", "Self", "Any", "Iterable",
                "Awaitable", "Generator", "NewType", "TypeVar", "int", "Alias12", "X12", "P12", "T12"]
FORM_ARGS = ["()", "int", "int, str", "int, str, bytes", "...", "[int], int", "[], int", "(), ()", "1", "None", "'x'",
             "*tuple[int, ...]", "**P12", "T12", "P12, int", "int, ...", "[...], int", "int, 'meta', 3"]


def odd_annotation(r):
    """a fixed odd annotation, or a typing form applied to a wrong / degenerate argument list
    (quoted, so that it is only evaluated by the checker)"""
    if r.random() < 0.45:
        return '"' + r.choice(TYPING_FORMS) + "[" + r.choice(FORM_ARGS) + ']"'
    return r.choice(ODD_ANNOTATIONS)


HEADER_EXTRA = """import asyncio
import sys
import typing
from typing_extensions import TypeIs, TypeGuard, Annotated, Final, ClassVar, Unpack, Required, ReadOnly, Concatenate, LiteralString, Never, Self
import functools
from typing import ParamSpec, Any
def helper10(*a, **k): return a
T12 = TypeVar("T12")
P12 = ParamSpec("P12")
type X12 = int
type Alias12[K] = list[K] | None
"""


class Gen12(gen_c10.Gen):
    def odd_annotation_section(self):
        r = self.rng
        self.features.add("odd_annotation")
        fn = self.fresh("ann")
        params = ", ".join(f"p{i}: {odd_annotation(r)}" for i in range(r.randrange(1, 4)))
        ret = f" -> {odd_annotation(r)}" if r.random() < 0.5 else ""
        self.emit(0, f"def {fn}({params}){ret}:")
        self.emit(1, f"v: {odd_annotation(r)} = p0")
        self.emit(1, "if p0: reveal_type(p0)")
        self.emit(1, "reveal_type(v)")
        self.emit(1, "return p0")
        self.emit(0, "")

    def typeguard_section(self):
        """TypeIs / TypeGuard functions, methods, classmethods and staticmethods of every arity"""
        r = self.rng
        self.features.add("typeguard")
        guard = lambda: f"{r.choice(['TypeIs', 'TypeGuard'])}[{r.choice(ANNOTS[:8])}]"  # noqa: E731
        sigs = ["", "x: object", "x: object, y: int = 0", "*, x: object", "*args: object", "**kw: object", "x, /", "x: object, *rest"]
        cls = self.fresh("Guards")
        self.emit(0, f"class {cls}:")
        for _ in range(r.randrange(2, 6)):
            kind = r.choice(["method", "method", "classmethod", "staticmethod", "async"])
            sig = r.choice(sigs)
            name = self.fresh("g")
            if kind == "staticmethod":
                self.emit(1, "@staticmethod")
                self.emit(1, f"def {name}({sig}) -> {guard()}: return True")
            else:
                first = "cls" if kind == "classmethod" else "self"
                if kind == "classmethod":
                    self.emit(1, "@classmethod")
                full = first + (", " + sig if sig else "")
                self.emit(1, f"{'async ' if kind == 'async' else ''}def {name}({full}) -> {guard()}: return True")
        for _ in range(r.randrange(1, 4)):
            self.emit(0, f"def {self.fresh('guard')}({r.choice(sigs)}) -> {guard()}: return True")
        self.emit(0, f"def {self.fresh('use')}(o: {cls}, v: {self.union_annot()}):")
        self.emit(1, "reveal_type(o)")
        # call every guard that was just defined in a condition
        for line in list(self.lines[-14:]):
            t = line.strip()
            if t.startswith("def guard"):
                nm = t.split("def ")[1].split("(")[0]
                self.emit(1, f"if {nm}({r.choice(['v', '', 'v, 1', 'x=v'])}): reveal_type(v)")
            elif t.startswith("def g") or t.startswith("async def g"):
                nm = t.split("def ")[1].split("(")[0]
                self.emit(1, f"if o.{nm}({r.choice(['v', '', 'v, 1', 'x=v'])}): reveal_type(v)")
        self.emit(0, "")

    def sysinfo_section(self):
        """comparisons pyanalyze evaluates itself (sys.version_info / sys.platform), with bad operands too"""
        r = self.rng
        self.features.add("sysinfo")
        fn = self.fresh("sysc")
        self.emit(0, f"def {fn}(a):")
        lhs = ["sys.version_info", "sys.platform", "sys.version_info[0]", "sys.version_info[:2]", "sys.version_info.major", "sys.maxsize", "sys.byteorder"]
        rhs = ["3", "(3,)", "(3, 8)", "'3'", "None", "(3, 'x')", "'linux'", "b'linux'", "3.5", "()", "[3, 8]", "a", "(3, None)", "sys.version_info"]
        ops = [">=", "<", ">", "<=", "==", "!=", "is", "in", "not in"]
        for _ in range(r.randrange(3, 9)):
            e = f"{r.choice(lhs)} {r.choice(ops)} {r.choice(rhs)}"
            if r.random() < 0.3:
                e = f"{r.choice(rhs)} {r.choice(ops)} {r.choice(lhs)}"
            k = r.randrange(3)
            if k == 0:
                self.emit(1, f"if {e}: reveal_type(a)")
            elif k == 1:
                self.emit(1, f"reveal_type({e})")
            else:
                self.emit(1, f"assert {e}")
        self.emit(1, "return a")
        self.emit(0, "")

    def bounds_section(self):
        """several order comparisons of ONE variable with literals of varying types: each attaches an
        annotated-types bound (Gt/Ge/Lt/Le), and later bounds are checked against earlier ones"""
        r = self.rng
        self.features.add("bounds")
        fn = self.fresh("bnd")
        self.emit(0, f"def {fn}(a, b: {self.union_annot()}):")
        lits = ["3", "'x'", "(3, 12)", "2.5", "b'y'", "None", "10**20", "[1]", "-1", "True", "sys.maxsize", "''", "()"]
        for _ in range(r.randrange(2, 6)):
            v = r.choice(["a", "a", "b"])
            op = r.choice([">", ">=", "<", "<=", "==", "!="])
            lit = r.choice(lits)
            e = f"{v} {op} {lit}" if r.random() < 0.7 else f"{lit} {op} {v}"
            self.emit(1, r.choice([f"assert {e}", f"if not ({e}): return None", f"if {e}: reveal_type({v})"]))
        self.emit(1, f"if len(a) {r.choice(['>', '>=', '<', '=='])} {r.choice(['0', '1', '2', '-1'])}: reveal_type(a)")
        self.emit(1, "reveal_type(a)")
        self.emit(1, "return b")
        self.emit(0, "")

    def lambda_fstring_section(self):
        r = self.rng
        self.features.add("lambda_fstring")
        fn = self.fresh("lf")
        self.emit(0, f"def {fn}(a, b: {self.union_annot()}, *rest):")
        lambdas = ["lambda: a", "lambda x: x + b", "lambda x, y=b: (x, y)", "lambda *p, **k: (p, k, rest)", "lambda x, /, y, *, z=1: x.nope",
                   "(lambda q: q(q))(lambda q: q)", "lambda: (yield)", "lambda x: lambda y: x[y]", "lambda: undefined_in_lambda"]
        fstrs = ["f'{a}'", "f'{a!r:>10} {b=}'", "f'{a:{b}}'", "f'{a.nope} {b[0]}'", "f'{rest[0]:.{a}f}'", "f'{{literal}} {a}' f'{b}'",
                 "f'{(lambda: a)()}'", "f'{undefined_in_fstring}'", "f'{a if b else rest!s}'", "f'{len(a):03d}'", "f'{a + b}' + 1"]
        for _ in range(r.randrange(2, 5)):
            lam = r.choice(lambdas)
            form = r.randrange(4)
            if form == 0:
                self.emit(1, f"reveal_type({lam})")
            elif form == 1:
                self.emit(1, f"reveal_type(({lam})({', '.join(r.sample(LITS[:10], r.randrange(0, 3)))}))")
            elif form == 2:
                self.emit(1, f"sorted(rest, key={lam})")
            else:
                self.emit(1, f"{r.choice(NAMES[:8])} = {lam}")
        for _ in range(r.randrange(2, 5)):
            fs = r.choice(fstrs)
            self.emit(1, r.choice([f"reveal_type({fs})", f"print({fs})", f"{r.choice(NAMES[:8])} = {fs}", f"if {fs}: pass"]))
        self.emit(1, "return a")
        self.emit(0, "")

    def format_spec_section(self):
        """f-string fields whose operand is ONE known literal, with every format code and extreme
        operands: pyanalyze formats such fields itself (format() raises TypeError, ValueError and
        OverflowError)"""
        r = self.rng
        self.features.add("format_spec")
        fn = self.fresh("fs")
        self.emit(0, f"def {fn}(a):")
        operands = ["1114112", "-1", "10 ** 400", "0", "255", "1.5", "1e308 * 10", "float('nan')", "'s'", "b'x'", "None", "True",
                    "(1, 2)", "[1]", "2 ** 64", "-0.0", "1j", "'\\u00e4'", "10 ** 30", "3.14159"]
        specs = ["c", "d", "e", "f", "g", "x", "X", "o", "b", "n", "%", "s", ">10", "^{a}", "010.3f", ",d", "_x", ".2%", "+", " ", "#x",
                 "1000000d", ".1000f", "z", "c" * 2, "<<", "0>5c", ".3s", "=+5"]
        for _ in range(r.randrange(4, 10)):
            o, sp = r.choice(operands), r.choice(specs)
            conv = r.choice(["", "", "!r", "!s", "!a"])
            line = "f'{" + o + conv + ":" + sp + "}'"
            self.emit(1, r.choice([f"reveal_type({line})", f"print({line})", f"{r.choice(NAMES[:6])} = {line}"]))
        self.emit(1, "return a")
        self.emit(0, "")

    def unpack_kwargs_section(self):
        """**kwargs: Unpack[TD] where TD's keys may repeat the names of explicit parameters"""
        r = self.rng
        self.features.add("unpack_kwargs")
        td = self.fresh("KW")
        params = r.sample(NAMES[:8], r.randrange(1, 4))
        keys = r.sample(params, r.randrange(0, len(params) + 1)) + r.sample(NAMES[8:16], r.randrange(1, 3))
        self.emit(0, f"class {td}(TypedDict{r.choice(['', ', total=False'])}):")
        for k in dict.fromkeys(keys):
            self.emit(1, f"{k}: {r.choice(['int', 'str', 'NotRequired[int]', 'Required[str]'])}")
        fn = self.fresh("uk")
        sig = ", ".join(f"{p}: int" for p in params)
        star = r.choice(["", "*, ", "*args: int, "])
        self.emit(0, f"def {fn}({sig}, {star}**kwargs: Unpack[{td}]) -> None:")
        self.emit(1, "reveal_type(kwargs)")
        self.emit(0, f"def {self.fresh('use')}(d: {td}):")
        self.emit(1, f"{fn}({', '.join('1' for _ in params)})")
        self.emit(1, f"{fn}({', '.join('1' for _ in params)}, {', '.join(k + '=1' for k in r.sample(keys, min(len(keys), 2)))})")
        self.emit(1, f"{fn}(**d)")
        self.emit(1, f"{fn}({', '.join(p + '=1' for p in params)}, **d)")
        self.emit(1, f"reveal_type({fn})")
        self.emit(0, "")

    def typevar_truthiness_section(self):
        """constrained / bounded TypeVars (incl. AnyStr) in Optional / Union positions under truthiness tests"""
        r = self.rng
        self.features.add("typevar_truthiness")
        tv = self.fresh("TV")
        kind = r.randrange(4)
        if kind == 0:
            self.emit(0, f"{tv} = TypeVar('{tv}', int, str)")
        elif kind == 1:
            self.emit(0, f"{tv} = TypeVar('{tv}', bound={r.choice(['int', 'Sequence[int]', 'Union[int, None]'])})")
        elif kind == 2:
            self.emit(0, f"{tv} = typing.AnyStr")
        else:
            self.emit(0, f"{tv} = TypeVar('{tv}', bytes, str, None)")
        fn = self.fresh("tt")
        shapes = [f"Optional[{tv}]", f"Union[{tv}, None]", f"Union[{tv}, int]", f"Union[list[{tv}], {tv}, None]", tv, f"Optional[Union[{tv}, float]]"]
        self.emit(0, f"def {fn}(x: {r.choice(shapes)}, y: {r.choice(shapes)} = None):  # type: ignore")
        tests = ["if x:", "if not x:", "if x and y:", "if x or y:", "while x:", "assert x", "if not (x and not y):", "if x is not None and x:"]
        for t in r.sample(tests, r.randrange(2, 5)):
            if t.startswith(("if", "while")):
                self.emit(1, t)
                self.emit(2, "reveal_type(x)")
                if t.startswith("while"):
                    self.emit(2, "break")
            else:
                self.emit(1, t)
        self.emit(1, "z = x or y")
        self.emit(1, "reveal_type(z)")
        self.emit(1, "return x if x else y")
        self.emit(0, "")

    def fixable_mix_section(self):
        """A diagnostic for which pyanalyze PREPARES an automatic fix (replace_node copies the innermost
        statement, also for disabled codes) in the same innermost statement as syntax whose AST has
        non-AST list members: None in Dict.keys ({**x}), None in kw_defaults (lambda *, k: k), strings in
        Global/Nonlocal.names and MatchClass.kwd_attrs.  For compound statements the innermost statement
        is the whole if/for/while/with/match/def including its body."""
        r = self.rng
        self.features.add("fixable_mix")
        fn = self.fresh("fx")
        g = self.fresh("counter")
        self.emit(0, f"{g} = 0")
        self.emit(0, f"def {fn}(label, extra, *items):")
        fixables = ["'{label}'", "'{label} {extra}'", "[0 for unused_i in range(3)]", "'%s' % label", "'%s %s' % (label, extra)",
                    "helper10(1, 2, 3, 4, 5, 6, 7, 8, 9, 10, 11)", "{unused_k: 1 for unused_k, unused_v in extra.items()}",
                    "'{}'.format(label)"]
        odd = ["{**extra}", "{'k': 1, **extra}", "(lambda *, key: key)", "(lambda a, *, key, other=1: key)", "dict(**extra)",
               "[*items]", "f(*items, **extra)" if False else "helper(label, **extra)"]
        for _ in range(r.randrange(2, 5)):
            fx, od = r.choice(fixables), r.choice(odd)
            form = r.randrange(9)
            if form == 0:
                self.emit(1, f"v{self.uid} = [{fx}, {od}]")
            elif form == 1:
                self.emit(1, f"print({fx}, {od})")
            elif form == 2:
                self.emit(1, f"if {fx} != label:")
                self.emit(2, f"global {g}")
                self.emit(2, f"{g} = 1")
            elif form == 3:
                self.emit(1, f"for it in [{fx}]:")
                self.emit(2, "def inner(*, key, other=None): return key")
                self.emit(2, f"inner(key={od})")
            elif form == 4:
                self.emit(1, f"match {fx}:")
                self.emit(2, f"case {r.choice(['complex(real=0.0)', 'str() | int(real=1)', '{**rest}', '[1, *others]', 'object(a=1, b=2)'])}:")
                self.emit(3, "pass")
            elif form == 5:
                self.emit(1, f"while {fx}:")
                self.emit(2, "def gen(*, k): yield k")
                self.emit(2, "break")
            elif form == 6:
                self.emit(1, f"with open({fx}) as fh:")
                self.emit(2, f"x = {od}")
            elif form == 7:
                self.emit(1, f"def nested(a={fx}, *, kwonly, **kw):")
                self.emit(2, "nonlocal_dummy = a")
                self.emit(2, f"return {od}")
            else:
                self.emit(1, f"return [{fx}, {od}, lambda *, key: key]")
        self.emit(1, "return label")
        self.emit(0, "")

    def hostile_literal_section(self):
        """shapes reported to abort or crash the unchanged checker: loops outside functions, huge int
        literals, annotations that call objects, recursive aliases through string arguments"""
        r = self.rng
        self.features.add("hostile")
        k = r.randrange(5)
        if k == 0:
            v = self.fresh("lv")
            self.emit(0, f"while True:")
            self.emit(1, f"{v} = {r.choice(LITS[:8])}")
            self.emit(1, "break")
            self.emit(0, f"for {v}_i in range(2):")
            self.emit(1, f"if {v}_i: break")
            self.emit(0, "else:")
            self.emit(1, f"{v} = None")
            c = self.fresh("LoopCls")
            self.emit(0, f"class {c}:")
            self.emit(1, "while True:")
            self.emit(2, f"attr = {r.choice(LITS[:8])}")
            self.emit(2, "break")
            self.emit(1, f"for idx in (): pass")
        elif k == 1:
            fn = self.fresh("big")
            self.emit(0, f"def {fn}():")
            self.emit(1, f"x: str = 10 ** {r.choice([5000, 4400, 20000])}")
            self.emit(1, f"y = -(10 ** 6000) if x else 2 ** 20000")
            self.emit(1, "reveal_type(y)")
            if r.random() < 0.5:
                big = r.choice(["10 ** 30", "10**19", "2 ** 64", "-10 ** 30, 0", "0, 10 ** 30, 10 ** 25", "9223372036854775808"])
                self.emit(1, r.choice([f"for i in range({big}): reveal_type(i)", f"first, second = range({big})", f"sq = [j for j in range({big}) if j]",
                                       f"helper(*range({big}))", f"first, *rest = range({big})", f"ok = 5 in range({big})"]))
            self.emit(1, f"return f'{{10 ** 5000}}', [10 ** 4301, '9' * 5000]")
        elif k == 2:
            fn = self.fresh("annc")
            calls = ["exit(3)", "quit()", "print('x')", "input", "len('abc')", "int('7')", "sys.exit(2)", "open", "breakpoint", "max(1, 2)",
                     "__import__('os')", "(lambda: 1)()", "list(range(3))", "str.upper('a')", "dict(a=1)"]
            # parameter annotations are evaluated when the def runs (at import): only harmless ones there;
            # annotations of local variables are never evaluated at run time -- pyanalyze alone sees them
            self.emit(0, f"def {fn}(p: {r.choice(['input', 'open', 'breakpoint', 'len', 'max(1, 2)', 'list(range(3))'])} = None):  # type: ignore")
            self.emit(1, f"x: {r.choice(calls)} = 1  # type: ignore")
            self.emit(1, f"y: {r.choice(calls)}  # type: ignore")
            self.emit(1, "return x")
        elif k == 3:
            a = self.fresh("Tree")
            form = r.choice([f'Union[int, list["{a}"]]', f'dict[str, "{a}"]', f'Optional[tuple["{a}", ...]]', f'list[Union[int, "{a}"]]',
                             f'Callable[["{a}"], "{a}"]'])
            self.emit(0, f"{a} = {form}")
            self.emit(0, f"def {self.fresh('use')}(t: {a}) -> {a}:")
            self.emit(1, "reveal_type(t)")
            self.emit(1, "return t")
        else:
            a = self.fresh("Node")
            self.emit(0, f"class {a}:")
            self.emit(1, f"children: list['{a}']")
            self.emit(1, f"parent: Optional['{a}'] = None")
            self.emit(1, f"def walk(self) -> 'dict[str, {a}]': return {{}}")
            self.emit(0, f"def {self.fresh('use')}(n: {a}):")
            self.emit(1, "reveal_type(n.children[0].parent.walk())")
        self.emit(0, "")

    def paramspec_section(self):
        r = self.rng
        self.features.add("paramspec")
        fn = self.fresh("ps")
        self.emit(0, f"def {fn}(f: Callable[P12, T12], *args: P12.args, **kwargs: P12.kwargs) -> T12:")
        self.emit(1, "if args: reveal_type(args)")
        self.emit(1, "if kwargs or not args: reveal_type(kwargs)")
        self.emit(1, "return f(*args, **kwargs)")
        self.emit(0, f"def {self.fresh('use')}(x: X12, y: Alias12[int]):")
        self.emit(1, "if x: reveal_type(x)")
        self.emit(1, "if y: reveal_type(y)")
        self.emit(1, f"reveal_type({fn}(len, {r.choice(LITS[:12])}))")
        self.emit(1, f"{fn}({r.choice(LITS[:12])})")
        self.emit(0, "")

    def decorator_section(self):
        r = self.rng
        self.features.add("decorator")
        d = self.fresh("deco")
        self.emit(0, f"def {d}(fn):")
        self.emit(1, "@functools.wraps(fn)")
        self.emit(1, "def wrapper(*a, **k): return fn(*a, **k)")
        self.emit(1, "return wrapper")
        c = self.fresh("Dec")
        self.emit(0, f"class {c}:")
        self.emit(1, f"@{r.choice(['staticmethod', 'classmethod', 'property', d, 'functools.cache'])}")
        self.emit(1, f"def m({r.choice(['self', 'cls', 'x', ''])}): return {r.choice(LITS)}")
        self.emit(1, f"@{d}")
        self.emit(1, "def n(self, a, b=1): return a")
        self.emit(1, "@property")
        self.emit(1, f"def {r.choice(NAMES)}(self) -> {r.choice(ANNOTS)}: return None  # type: ignore")
        self.emit(0, f"@{d}")
        self.emit(0, f"def {self.fresh('decorated')}(a: int, *rest: str, **kw: float) -> int: return a")
        self.emit(0, f"def {self.fresh('use')}(o: {c}):")
        self.emit(1, "reveal_type(o.m)")
        self.emit(1, f"o.n({', '.join(r.sample(LITS[:10], r.randrange(0, 4)))})")
        self.emit(1, f"{c}.m({r.choice(LITS[:10])})")
        self.emit(1, f"{c}.n()")
        self.emit(0, "")

    def expr_section(self):
        r = self.rng
        self.features.add("exprs")
        fn = self.fresh("ex")
        self.emit(0, f"def {fn}(a, b: {self.union_annot()}, *rest, **kw):")
        exprs = [
            "'\u00e4\u00f6\u00fc\u00e4\u00f6\u00fc\u00e4\u00f6\u00fc\u00e4\u00f6\u00fc' + undefined_uu", "('\u65e5\u672c\u8a9e' * 3, a.nope_\u00e9)", "'\U0001f600\U0001f600\U0001f600' % (a, b)",
            "[x for x in b]", "{x: y for x, y in a}", "{x for x in rest if x}", "(x async for x in a)" if False else "(x for x in kw.values())",
            "lambda x, *y, z=1, **w: (x, y, z, w)", "(lambda: undefined_zz)()", "[*a, *b]", "{**kw, 'k': 1}", "(*rest, 1)", "print(*a, **b)",
            "f'{a!r:>{b}} {b=}'", "f'{a:{b}.{a}}'", "f'{undefined_yy}'", "(y := a) + y", "[z := 1, z ** 2]", "a if b else rest",
            "not a", "-b", "~a", "a @ b", "a // 0", "1 / 0", "'s' % (a, b)", "'%d %s' % a", "'{} {x}'.format(a)", "b'x' + 'y'", "a[1:2, ::3]",
            "a[...]", "a < b < 3 > rest", "a is not b in rest", "a and b or rest", "await_ := 3" if False else "(1).real", "b.nope.nope2",
            "[1, 2][5]", "{'k': 1}['zz']", "(1, 2)[3]", "len()", "len(1, 2)", "int('x', base=b)", "isinstance(a, (int, 'str'))",
            "super().nope", "__class__", "type(a)(b)", "a.__dict__['x']", "1 if a else (yield)" if False else "[] + ()", "sum(a, start=b)",
            "sorted(a, key=lambda q: q.zz, reverse=b)", "dict(a, **kw)", "list[int](a)", "range(a)[b]", "'abc'[a]", "b''.join(a)", "{*a}",
            "[x for x in range(3) for y in x]", "[[y for y in x] for x in a]", "any(x.zz for x in a)", "max(a, b, key=len)", "open(a).read().zz",
        ]
        for e in r.sample(exprs, r.randrange(5, 12)):
            if r.random() < 0.6:
                self.emit(1, f"reveal_type({e})")
            else:
                self.emit(1, f"{r.choice(NAMES[:8])} = {e}")
        self.emit(1, f"a, (b, *c), d = {r.choice(['rest', 'a', '(1, (2, 3), 4)', '1, 2', 'kw'])}")
        self.emit(1, "del a, c")
        self.emit(1, f"global {r.choice(NAMES[20:])}")
        self.emit(1, "return a")
        self.emit(0, "")

    def match_section(self):
        r = self.rng
        self.features.add("match")
        fn = self.fresh("mt")
        self.emit(0, f"def {fn}(subject: {self.union_annot()}, other):")
        self.emit(1, f"match {r.choice(['subject', 'other', '(subject, other)', '[subject, *other]'])}:")
        cases = [
            "case 1 | 2:", "case 'a':", "case None:", "case int() | str():", "case int(real=r):", "case [x, y, *rest]:", "case (x, y):",
            "case {'k': v, **kw}:", "case str() as s if s:", "case [int(), str()]:", "case object(zz=1):", "case float(x) if x > 0:",
            "case [] | [_]:", "case {1: _, 2: _}:", "case bool(b):", "case [*_, last]:", "case x if undefined_ww:",
            "case other.attr:", "case sys.maxsize:", "case asyncio.nope.deeper | 3:", "case [other.a, int()]:", "case {'k': other.k}:",
        ]
        for c in r.sample(cases, r.randrange(2, 6)):
            self.emit(2, c)
            self.emit(3, "reveal_type(subject)")
            if r.random() < 0.5:
                self.emit(3, f"{r.choice(NAMES[:6])} = {r.choice(LITS)}")
        self.emit(2, "case _:")
        self.emit(3, "reveal_type(subject)")
        self.emit(1, f"return {r.choice(NAMES[:6])}")
        self.emit(0, "")

    def async_section(self):
        r = self.rng
        self.features.add("async")
        fn = self.fresh("co")
        self.emit(0, f"async def {fn}(a, b: {r.choice(ANNOTS)}):")
        self.emit(1, f"x = await {r.choice(['a', 'asyncio.sleep(0)', 'b', fn + '(1, 2)', fn + '()', '1'])}")
        self.emit(1, f"async with {r.choice(['a', 'asyncio.Lock()', 'open(b)'])} as cm:")
        self.emit(2, "reveal_type(cm)")
        self.emit(1, f"async for item in {r.choice(['a', 'b', 'range(3)'])}:")
        self.emit(2, "reveal_type(item)")
        self.emit(1, "y = [z async for z in a]")
        self.emit(1, f"return {r.choice(['x', 'y', 'await b'])}")
        g = self.fresh("gen")
        self.emit(0, f"def {g}(n: int):")
        self.emit(1, "got = yield n")
        if r.random() < 0.35:
            # yields in other statement positions than `x = yield` / a bare `yield`
            for line in r.sample(["got += yield n", "got += yield", "later = yield", "later = yield got", "got -= (yield)", "helper((yield n))",
                                  "n, got = (yield), (yield 2)", "if (yield n): pass", "later: int = yield", "return (yield)"], r.randrange(1, 4)):
                self.emit(1, line)
        self.emit(1, f"yield from {r.choice(['range(n)', 'n', g + '(1)', '[got]'])}")
        self.emit(1, f"return {r.choice(LITS)}")
        self.emit(0, f"def {self.fresh('use')}():")
        self.emit(1, f"reveal_type({fn}(1, 2))")
        self.emit(1, f"reveal_type({g}(3))")
        self.emit(1, f"for v in {g}('x'): reveal_type(v)")
        self.emit(1, f"{fn}(1).zz")
        self.emit(0, "")

    def class_odd_section(self):
        r = self.rng
        self.features.add("class_odd")
        base = self.fresh("Base")
        self.emit(0, f"class {base}:")
        self.emit(1, f"{r.choice(NAMES)}: {r.choice(ODD_ANNOTATIONS)} = {r.choice(LITS)}")
        self.emit(1, "__slots__ = ('a',)" if r.random() < 0.2 else "zz = [i for i in range(3)]")
        self.emit(1, "def __init__(self, a, *, b=2): self.a = a; self.b = b")
        self.emit(1, "def __eq__(self, other): return NotImplemented")
        self.emit(1, f"def __bool__(self): return {r.choice(['True', '1', 'None'])}")
        self.emit(1, "def meth(self, x: int) -> str: return str(x)")
        sub = self.fresh("Sub")
        self.emit(0, f"class {sub}({base}{r.choice(['', ', Generic[T12]', ', metaclass=type'])}):")
        self.emit(1, f"def meth(self, x: {r.choice(ANNOTS)}, extra) -> {r.choice(ANNOTS)}: return super().meth(x)  # type: ignore")
        self.emit(1, "def __getattr__(self, name): return name" if r.random() < 0.3 else "def other(self): return self.nope")
        self.emit(0, f"def {self.fresh('use')}(o: {sub}, p: type[{base}]):")
        self.emit(1, f"o.meth({', '.join(r.sample(LITS[:10], r.randrange(0, 4)))})")
        self.emit(1, "if o: reveal_type(o.a)")
        self.emit(1, "reveal_type(p(1, b=3).b)")
        self.emit(1, f"p({r.choice(LITS[:10])}, {r.choice(LITS[:10])}, zz=1)")
        self.emit(1, "reveal_type(o == p)")
        self.emit(1, f"{sub}.meth(1)")
        self.emit(0, "")

    def literal_union_section(self):
        """Large literal unions (>= 10 members: MultiValuedValue's hashed fast path),
        as annotations and as if/elif-merged values, against unhashable displays."""
        r = self.rng
        self.features.add("literal_union")
        n = r.randrange(8, 14)
        kind = r.randrange(3)
        if kind == 0:
            members = [str(i) for i in range(n)]
        elif kind == 1:
            members = [repr(chr(97 + i) * (1 + i % 2)) for i in range(n)]
        else:
            members = r.sample(["0", "1", "2", "'a'", "'b'", "None", "True", "b'x'", "3", "4", "'c'", "5", "6", "'zz'", "False"], min(n, 13))
        alias = self.fresh("Lit")
        self.emit(0, f"{alias} = Literal[{', '.join(members)}]")
        take = self.fresh("take")
        self.emit(0, f"def {take}(d: {alias}, e: Optional[{alias}] = None) -> {alias}:")
        self.emit(1, "return d")
        unhashable = ["[]", "{}", "{1, 2}", "[1]", "{'k': 1}", "[[1], {}]", "set()", "bytearray(b'x')", "[0]", "({}, [])", "[x for x in ()]"]
        args = unhashable + members + ["(0,)", "'nope'", "99", "1.5", "object()", "len"]
        self.emit(0, f"def {self.fresh('use')}(c, wide: {alias}):")
        # a wide if/elif merge
        v = r.choice(NAMES[:6])
        self.emit(1, f"if c == 0: {v} = {members[0]}")
        for i, m in enumerate(members[1:], 1):
            self.emit(1, f"elif c == {i}: {v} = {m}")
        self.emit(1, f"else: {v} = {r.choice(unhashable + members)}")
        self.emit(1, f"reveal_type({v})")
        for _ in range(r.randrange(3, 8)):
            a = r.choice(args)
            form = r.randrange(8)
            if form == 0:
                self.emit(1, f"{take}({a})")
            elif form == 1:
                self.emit(1, f"{take}({members[0]}, {a})")
            elif form == 2:
                self.emit(1, f"w{self.uid}: {alias} = {a}")
            elif form == 3:
                self.emit(1, f"reveal_type({v} == {a})")
            elif form == 4:
                self.emit(1, f"if wide in ({a}, {r.choice(args)}): reveal_type(wide)")
            elif form == 5:
                self.emit(1, f"if {v} == {a}: reveal_type({v})")
            elif form == 6:
                self.emit(1, f"{take}(d={a}, e={r.choice(args)})")
            else:
                self.emit(1, f"reveal_type({take}({v}, {a}))")
        ret = self.fresh("ret")
        self.emit(0, f"def {ret}(c) -> {alias}:")
        self.emit(1, f"return {r.choice(unhashable)} if c else {r.choice(members)}")
        self.emit(0, "")

    def decl_order_section(self):
        """declaration-before-binding orders: nonlocal / global before the owner's assignment, module-level
        uses of names defined further down (inside functions, so the module still imports), methods that
        read class attributes defined after them, forward references in defaults and decorators of
        never-executed nested definitions"""
        r = self.rng
        self.features.add("decl_order")
        k = r.randrange(6)
        v = self.fresh("late")
        if k == 0:
            fn = self.fresh("owner")
            self.emit(0, f"def {fn}(a: {r.choice(ANNOTS)} = None):  # type: ignore")
            self.emit(1, "def inner():")
            self.emit(2, f"nonlocal {v}")
            self.emit(2, r.choice([f"{v} += 1", f"{v} = {r.choice(LITS)}", f"reveal_type({v})", f"del {v}", f"for {v} in (1, 2): pass"]))
            self.emit(2, f"return {v}")
            if r.random() < 0.4:
                self.emit(1, "def second():")
                self.emit(2, "def third():")
                self.emit(3, f"nonlocal {v}")
                self.emit(3, f"return {v}")
                self.emit(2, "return third")
            self.emit(1, r.choice([f"{v} = {r.choice(LITS)}", f"{v}: int = 0", f"for {v} in range(3): pass", f"with open('x') as {v}: pass",
                                   f"import os as {v}", f"{v}, other = 1, 2", f"if a: {v} = 1\n    else: {v} = 'x'"]))
            self.emit(1, f"reveal_type({v})")
            self.emit(1, "return inner")
        elif k == 1:
            fn = self.fresh("setg")
            self.emit(0, f"def {fn}():")
            self.emit(1, f"global {v}")
            self.emit(1, r.choice([f"{v} = {r.choice(LITS)}", f"{v} += 1", f"del {v}", f"reveal_type({v})", f"{v}.append(1)"]))
            self.emit(1, f"return {v}")
            if r.random() < 0.7:
                self.emit(0, f"{v} = {r.choice(LITS)}")
            else:
                self.emit(0, f"def {self.fresh('setg')}():")
                self.emit(1, f"global {v}")
                self.emit(1, f"{v} = {r.choice(LITS)}")
        elif k == 2:
            fn, later, cls = self.fresh("early"), self.fresh("later"), self.fresh("LaterCls")
            self.emit(0, f"def {fn}(x):")
            self.emit(1, f"y = {later}(x, {cls}())")
            self.emit(1, f"reveal_type({later})")
            self.emit(1, f"reveal_type({cls}.attr)")
            self.emit(1, f"z: {cls} = {cls}()")
            self.emit(1, f"return {v}, y, z")
            self.emit(0, f"def {later}(a: int, b: '{cls}') -> '{cls}': return b")
            self.emit(0, f"class {cls}:")
            self.emit(1, f"attr = {r.choice(LITS)}")
            self.emit(0, f"{v} = {later}(1, {cls}())")
        elif k == 3:
            cls = self.fresh("Early")
            self.emit(0, f"class {cls}:")
            self.emit(1, "def first(self):")
            self.emit(2, f"reveal_type(self.{v})")
            self.emit(2, f"reveal_type({cls}.{v})")
            self.emit(2, f"return self.second(self.{v}) + self.{v}_inst")
            self.emit(1, "@property")
            self.emit(1, f"def prop(self) -> '{cls}': return self.{v}_inst")
            self.emit(1, f"def second(self, a): return a")
            self.emit(1, f"{v} = {r.choice(LITS)}")
            self.emit(1, "def __init__(self):")
            self.emit(2, f"self.{v}_inst = {r.choice(LITS)}")
        elif k == 4:
            fn, deco, dflt = self.fresh("never"), self.fresh("deco_late"), self.fresh("dflt_late")
            self.emit(0, f"def {fn}():")
            self.emit(1, f"@{deco}")
            self.emit(1, f"def inner(a={dflt}, *, b={dflt}.real, c: '{v}' = None) -> '{v}': return a  # type: ignore")
            self.emit(1, f"@{deco}({dflt})  # type: ignore")
            self.emit(1, f"class Inner({v}): pass  # type: ignore")
            self.emit(1, f"lam = lambda q={dflt}: q")
            self.emit(1, "return inner, Inner, lam")
            self.emit(0, f"def {deco}(f): return f")
            self.emit(0, f"{dflt} = {r.choice(['1', '2.5', 'True'])}")
            self.emit(0, f"class {v}: pass")
        else:
            fn = self.fresh("owner")
            self.emit(0, f"def {fn}():")
            self.emit(1, "class Local:")
            self.emit(2, "def method(self):")
            self.emit(3, f"nonlocal {v}")
            self.emit(3, f"{v} = {r.choice(LITS)}")
            self.emit(3, f"return [{v} for _ in range(2)], (lambda: {v})()")
            self.emit(1, f"gen = ({v} for _ in range(2))")
            self.emit(1, f"{v} = {r.choice(LITS)}")
            self.emit(1, f"return Local, gen")
        self.emit(0, "")

    def program(self):
        r = self.rng
        self.lines = [gen_c10.HEADER + HEADER_EXTRA, "def helper(x, *, aa=0): return x", ""]
        self.features = set()
        pieces = [self.flow_function] * 3 + [
            self.call_section, self.protocol_section, self.overload_section, self.typevar_section, self.typeddict_section,
            self.class_section, self.odd_annotation_section, self.odd_annotation_section, self.paramspec_section,
            self.decorator_section, self.expr_section, self.expr_section, self.match_section, self.async_section, self.class_odd_section,
            self.literal_union_section, self.literal_union_section, self.typeguard_section, self.typeguard_section,
            self.sysinfo_section, self.global_section, self.bounds_section, self.bounds_section,
            self.lambda_fstring_section, self.lambda_fstring_section, self.match_section,
            self.format_spec_section, self.format_spec_section, self.unpack_kwargs_section, self.typevar_truthiness_section,
            self.typevar_truthiness_section, self.fixable_mix_section, self.fixable_mix_section, self.fixable_mix_section,
            self.hostile_literal_section, self.hostile_literal_section,
            self.decl_order_section, self.decl_order_section, self.decl_order_section,
        ]
        for _ in range(r.randrange(3, 7)):
            r.choice(pieces)()
        return "\n".join(self.lines) + "\n", sorted(self.features)


def gen_program(rng: random.Random):
    g = Gen12(rng)
    for _ in range(80):
        src, feats = g.program()
        try:
            import warnings

            with warnings.catch_warnings():
                warnings.simplefilter("ignore")
                code = compile(src, "<gen>", "exec")
        except SyntaxError:
            continue
        try:
            exec(code, {"__name__": "c12gen_probe"})
        except BaseException:  # noqa
            continue
        return src, feats
    raise RuntimeError("generator could not produce an importable program")


def gen_enabled(rng, all_codes):
    """An enabled-code configuration: None = the test default."""
    k = rng.randrange(5)
    if k <= 1:
        return None
    if k == 2:
        return sorted(c for c in all_codes if c != "internal_error") + ["internal_error"]
    if k == 3:
        return sorted(rng.sample(all_codes, rng.randrange(3, 15)) + ["internal_error"])
    return sorted(c for c in all_codes if rng.random() < 0.5 or c == "internal_error")
